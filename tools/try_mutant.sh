#!/bin/bash
# usage: try_mutant.sh <patch.diff> <prop> [tier]   (applies to /repo, runs the check, reverts)
set -u
cd /repo || exit 9
git diff --quiet || { echo "repo dirty"; exit 9; }
git apply "$1" || { echo "patch does not apply"; exit 9; }
cd /verif
python3-vt -m pyvc.check "$2" --tier "${3:-quick}" 2>&1 | grep -v '^WARNING' | tail -${LINES_OUT:-6}
rc=${PIPESTATUS[0]}
git -C /repo checkout -- .
echo "exit=$rc"
