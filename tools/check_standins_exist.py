#!/usr/bin/env python3
"""Every stand-in / replay function a contract names must exist in /verif/replay/<prop>.py (a lost proof falls back on it)."""
import ast, os, sys
sys.path.insert(0, '/verif')
from pyvc.contracts import Registry
def names_of(prop):
  tree = ast.parse(open(f'/verif/replay/{prop}.py').read())
  names = {n.name for n in tree.body if isinstance(n, ast.FunctionDef)}
  for n in tree.body:
    if isinstance(n, ast.ImportFrom):
      names |= {a.asname or a.name for a in n.names}
  return names
PROPS = sorted(f[:-3] for f in os.listdir('/verif/contracts') if f.startswith('C') and f.endswith('.py'))
ANY = set().union(*[names_of(p) for p in PROPS])      # replay/run.py falls back on the other properties' modules
bad = []
for prop in sorted(f[:-3] for f in os.listdir('/verif/contracts') if f.startswith('C') and f.endswith('.py')):
  R = Registry().load_dir('/verif/contracts', only=[prop])
  src = open(f'/verif/replay/{prop}.py').read()
  tree = ast.parse(src)
  names = {n.name for n in tree.body if isinstance(n, ast.FunctionDef)}
  for n in tree.body:
    if isinstance(n, ast.ImportFrom):
      names |= {a.asname or a.name for a in n.names}
  want = {c.bounded for c in R.for_prop(prop) if c.bounded} | {c.replay for c in R.for_prop(prop) if c.replay} | {n for n, _ in R.bounded_checks.get(prop, [])}
  for w in sorted(want - names - ANY):
    bad.append((prop, w))
print('missing stand-ins:', bad)
sys.exit(1 if bad else 0)
