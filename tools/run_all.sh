#!/bin/bash
# Runs every registered quick check on the current /repo tree (regenerates evidence). usage: run_all.sh [tier]
cd /verif
git -C /repo diff --quiet || { echo "WARNING: /repo has uncommitted changes"; }
for id in $(python3 -c "import json;print(' '.join(c['property_id'] for c in json.load(open('MANIFEST.json'))['checks']))"); do
  python3-vt -m pyvc.check $id --tier ${1:-quick} 2>&1 | grep -v '^WARNING' | tail -${LINES_OUT:-1}
done
python3-vt - <<'P'
import json,jsonschema,glob
ms=json.load(open('/root/.vp/MANIFEST.schema.json')); es=json.load(open('/root/.vp/EVIDENCE.schema.json'))
m=json.load(open('/verif/MANIFEST.json')); jsonschema.validate(m,ms)
for c in m['checks']:
    e=json.load(open(c['evidence_file'])); jsonschema.validate(e,es)
    assert e['level']==c['level_claimed']['category'], (c['property_id'], e['level'])
    if e['level']=='proof': assert e['coverage']['obligations']==e['coverage']['discharged']
print('manifest+evidence valid for', [c['property_id'] for c in m['checks']])
P
