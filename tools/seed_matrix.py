#!/usr/bin/env python3
"""Applies every seeded change to /repo in turn, runs its property's quick check, records what caught it
in seeded/<id>/meta.json (detected_by) and prints a table. /repo must be clean; it is restored after each run."""
import json, os, subprocess, sys
ROOT = '/verif/seeded'
rows = []
for d in sorted(os.listdir(ROOT)):
  p = os.path.join(ROOT, d)
  meta = json.load(open(f'{p}/meta.json'))
  prop = meta['property']
  if subprocess.run(['git', '-C', '/repo', 'diff', '--quiet']).returncode != 0:
    sys.exit('repo dirty')
  if subprocess.run(['git', '-C', '/repo', 'apply', f'{p}/patch.diff']).returncode != 0:
    rows.append((d, 'PATCH-DOES-NOT-APPLY', '')); continue
  try:
    r = subprocess.run(['python3-vt', '-m', 'pyvc.check', prop], cwd='/verif', capture_output=True, text=True, timeout=1800)
    ev = json.load(open(f'/verif/evidence/{prop}.json'))
  finally:
    subprocess.run(['git', '-C', '/repo', 'checkout', '--', '.'])
  failed_fns = [f['target'].split('::')[-1] for f in ev['coverage'].get('functions', []) if f['status'] != 'proved']
  bounded = [b['name'] for b in ev['coverage'].get('bounded', []) if b.get('violations')]
  nfi = 'no-failing-input-found' in r.stdout
  meta['detected_by'] = dict(exit=r.returncode, failed_contract_functions=failed_fns, bounded_stand_ins_with_witness=bounded,
                             no_failing_input_found=nfi)
  json.dump(meta, open(f'{p}/meta.json', 'w'), indent=1)
  rows.append((d, r.returncode, f'contracts: {failed_fns} | stand-ins: {bounded}' + (' | no-failing-input-found' if nfi else '')))
for row in rows:
  print(*row, sep='\t')
# restore clean evidence
subprocess.run(['/verif/tools/run_all.sh'], capture_output=True)
