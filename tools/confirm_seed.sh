#!/bin/bash
# usage: confirm_seed.sh <prop> <n>  -- confirms mutant n of /tmp/mut/<prop>/_out in that scratch worktree
id=$1; n=$2; base=${3:-/tmp/mut}; wt=$base/$id; out=$base/confirm_${id}_$n.txt
cd $wt || exit 9
git checkout -q -- . 
{
echo "== clean demo"; PYTHONPATH=$wt timeout 600 /venv/bin/python _out/demo$n.py >/dev/null 2>&1; echo "demo_clean_rc=$?"
git apply _out/mutant$n.diff || echo "APPLY-FAILED"
echo "== mutant demo"; PYTHONPATH=$wt timeout 600 /venv/bin/python _out/demo$n.py >/dev/null 2>&1; echo "demo_mutant_rc=$?"
echo "== suite with mutant"; PYTHONPATH=$wt timeout 1500 /venv/bin/python -m pytest -q -p no:cacheprovider --timeout=900 --continue-on-collection-errors 2>&1 | tail -1
git checkout -q -- .
} > $out 2>&1
cat $out | tr '\n' ' '; echo
