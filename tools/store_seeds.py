#!/usr/bin/env python3
"""Copies confirmed seeded mutants from the scratch worktrees into /verif/seeded/<prop>-<n>/."""
import json, os, re, shutil, sys
BASE = sys.argv[1] if len(sys.argv) > 1 else '/tmp/mut'
TAG = sys.argv[2] if len(sys.argv) > 2 else ''          # e.g. 'r2-' for the second round
for f in sorted(os.listdir(BASE)):
  m = re.match(r'confirm_(C\d+)_(\d)\.txt$', f)
  if not m:
    continue
  prop, n = m.groups()
  txt = open(f'{BASE}/{f}').read()
  ok = 'demo_clean_rc=0' in txt and re.search(r'demo_mutant_rc=[1-9]', txt) and '657 passed' in txt and '7 errors' in txt and 'failed' not in txt.split('suite with mutant')[-1]
  d = f'/verif/seeded/{prop}-{TAG}{n}'
  if not os.path.exists(f'{BASE}/{prop}/_out/mutant{n}.diff'):
    continue      # scratch worktree already removed (stored earlier)
  if not ok:
    print('NOT CONFIRMED', prop, n, txt.replace('\n', ' ')[:300])
    continue
  os.makedirs(d, exist_ok=True)
  shutil.copy(f'{BASE}/{prop}/_out/mutant{n}.diff', f'{d}/patch.diff')
  shutil.copy(f'{BASE}/{prop}/_out/demo{n}.py', f'{d}/demo.py')
  if os.path.exists(f'{BASE}/{prop}/_out/fake_courier.py'):
    shutil.copy(f'{BASE}/{prop}/_out/fake_courier.py', f'{d}/fake_courier.py')
  notes = open(f'{BASE}/{prop}/_out/notes.md').read()
  meta_path = f'{d}/meta.json'
  meta = json.load(open(meta_path)) if os.path.exists(meta_path) else {}
  meta.update(dict(property=prop, mutant=int(n), origin='independent sub-agent given only the property text and a scratch worktree',
                   confirmed=dict(what_i_ran='tools/confirm_seed.sh: demo on the clean scratch worktree (exit 0), git apply patch, demo (exit non-zero), full pytest suite with the patch',
                                  demo_clean_rc=0, demo_mutant_rc=int(re.search(r'demo_mutant_rc=(\d+)', txt).group(1)),
                                  suite_with_mutant=txt.split('suite with mutant')[-1].strip().split('\n')[0]),
                   needs_to_manifest='see notes.md (author\'s description of the trigger)'))
  json.dump(meta, open(meta_path, 'w'), indent=1)
  open(f'{d}/notes.md', 'w').write(notes)
  print('stored', prop, n)
