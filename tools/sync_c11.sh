#!/bin/bash
# C11 uses the same contract file as C01
sed 's#^"""C01/C11 - merge is a homomorphism#"""C11 (same contracts as C01.py, kept in sync by tools/sync_c11.sh) - merge is a homomorphism#' /verif/contracts/C01.py > /verif/contracts/C11.py
