#!/bin/bash
# C11 uses the same contract file as C01, C05 the same as C04
sed 's#^"""C01/C11 - merge is a homomorphism#"""C11 (same contracts as C01.py, kept in sync by tools/sync_c11.sh) - merge is a homomorphism#' /verif/contracts/C01.py > /verif/contracts/C11.py
sed 's#^"""C04 / C05 - IteratorQueue#"""C05 (same contracts as C04.py, kept in sync by tools/sync_c11.sh) - IteratorQueue#' /verif/contracts/C04.py > /verif/contracts/C05.py
cp /verif/replay/C04.py /verif/replay/C05.py
