#!/bin/bash
# Applies every semantics-preserving edit under /verif/benign to /repo in turn and runs the property's quick check:
# each must exit 0 (no alarm; a proof that no longer goes through is reported as PROOF-LOST, decided by the stand-in).
cd /verif
for f in benign/*.diff; do
  n=$(basename $f .diff); p=${n%%_*}
  out=$(tools/try_mutant.sh /verif/$f $p 2>&1 | grep -v KNOWN)
  rc=$(echo "$out" | grep -o 'exit=[0-9]*' | tail -1)
  lost=$(echo "$out" | grep -c PROOF-LOST)
  echo "$n $rc proof_lost=$lost"
done
tools/run_all.sh > /dev/null 2>&1
