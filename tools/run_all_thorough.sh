#!/bin/bash
# every thorough command once (about 15 min on 16 cores); then the quick tier again so that the committed evidence is the quick one
cd /verif
for p in C01 C02 C04 C05 C07 C08 C09 C10 C11 C12 C17 C18 C19 C20; do
  python3-vt -m pyvc.check $p --tier thorough 2>&1 | grep -v "^KNOWN" | tail -1 | cut -c1-200
done
tools/run_all.sh | tail -1
