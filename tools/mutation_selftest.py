#!/usr/bin/env python3
"""usage: python3-vt tools/mutation_selftest.py <prop>|all [cap-per-function] [timeout-ms]

Self-test of the contracts (DESIGN 5): for every function under contract of the property, up to `cap` in-memory
AST mutants of the real source are verified; a mutant is KILLED when the verifier no longer proves the function
(some obligation sat/unknown, unsupported, or a vacuity alarm), it SURVIVES when every obligation is still
discharged.  Writes /verif/evidence/mutation/<prop>.json and prints a table.  Nothing is written to /repo."""
import json
import multiprocessing as mp
import os
import sys
import time

VERIF = os.path.dirname(os.path.dirname(os.path.abspath(__file__)))
sys.path.insert(0, VERIF)
REPO = os.environ.get('PYVC_REPO', '/repo')


def _load(prop):
  from pyvc.world import World
  from pyvc.contracts import Registry
  return Registry().load_dir(os.path.join(VERIF, 'contracts'), only=[prop]), World(REPO)


def _sites(args):
  prop, key, cap = args
  from pyvc import mutate
  R, W = _load(prop)
  c = [c for c in R.for_prop(prop) if c.key == key][0]
  _, _, node = W.find(c.target)
  s = mutate.sites(node)
  picked = mutate.pick(s, cap)
  return [(prop, key, s.index(p), p[0]) for p in picked], len(s)


def _run(args):
  prop, key, k, desc, timeout_ms = args
  from pyvc import mutate
  from pyvc.engine import verify_function
  R, W = _load(prop)
  c = [c for c in R.for_prop(prop) if c.key == key][0]
  t0 = time.time()

  def mut(node):
    s = mutate.sites(node)
    m = mutate.mutant(node, s[k])
    return m if m is not None else node
  try:
    r = verify_function(W, R, c, prop, timeout_ms, mutate=mut)
    status = r.status
    failed = [o.name.split('/')[-1] if '/' in o.name else o.name for o in r.obligations if o.result != 'unsat'][:3]
  except Exception as e:   # pylint: disable=broad-exception-caught
    status, failed = 'error', [repr(e)[:100]]
  return dict(function=key, mutant=desc, status=status, killed=status != 'proved', failed=failed, secs=round(time.time() - t0, 2))


def selftest(prop, cap=8, timeout_ms=10000, jobs=16):
  R, _ = _load(prop)
  keys = [c.key for c in R.for_prop(prop)]
  from pyvc.jobs import run_jobs          # one process per job, hard limits (a hung solver call cannot stall the self-test)
  site_lists = run_jobs(_sites, [(prop, k, cap) for k in keys], jobs, 600, lambda job, reason, kills: ([], 0))
  work = [(p, k, i, d, timeout_ms) for lst, _ in site_lists for (p, k, i, d) in lst]
  res = run_jobs(_run, work, jobs, 900, lambda job, reason, kills: dict(function=job[1], mutant=job[3], status='timeout', killed=False,
                                                                     failed=[reason[:100]], secs=0))
  # variants of one target share its source: a mutant counts as killed when ANY variant of the target rejects it
  per_fn = {}
  verdict = {}
  for r in res:
    t = r['function'].split('#')[0]
    verdict.setdefault((t, r['mutant']), False)
    verdict[(t, r['mutant'])] = verdict[(t, r['mutant'])] or r['killed']
  for k, (lst, total) in zip(keys, site_lists):
    per_fn.setdefault(k.split('#')[0], dict(sites=total, variants=0, mutants=0, killed=0, survivors=[]))['variants'] += 1
  for (t, desc), killed in sorted(verdict.items()):
    f = per_fn[t]
    f['mutants'] += 1
    if killed:
      f['killed'] += 1
    else:
      f['survivors'].append(desc)
  out = dict(property=prop, cap_per_function=cap, timeout_ms=timeout_ms,
             mutants=sum(f['mutants'] for f in per_fn.values()), killed=sum(f['killed'] for f in per_fn.values()),
             functions=per_fn)
  os.makedirs(os.path.join(VERIF, 'evidence', 'mutation'), exist_ok=True)
  json.dump(out, open(os.path.join(VERIF, 'evidence', 'mutation', f'{prop}.json'), 'w'), indent=1)
  return out


def main():
  prop = sys.argv[1]
  cap = int(sys.argv[2]) if len(sys.argv) > 2 else 8
  to = int(sys.argv[3]) if len(sys.argv) > 3 else 10000
  props = [prop]
  if prop == 'all':
    m = json.load(open(os.path.join(VERIF, 'MANIFEST.json')))
    props = [c['property_id'] for c in m['checks']]
  for p in props:
    t0 = time.time()
    out = selftest(p, cap, to)
    print(f'{p}: {out["killed"]}/{out["mutants"]} mutants killed ({time.time() - t0:.0f}s)')
    for k, f in out['functions'].items():
      if f['survivors']:
        print(f'   {k.split("::")[-1]}: {f["killed"]}/{f["mutants"]} killed; survivors:')
        for s in f['survivors']:
          print(f'      - {s}')


if __name__ == '__main__':
  main()
