#!/usr/bin/env python3
"""Reverts every `fix:` commit of /repo in turn (in the working tree only), runs the check of its property and prints
what reports the returned defect. /repo must be clean; it is reset after each run. Results: /verif/evidence/revert_matrix.json"""
import json, re, subprocess, sys
fixed = json.load(open('/verif/known_findings.json'))['fixed']
rows = []
for line in fixed:
  m = re.match(r'fixed: property=(C\d+) ([0-9a-f]{7,}) (.*)', line)
  if not m:
    continue
  prop, h, what = m.groups()
  if subprocess.run(['git', '-C', '/repo', 'diff', '--quiet']).returncode != 0:
    sys.exit('repo dirty')
  r = subprocess.run(['git', '-C', '/repo', 'revert', '--no-commit', h], capture_output=True, text=True)
  if r.returncode != 0:
    subprocess.run(['git', '-C', '/repo', 'revert', '--abort'], capture_output=True)
    subprocess.run(['git', '-C', '/repo', 'reset', '-q', '--hard', 'HEAD'])
    rows.append(dict(property=prop, commit=h, result='REVERT-CONFLICT', what=what[:80])); continue
  try:
    c = subprocess.run(['python3-vt', '-m', 'pyvc.check', prop], cwd='/verif', capture_output=True, text=True, timeout=1800)
    ev = json.load(open(f'/verif/evidence/{prop}.json'))
  finally:
    subprocess.run(['git', '-C', '/repo', 'reset', '-q', '--hard', 'HEAD'])
  failed = [f['target'].split('::')[-1] for f in ev['coverage'].get('functions', []) if f['status'] != 'proved']
  bounded = [b['name'] for b in ev['coverage'].get('bounded', []) if b.get('violations')]
  rows.append(dict(property=prop, commit=h, exit=c.returncode, failed_contract_functions=failed, stand_ins_with_witness=bounded,
                   no_failing_input_found='no-failing-input-found' in c.stdout, what=what[:80]))
json.dump(rows, open('/verif/evidence/revert_matrix.json', 'w'), indent=1)
for r in rows:
  print(r['property'], r['commit'], r.get('exit', r.get('result')), r.get('failed_contract_functions'), r.get('stand_ins_with_witness'), '|', r['what'])
subprocess.run(['/verif/tools/run_all.sh'], capture_output=True)
