#!/bin/bash
# usage: benign_all.sh <diff>...   applies each diff to /repo, runs ALL claimed checks in parallel (quick tier), reverts.
# prints one line per diff: exit codes != 0 and PROOF-LOST counts per property
cd /verif
PROPS="C01 C02 C04 C05 C07 C08 C09 C10 C11 C12 C17 C18 C19 C20"
for f in "$@"; do
  f=$(readlink -f "$f")
  git -C /repo diff --quiet || { echo "repo dirty"; exit 9; }
  git -C /repo apply "$f" || { echo "$f DOES-NOT-APPLY"; continue; }
  tmp=$(mktemp -d /root/benign.XXXX)
  for p in $PROPS; do
    ( python3-vt -m pyvc.check $p > $tmp/$p.out 2>&1; echo $? > $tmp/$p.rc ) &
  done
  wait
  git -C /repo checkout -- .
  line="$f"
  for p in $PROPS; do
    rc=$(cat $tmp/$p.rc); lost=$(grep -c PROOF-LOST $tmp/$p.out)
    if [ "$rc" != "0" ] || [ "$lost" != "0" ]; then line="$line | $p rc=$rc lost=$lost"; fi
    if [ "$rc" != "0" ]; then mkdir -p /root/benign_fail; cp $tmp/$p.out /root/benign_fail/$(basename $(dirname $f))_$(basename $f .diff)_$p.out; fi
  done
  echo "$line"
  rm -rf $tmp
done
