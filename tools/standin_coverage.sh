#!/bin/bash
# Line coverage of the native stand-ins over the anchored source files (a blind-spot finder, not evidence).
cd /verif/replay; rm -f /tmp/.cov_standins*; export COVERAGE_FILE=/tmp/.cov_standins
python3-vt - <<'P' > /tmp/standin_jobs.txt
import sys, os, re
sys.path.insert(0,'/verif')
from pyvc.contracts import Registry
R=Registry().load_dir('/verif/contracts')
seen=set()
for prop, lst in R.bounded_checks.items():
    for name,_ in lst:
        if (prop,name) not in seen:
            seen.add((prop,name)); print(prop,name)
P
while read prop fn; do
  echo '{"tier":"quick"}' | PYTHONPATH=/repo timeout 1500 /venv/bin/python -m coverage run -a --source=/repo/ml_metrics/_src run.py $prop $fn > /dev/null 2>&1
done < /tmp/standin_jobs.txt
/venv/bin/python -m coverage report --omit='*_test.py' -m 2>/dev/null | grep -v "100%" | head -60
