"""usage: python3-vt tools/dbg.py <prop> <key-substring> [timeout_ms]  -- per-obligation results of one contract"""
import sys, collections
sys.path.insert(0, '/verif')
from pyvc import world as W, contracts as C, engine as E
prop, sub = sys.argv[1], sys.argv[2]
to = int(sys.argv[3]) if len(sys.argv) > 3 else 20000
reg = C.Registry().load_dir('/verif/contracts', only=[prop])
world = W.World('/repo')
for c in reg.for_prop(prop):
  if sub not in c.key:
    continue
  r = E.verify_function(world, reg, c, prop, timeout_ms=to)
  print(c.key, r.status, r.error, 'paths', r.paths, 'secs %.1f' % r.secs, r.exits)
  cnt = collections.Counter()
  for o in r.obligations:
    cnt[o.result] += 1
    if o.result != 'unsat':
      print('  ', o.result, o.backend, '%.1fs' % o.secs, o.name, '|', o.info.get('text', '')[:150])
      if o.result == 'sat' and o.info.get('model'):
        print('      model', {k: v for k, v in o.info['model'].items() if len(v) < 60})
      if o.info.get('witness'):
        print('      witness', o.info['witness'])
  print(cnt)
for l in reg.lemmas:
  if l.prop == prop and sub in l.name:
    r = E.prove_lemma(world, reg, l, prop, timeout_ms=to)
    print('lemma', l.name, r.status, r.error)
    for o in r.obligations:
      print('  ', o.result, o.backend, '%.1fs' % o.secs, o.name)
