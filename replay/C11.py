"""C11 native bounded stand-in: merge algebra and operand integrity for every shipped metric."""
import itertools
from common import Search, expect
import metrics_common as mc
import metric_zoo as mz
from metric_zoo import replay_result_after_update, replay_frequency_merge   # pylint: disable=unused-import


def _state(entry, blocks):
  acc = entry.make()
  for lo, hi in blocks:
    entry.feed(acc, entry.rows[lo:hi])
  return acc


def _eq(entry, a, b):
  if isinstance(a, str) or isinstance(b, str):
    return a == b
  if entry.random:
    if a is None or b is None:
      return a == b
    return a['size'] == b['size'] and a['reviewed'] == b['reviewed']
  return mc.close(a, b, 1e-7)


def bounded_merge_states(p):
  """AggregateFn.merge_states over 2..5 states: only the first state may be modified."""
  import collections
  from ml_metrics._src.aggregates import base, rolling_stats as rs
  S = Search(p, dict(states='2..5', aggregates='Counter, MeanAndVariance, UnboundedSampler via MergeableMetricAggFn'))
  import numpy as np
  cases = [('Counter', lambda: rs.Counter().as_agg_fn(), [list('ab'), list('b'), list('ccc'), list('dddd'), list('e')], lambda st: dict(st.result())),
           ('MeanAndVariance', lambda: rs.MeanAndVariance().as_agg_fn(), [[1.0, 2.0], [3.0], [4.0, 6.0], [8.0], [9.0, 1.0]], lambda st: [float(st.count), float(st.mean), float(st.var)]),
           ('UnboundedSampler', lambda: rs.UnboundedSampler().as_agg_fn(), [[1], [2, 3], [4], [5, 6], [7]], lambda st: mz._norm(st.result()))]
  for name, mk, data, view in cases:
    for n in range(2, 6):
      fn = mk()
      states = []
      for d in data[:n]:
        st = fn.create_state()
        st = fn.update_state(st, np.array(d) if name == 'MeanAndVariance' else d)
        states.append(st)
      before = [view(mz.snapshot(st)) for st in states]
      merged = expect(lambda: fn.merge_states(states))
      after = [view(st) for st in states]
      changed = [i for i in range(1, n) if not mc.close(after[i], before[i])]
      if not S.check(merged[0] == 'ok' and not changed, dict(aggregate=name, states=n, law='merge_states modifies only its first state'),
                     f'{name}: merge_states over {n} states changed operand(s) {changed}: {[before[i] for i in changed]} -> {[after[i] for i in changed]}', cls=f'{name}-{n}'):
        return S.result()
  return S.result()


def bounded_algebra(p):
  S = Search(p, dict(metrics='every shipped mergeable metric', states='empty + 3 states from disjoint data slices', laws='assoc, commut (unordered), neutral both sides, operand intact, no leak, repeatable result'))
  only = (S.only or {}).get('metric')
  for entry in mz.zoo():
    if only and entry.name != only:
      continue
    n = len(entry.rows)
    cuts = [0, max(1, n // 3), max(2, 2 * n // 3), n]
    specs = {'E': [], 'A': [(cuts[0], cuts[1])], 'B': [(cuts[1], cuts[2])], 'C': [(cuts[2], cuts[3])], 'AB2': [(cuts[0], cuts[1]), (cuts[1], cuts[2])]}
    mk = lambda k: _state(entry, specs[k])

    def merged(keys, bracket):
      xs = [mk(k) for k in keys]
      if bracket == 'left':       # (x0 . x1) . x2
        entry.merge(xs[0], xs[1]); entry.merge(xs[0], xs[2]); return entry.view(xs[0])
      entry.merge(xs[1], xs[2]); entry.merge(xs[0], xs[1]); return entry.view(xs[0])   # x0 . (x1 . x2)

    for keys in itertools.product('EABC', repeat=3):
      if len(set(keys) - {'E'}) < len([k for k in keys if k != 'E']):
        continue      # the same data twice is not a partition of a dataset
      l, r = expect(lambda: merged(keys, 'left')), expect(lambda: merged(keys, 'right'))
      if not S.check(l[0] == 'ok' and r[0] == 'ok' and _eq(entry, l[1], r[1]), dict(metric=entry.name, law='associativity', states=list(keys)),
                     f'{entry.name}: ({keys[0]}.{keys[1]}).{keys[2]} = {l}  but {keys[0]}.({keys[1]}.{keys[2]}) = {r}', cls=entry.name + ':assoc'):
        return S.result()
    for a, b in itertools.permutations('EABC', 2):
      def two(x, y):
        sx, sy = mk(x), mk(y)
        entry.merge(sx, sy)
        return entry.view(sx)
      ab, ba = expect(lambda: two(a, b)), expect(lambda: two(b, a))
      if 'E' in (a, b):
        other = a if b == 'E' else b
        alone = entry.view(mk(other))
        for got, side in ((ab, f'{a}.{b}'), (ba, f'{b}.{a}')):
          if not S.check(got[0] == 'ok' and _eq(entry, got[1], alone), dict(metric=entry.name, law='neutral element', order=side),
                         f'{entry.name}: merging with a fresh state ({side}) gives {got}, the state alone gives {alone}', cls=entry.name + ':neutral'):
            return S.result()
      elif not entry.ordered:
        if not S.check(ab[0] == 'ok' and ba[0] == 'ok' and _eq(entry, ab[1], ba[1]), dict(metric=entry.name, law='commutativity', states=[a, b]),
                       f'{entry.name}: {a}.{b} = {ab} but {b}.{a} = {ba}', cls=entry.name + ':commut'):
          return S.result()
    # operand integrity, no leak, repeatable result
    for a, b in itertools.product('EAB', 'EBC'):
      if a == b != 'E':
        continue
      sa, sb = mk(a), mk(b)
      before_b = entry.view(mz.snapshot(sb))
      mres = expect(lambda: entry.merge(sa, sb))
      if mres[0] != 'ok':
        if not S.check(False, dict(metric=entry.name, law='merge raises', states=[a, b]), f'{entry.name}: {a}.merge({b}) raised {mres[1]}', cls=entry.name + ':raises'):
          return S.result()
        continue
      after_b = expect(lambda: entry.view(sb))
      if not S.check(after_b[0] == 'ok' and _eq(entry, after_b[1], before_b) and (not entry.random or after_b[1] == before_b), dict(metric=entry.name, law='operand intact', states=[a, b]),
                     f'{entry.name}: after {a}.merge({b}) the merged-in state reports {after_b}, before {before_b}', cls=entry.name + ':operand'):
        return S.result()
      # later updates of the receiver must not leak into the operand, and vice versa
      try:
        entry.feed(sa, entry.rows[:2])
        mz.snapshot(sa)
        entry.feed(mz.snapshot(sb), entry.rows[-2:])
        entry.feed(mz.snapshot(sa), entry.rows[:1])
      except Exception as e:   # pylint: disable=broad-exception-caught
        if not S.check(False, dict(metric=entry.name, law='update after merge raises', states=[a, b]),
                       f'{entry.name}: after {a}.merge({b}) a further add() raised {type(e).__name__}: {e}', cls=entry.name + ':raises'):
          return S.result()
        continue
      sa, sb = mk(a), mk(b)
      entry.merge(sa, sb)
      entry.feed(sa, entry.rows[:2])
      leak1 = entry.view(sb)
      ok1 = (leak1 == before_b) if entry.random else _eq(entry, leak1, before_b)
      sa2 = mz.snapshot(sa)
      entry.feed(sb, entry.rows[-2:])
      leak2 = entry.view(sa)
      ok2 = (leak2 == entry.view(sa2)) if entry.random else _eq(entry, leak2, entry.view(sa2))
      if not S.check(ok1 and ok2, dict(metric=entry.name, law='no leak', states=[a, b]),
                     f'{entry.name}: after {a}.merge({b}), adding to the receiver changed the operand ({before_b} -> {leak1}) or adding to the operand changed the receiver', cls=entry.name + ':leak'):
        return S.result()
      r1, r2 = entry.view(sa), entry.view(sa)
      entry.feed(sa, entry.rows[:1])
      # the reference is rebuilt from scratch and never read before: a copy of a state whose result was already read
      # would inherit whatever reading left behind (e.g. memoised values)
      ref = mk(a); entry.merge(ref, mk(b)); entry.feed(ref, entry.rows[:2]); entry.feed(ref, entry.rows[:1])
      ok3 = (r1 == r2) if entry.random else (_eq(entry, r1, r2) and _eq(entry, entry.view(sa), entry.view(ref)))
      if not S.check(ok3, dict(metric=entry.name, law='repeatable result', states=[a, b]), f'{entry.name}: result() twice gave {r1} / {r2}; after one more add() the state that had been read reports {entry.view(sa)}, a never-read state with the same history {entry.view(ref)}', cls=entry.name + ':result'):
        return S.result()
  return S.result()
