"""C17 native bounded searches: LruCache vs reference LRU; lazy vs eager evaluation."""
import itertools
import pickle
from common import Search, expect
from ml_metrics._src.utils import func_utils
from ml_metrics._src.chainables import lazy_fns


class RefLru:
  def __init__(self, maxsize):
    self.maxsize, self.order, self.hits, self.misses = maxsize, [], 0, 0   # order: least recent first
    self.val = {}
  def get(self, k):
    if k not in self.val:
      self.misses += 1
      return ('raise', 'KeyError')
    self.hits += 1
    self.order.remove(k); self.order.append(k)
    return ('ok', self.val[k])
  def set(self, k, v):
    new = k not in self.val
    self.val[k] = v
    if new:
      self.order.append(k)
      if len(self.order) > self.maxsize:
        old = self.order.pop(0)
        del self.val[old]
  def clear(self):
    self.order, self.val, self.hits, self.misses = [], {}, 0, 0


def bounded_lru(p):
  S = Search(p, dict(maxsize='1..3', keys=4, history='<=6 (7 thorough) get/set/clear operations'))
  L = 7 if S.thorough() else 6
  keys = ['a', 'b', 'c', 'd']
  for maxsize in (1, 2, 3):
    ops_alpha = [('get', k) for k in keys[:maxsize + 1]] + [('set', k) for k in keys[:maxsize + 1]] + [('clear', None)]
    for n in range(1, L + 1):
      if n > 5 and maxsize == 3 and not S.thorough():
        continue
      for ops in itertools.product(ops_alpha, repeat=n):
        if ops[0][0] != 'set':
          continue
        c, r = func_utils.LruCache(maxsize=maxsize), RefLru(maxsize)
        ok, why = True, ''
        for step, (op, k) in enumerate(ops):
          if op == 'get':
            got, exp = expect(lambda: c[k]), r.get(k)
          elif op == 'set':
            v = (k, step)
            c[k] = v
            r.set(k, v)
            got = exp = None
          else:
            c.cache_clear(); r.clear()
            got = exp = None
          info = c.cache_info()
          state = (list(c), len(c), info.hits, info.misses, info.currsize, [c.data[x] for x in c.data])
          rstate = (r.order, len(r.order), r.hits, r.misses, len(r.order), [r.val[x] for x in r.order])
          if got != exp or state != rstate or any((x in c) != (x in r.val) for x in keys):
            ok, why = False, f'maxsize={maxsize} after {ops[:step + 1]}: got {got} state {state}; reference {exp} {rstate}'
            break
        if not S.check(ok, dict(maxsize=maxsize, ops=[list(o) for o in ops]), why):
          return S.result()
  return S.result()


class Counter:
  """A stateful callable: every evaluation is observable."""
  def __init__(self):
    self.n = 0
  def __call__(self, *a, **k):
    self.n += 1
    return ('call', self.n, a, tuple(sorted(k.items())))
  def attr(self, x):
    return ('attr', x)


def _add(a, b=0):
  return a + b


def _mk(x):
  return {'k': [x, x + 1], 'n': None}


def _none(*a):
  return None


def _blob(b):
  return len(b)


def _expr_cases():
  """(name, lazy expression builder, eager thunk)."""
  t = lazy_fns.trace
  yield 'nested', lambda: t(_add)(t(_add)(1, 2), b=t(_add)(3)), lambda: _add(_add(1, 2), b=_add(3))
  yield 'getitem-chain', lambda: t(_mk)(4)['k'][1], lambda: _mk(4)['k'][1]
  yield 'attr-call', lambda: t(Counter)().attr(7), lambda: Counter().attr(7)
  yield 'len-of-list-arg', lambda: t(len)([1, 2, 3]), lambda: 3
  yield 'kwargs-lazy', lambda: t(_add)(a=t(_add)(1), b=2), lambda: _add(a=_add(1), b=2)
  yield 'bytes-arg', lambda: t(_blob)(pickle.dumps([1, 2, 3])), lambda: _blob(pickle.dumps([1, 2, 3]))
  yield 'plain-bytes-arg', lambda: t(_blob)(b'abc'), lambda: 3
  yield 'none-result', lambda: t(_none)(1), lambda: None
  yield 'tuple-arg', lambda: t(_add)((1, 2), b=(3,)), lambda: (1, 2, 3)


def bounded_lazy_eval(p):
  S = Search(p, dict(expressions=9, flags='cache_result x lazy_result', histories='make/clear sequences beyond the cache bound'), exhaustive=False)
  mm = lazy_fns.maybe_make
  for name, lazy, eager in _expr_cases():
    exp = expect(eager)
    got = expect(lambda: mm(lazy()))
    if not S.check(got == exp, dict(expr=name, what='lazy == eager'), f'{name}: lazy {got} eager {exp}'):
      return S.result()
    got2 = expect(lambda: mm(lazy_fns.pickler.loads(lazy_fns.pickler.dumps(lazy()))))
    if not S.check(got2 == exp, dict(expr=name, what='after pickle round trip'), f'{name}: pickled lazy {got2} eager {exp}'):
      return S.result()
    got3 = expect(lambda: mm(lazy_fns.pickler.dumps(lazy())))
    if not S.check(got3 == exp, dict(expr=name, what='maybe_make of bytes'), f'{name}: maybe_make(bytes) {got3} eager {exp}'):
      return S.result()
  # fresh evaluation without caching; exactly one evaluation with caching; identical object
  for ret_none in (False, True):
    c = Counter()
    fn = (lambda *a: (c(*a), None)[1]) if ret_none else c
    lz = lazy_fns.trace(fn)(1)
    mm(lz); mm(lz)
    if not S.check(c.n == 2, dict(what='uncached re-evaluates', none=ret_none), f'uncached expression evaluated {c.n} times for 2 materialisations'):
      return S.result()
    c = Counter()
    fn = (lambda *a: (c(*a), None)[1]) if ret_none else c
    lz = lazy_fns.trace(fn)(1, cache_result_=True)
    r1, r2, r3 = mm(lz), mm(lz), mm(lazy_fns.trace(_none if False else (lambda x: x))(lz))
    if not S.check(c.n == 1 and r1 is r2 and r3 is r1, dict(what='cached evaluates once', none=ret_none),
                   f'cached expression evaluated {c.n} times; identical={r1 is r2}, nested={r3 is r1}'):
      return S.result()
    lazy_fns.clear_cache()
    mm(lz)
    if not S.check(c.n == 2, dict(what='re-evaluated after clear_cache', none=ret_none), f'after clear_cache evaluated {c.n} times in total (expected 2)'):
      return S.result()
  # equal sub-expressions inside ONE call are still separate evaluations (impure / fresh-object callees)
  def pair(a, b=None):
    return (a, b)
  for how in ('same-object', 'structurally-equal', 'kwarg'):
    c = Counter()
    sub = lazy_fns.trace(c)(1)
    if how == 'same-object':
      lz, eager_calls = lazy_fns.trace(pair)(sub, sub), 2
    elif how == 'structurally-equal':
      lz, eager_calls = lazy_fns.trace(pair)(lazy_fns.trace(c)(1), lazy_fns.trace(c)(1)), 2
    else:
      lz, eager_calls = lazy_fns.trace(pair)(sub, b=sub), 2
    got = expect(lambda: mm(lz))
    if not S.check(got[0] == 'ok' and c.n == eager_calls, dict(what='equal sub-expressions in one call', how=how),
                   f'{how}: the sub-expression was evaluated {c.n} times (eager evaluation calls it {eager_calls} times); result {got}'):
      return S.result()
  # evaluation order inside one call is eager Python's: the callee, positional arguments left to right, then keywords
  def pack(*a, **k):
    return (a, tuple(sorted(k.items())))
  c = Counter()
  tick = lambda: c()[1]
  eager = (lambda: pack(tick(), tick(), k=tick()))()
  c = Counter()
  tick2 = lazy_fns.trace(lambda: c()[1])
  got = expect(lambda: mm(lazy_fns.trace(pack)(tick2(), tick2(), k=tick2())))
  if not S.check(got == ('ok', eager), dict(what='evaluation order of positional and keyword sub-expressions'), f'lazy {got}, eager {eager}'):
    return S.result()
  fresh = mm(lazy_fns.trace(pair)(lazy_fns.trace(list)(), lazy_fns.trace(list)()))
  if not S.check(fresh[0] is not fresh[1], dict(what='equal sub-expressions yield distinct fresh objects'), f'pair(list(), list()) returned the same list object twice: {fresh}'):
    return S.result()
  # cached calls that differ only in an argument being a lazy object wrapping v versus v itself (equal hashes)
  lazy_fns.clear_cache()
  ident = lambda x: ('f', x)
  r1 = expect(lambda: mm(lazy_fns.trace(ident)(3, cache_result_=True)))
  r2 = expect(lambda: mm(lazy_fns.trace(ident)(lazy_fns.trace(3), cache_result_=True)))
  if not S.check(r1 == ('ok', ('f', 3)) and r2 == ('ok', ('f', 3)), dict(what='cached calls: lazy-wrapped vs plain argument'),
                 f'cached f(3) = {r1}; cached f(trace(3)) = {r2}'):
    return S.result()
  # cached calls that differ only in a keyword value whose hash collides (hash(-1) == hash(-2) in CPython)
  def shape_without(shape, axis=0):
    return tuple(d for i, d in enumerate(shape) if i != axis % len(shape))
  lazy_fns.clear_cache()
  for kw_a, kw_b in (({'axis': -1}, {'axis': -2}), ({'axis': 0}, {'axis': 1})):
    a = mm(lazy_fns.trace(shape_without)((2, 3, 5), cache_result_=True, **kw_a))
    b = mm(lazy_fns.trace(shape_without)((2, 3, 5), cache_result_=True, **kw_b))
    if not S.check(a == shape_without((2, 3, 5), **kw_a) and b == shape_without((2, 3, 5), **kw_b), dict(what='cached calls differing in a keyword value', kwargs=[kw_a, kw_b]),
                   f'cached f(shape, {kw_a}) = {a}, then cached f(shape, {kw_b}) = {b}; eager {shape_without((2, 3, 5), **kw_b)}'):
      return S.result()
  lazy_fns.clear_cache()
  # a handle created by ANOTHER process (e.g. a worker that was restarted) is not held here: missing-object error
  import subprocess, sys as _sys, base64, os as _os
  probe = lazy_fns.LazyObject.new('probe')
  rel = probe.id - lazy_fns._increment_id._base      # how many ids this process has handed out so far
  code = ("import sys, base64; sys.path.insert(0, %r); from ml_metrics._src.chainables import lazy_fns; "
          "hs = [lazy_fns.LazyObject.new({'model': 'old'}) for _ in range(%d)]; "
          "print(base64.b64encode(lazy_fns.pickler.dumps(hs[-1])).decode())") % (_os.environ.get('PYVC_REPO', '/repo'), rel + 4)
  out = subprocess.run([_sys.executable, '-c', code], capture_output=True, text=True, timeout=120)
  line = [l for l in out.stdout.strip().split('\n') if l and not l.startswith('WARNING')]
  if line:
    # the other process handed out as many ids as this one is about to: equal per-process id bases would collide
    mine = [lazy_fns.LazyObject.new({'model': f'new-{i}'}) for i in range(8)]
    stale = lazy_fns.pickler.loads(base64.b64decode(line[-1]))
    got = expect(lambda: mm(stale))
    S.check(got == ('raise', 'LazyObjectMissingError'), dict(what='handle from another process'),
            f'dereferencing a handle created by another process gave {got}; it is not held here, so the missing-object error is the only right answer')
    lazy_fns.clear_object()
  else:
    S.check(False, dict(what='subprocess for the foreign handle failed'), out.stderr[-300:])
  # attribute / item / method chains on a CACHED call that returns a stateful object: only the call itself was asked to be
  # cached - every materialisation of `cached.attr`, `cached.seq[0]`, `cached.method()` reads the object's current state
  class _Stateful:
    def __init__(self):
      self.n, self.log = 0, ['init']
    def bump(self):
      self.n += 1
      self.log.insert(0, f'bump{self.n}')
      return self.n
  lazy_fns.clear_cache()
  cached = lazy_fns.trace(_Stateful)(cache_result_=True)
  eager = _Stateful()
  for step in range(3):
    got = expect(lambda: (mm(cached.n), mm(cached.log[0]), mm(cached.log)[:1], mm(cached) is mm(cached)))
    exp = ('ok', (eager.n, eager.log[0], eager.log[:1], True))
    if not S.check(got == exp, dict(what='attribute / item reads of a cached stateful object', after_updates=step),
                   f'after {step} update(s): lazy (n, log[0], log[:1], same object) = {got}; eager {exp}', cls='stateful-chain'):
      break
    b_l, b_e = expect(lambda: mm(cached.bump())), eager.bump()
    if not S.check(b_l == ('ok', b_e), dict(what='method call on a cached object', after_updates=step), f'cached.bump() = {b_l}; eager {b_e}', cls='stateful-call'):
      break
  lazy_fns.clear_cache()
  # lazy_result: a handle to an object held in the bounded cache
  for value in ([1, 2], None, 0):
    h = mm(lazy_fns.trace(lambda v=value: v)(lazy_result_=True))
    ok = isinstance(h, lazy_fns.LazyObject)
    got = expect(lambda: mm(h))
    if not S.check(ok and got == ('ok', value), dict(what='lazy_result handle', value=repr(value)), f'handle {h} dereferences to {got}, expected {value!r}'):
      return S.result()
    lazy_fns.clear_object()
    got = expect(lambda: mm(h))
    if not S.check(got == ('raise', 'LazyObjectMissingError'), dict(what='missing object', value=repr(value)), f'after clear_object dereference gave {got}'):
      return S.result()
  # LRU eviction of held objects beyond the bound
  bound = lazy_fns._LAZY_OBJECT_CACHE_SIZE if hasattr(lazy_fns, '_LAZY_OBJECT_CACHE_SIZE') else 128
  if bound <= 4096:
    lazy_fns.clear_object()
    hs = [lazy_fns.LazyObject.new(('obj', i)) for i in range(bound + 2)]
    first = expect(lambda: mm(hs[0]))
    last = expect(lambda: mm(hs[-1]))
    third = expect(lambda: mm(hs[2]))
    S.check(first == ('raise', 'LazyObjectMissingError') and last == ('ok', ('obj', bound + 1)) and third == ('ok', ('obj', 2)),
            dict(what='eviction beyond the bound', bound=bound), f'oldest {first}, newest {last}, third {third}')
    lazy_fns.clear_object()
  return S.result()
