"""In-process fake of the `courier` transport (the real one is not installed in
this sandbox; /venv ships an unrelated e-mail library under the same name).

Only what ml_metrics' CourierClient/Worker touch is provided (assumption A8 in
DESIGN.md): `courier.Client(address, call_timeout=)` with `.futures.<method>()`
returning a concurrent.futures.Future. The behaviour of each address is scripted
through `BEHAVIOUR[address]`, a callable `(method, args, kwargs) -> value` that
may raise; `heartbeat` always succeeds unless `DEAD` contains the address.
"""
from concurrent import futures
import sys
import types

BEHAVIOUR = {}
DEAD = set()
CALLS = []


class _Futures:

  def __init__(self, address):
    self._address = address

  def __getattr__(self, method):
    def call(*args, **kwargs):
      CALLS.append((self._address, method))
      f = futures.Future()
      if method == 'heartbeat':
        if self._address in DEAD:
          f.set_exception(RuntimeError('dead'))
        else:
          f.set_result(None)
        return f
      try:
        fn = BEHAVIOUR.get(self._address, lambda m, a, k: None)
        f.set_result(fn(method, args, kwargs))
      except Exception as e:  # pylint: disable=broad-exception-caught
        f.set_exception(e)
      return f
    return call


class Client:

  def __init__(self, address, call_timeout=None):
    self.address = address
    self.call_timeout = call_timeout
    self.futures = _Futures(address)


class Server:

  def __init__(self, *args, **kwargs):
    raise NotImplementedError('fake courier has no server')


def install():
  mod = types.ModuleType('courier')
  mod.Client = Client
  mod.Server = Server
  mod.__fake__ = True
  sys.modules['courier'] = mod
  return mod
