"""The shipped mergeable metrics with small datasets, for the C01/C11 stand-ins.

Each entry: name, make() -> fresh accumulator, rows (list of per-example tuples),
feed(acc, rows) (one batch), view(acc) -> comparable value, merge(a, b),
flags: ordered (result carries concatenation order), random (reservoir sampler).
"""
import collections
import copy
import numpy as np
from ml_metrics._src.aggregates import rolling_stats as rs
from ml_metrics._src.aggregates import classification as cl
from ml_metrics._src.aggregates import retrieval as rt
from ml_metrics._src.aggregates import text as tx
from ml_metrics._src.aggregates import utils as au
from ml_metrics._src.metrics import classification as mcl

nan = float('nan')
Entry = collections.namedtuple('Entry', 'name make rows feed view merge ordered random')


def _norm(v):
  if isinstance(v, np.ndarray):
    return [_norm(x) for x in v.tolist()] if v.ndim else _norm(v.item())
  if isinstance(v, (np.floating, np.integer, np.bool_)):
    return v.item()
  if isinstance(v, dict):
    return {str(k): _norm(x) for k, x in v.items()}
  if isinstance(v, (list, tuple)):
    return [_norm(x) for x in v]
  if hasattr(v, '_asdict'):
    return _norm(v._asdict())
  return v


def _double(x):
  return np.asarray(x) * 2


def _cols(rows):
  return [list(c) for c in zip(*rows)] if rows else []


def _feed_cols(as_array=True):
  def feed(acc, rows):
    cols = _cols(rows)
    acc.add(*[np.array(c) if as_array else c for c in cols])
  return feed


def _merge(a, b):
  a.merge(b)


def _safe(view):
  def v(acc):
    try:
      return view(acc)
    except Exception as e:   # pylint: disable=broad-exception-caught
      return f'<raises {type(e).__name__}>'       # e.g. result() of a state that never saw data
  return v


def _mergeable(name, make, rows, view, as_array=True, ordered=False, random=False, feed=None):
  return Entry(name, make, rows, feed or _feed_cols(as_array), _safe(view), _merge, ordered, random)


class _AggState:
  """Adapter giving AggregateFn (create/update/merge_states/get_result) the accumulator interface."""

  def __init__(self, fn):
    self.fn = fn
    self.state = fn.create_state()

  def add(self, *cols):
    self.state = self.fn.update_state(self.state, *cols)

  def merge(self, other):
    states = [s for s in (self.state, other.state) if s is not None]
    self.state = self.fn.merge_states(states) if states else None

  def result(self):
    return self.fn.get_result(self.state) if self.state is not None else None


def zoo():
  z = []
  r1 = [(1.0,), (2.0,), (4.0,), (nan,), (7.0,), (3.0,)]
  z.append(_mergeable('Mean', rs.Mean, r1, lambda a: _norm(a.result())))
  z.append(_mergeable('MeanAndVariance', rs.MeanAndVariance, r1, lambda a: _norm([a.count, a.mean, a.var, a.total])))
  z.append(_mergeable('Var', rs.Var, r1, lambda a: _norm(a.result())))
  r2 = [([1.0, nan],), ([3.0, nan],), ([5.0, 2.0],), ([7.0, 4.0],), ([nan, 6.0],)]
  z.append(_mergeable('MeanAndVariance-2d-nan-columns', rs.MeanAndVariance, r2, lambda a: _norm([a.count, a.mean, a.var])))
  r3 = [([1.0, nan, 2.0],), ([3.0, 4.0, nan],), ([nan, 6.0, 8.0],), ([7.0, nan, nan],), ([9.0, 10.0, 11.0],)]
  z.append(_mergeable('Mean-2d-uneven-nan', rs.Mean, r3, lambda a: _norm([a.count, a.result()])))
  z.append(_mergeable('Var-2d-uneven-nan', rs.Var, r3, lambda a: _norm(a.result())))
  z.append(_mergeable('MinMaxAndCount-with-NaN', rs.MinMaxAndCount, [(3.0,), (float('nan'),), (1.0,), (7.0,), (5.0,)],
                      lambda a: _norm((a.min, a.max, a.count))))
  z.append(_mergeable('MinMaxAndCount', rs.MinMaxAndCount, [(3,), (1,), (2,), (9,), (4,)],
                      lambda a: _norm([a.result().min, a.result().max, a.result().count]) if a.result().count else None))
  # the optional per-batch score function and the reduction axis
  z.append(_mergeable('Mean-batch_score_fn', lambda: rs.Mean(batch_score_fn=_double), r1, lambda a: _norm([a.count, a.result()])))
  z.append(_mergeable('MeanAndVariance-batch_score_fn', lambda: rs.MeanAndVariance(batch_score_fn=_double), r1, lambda a: _norm([a.count, a.mean, a.var])))
  z.append(_mergeable('MinMaxAndCount-batch_score_fn', lambda: rs.MinMaxAndCount(batch_score_fn=_double), [(3,), (1,), (2,), (9,), (4,)],
                      lambda a: _norm((a.min, a.max, a.count))))
  r4 = [([3.0, 8.0],), ([1.0, 9.0],), ([2.0, 7.0],), ([5.0, 6.0],)]
  z.append(_mergeable('MinMaxAndCount-axis0', lambda: rs.MinMaxAndCount(axis=0), r4, lambda a: _norm((a.min, a.max, a.count))))
  yb = [(1, 0.9), (0, 0.2), (1, 0.6), (0, 0.4), (1, 0.7), (0, 0.1)]
  z.append(_mergeable('R2Tjur', rs.R2Tjur, yb, lambda a: _norm(a.result())))
  z.append(_mergeable('R2TjurRelative', rs.R2TjurRelative, yb, lambda a: _norm(a.result())))
  xy = [(1.0, 2.0), (2.0, 1.0), (3.0, 4.0), (5.0, 6.0), (4.0, 4.5)]
  z.append(_mergeable('RRegression', rs.RRegression, xy, lambda a: _norm(a.result())))
  z.append(_mergeable('SymmetricPredictionDifference', rs.SymmetricPredictionDifference, xy, lambda a: _norm(a.result())))
  z.append(_mergeable('Histogram', lambda: rs.Histogram(range=(0, 1), bins=4), [(0.1,), (0.3,), (0.35,), (0.9,), (0.6,)],
                      lambda a: _norm(a.result())))
  z.append(_mergeable('Counter', rs.Counter, [('a',), ('b',), ('a',), ('c',), ('a',)], lambda a: _norm(dict(a.result())), as_array=False))
  z.append(_mergeable('UnboundedSampler', rs.UnboundedSampler, [(1, 'x'), (2, 'y'), (3, 'z'), (4, 'w')],
                      lambda a: _norm(a.result()) if a.samples else None, as_array=False, ordered=True))
  z.append(_mergeable('ValueAccumulator', rs.ValueAccumulator, [(1, 'x'), (2, 'y'), (3, 'z'), (4, 'w')],
                      lambda a: _norm([[y for x in col for y in x] for col in a.data]) if a.data else None, as_array=False, ordered=True))
  z.append(_mergeable('FixedSizeSample', lambda: rs.FixedSizeSample(3, seed=0), [(1,), (2,), (3,), (4,), (5,)],
                      lambda a: dict(size=len(a.result()), members=sorted(a.result()), reviewed=a.num_samples_reviewed),
                      as_array=False, random=True))
  z.append(_mergeable('MeanState', au.MeanState, r1[:3] + r1[4:], lambda a: _norm(a.result())))
  z.append(_mergeable('TupleMeanState', au.TupleMeanState, [(1.0, 4.0), (2.0, 0.0), (3.5, 1.0), (0.0, 0.0), (5.0, 2.0)], lambda a: _norm(a.result())))
  texts = [('a b a c',), ('b b d',), ('a c',), ('d a b',)]
  z.append(_mergeable('TopKWordNGrams', lambda: tx.TopKWordNGrams(k=3, n=1), texts, lambda a: _norm(a.result()), as_array=False))
  z.append(_mergeable('PatternFrequency', lambda: tx.PatternFrequency(patterns=['a', 'd']), texts, lambda a: _norm(a.result()), as_array=False))
  # texts shorter than n words contribute to the count (the denominator) but to no n-gram
  short = [('the cat sat',), ('hi',), ('the cat ran',), ('yo',), ('ok',)]
  z.append(_mergeable('TopKWordNGrams-2gram-with-short-texts', lambda: tx.TopKWordNGrams(k=4, n=2), short, lambda a: _norm(a.result()), as_array=False))
  shared = [('the cat sat',), ('the cat ran',), ('a dog sat',), ('the cat sat',), ('a dog ran',)]
  for cd in (True, False):
    z.append(_mergeable(f'TopKWordNGrams-2gram-count_duplicate={cd}', lambda cd=cd: tx.TopKWordNGrams(k=4, n=2, count_duplicate=cd), shared, lambda a: _norm(a.result()), as_array=False))
    z.append(_mergeable(f'PatternFrequency-count_duplicate={cd}', lambda cd=cd: tx.PatternFrequency(patterns=['cat', 'sat', 'dog'], count_duplicate=cd), shared, lambda a: _norm(a.result()), as_array=False))
  # the long tail matters: an n-gram outside the current top k can still end up on top (a state must not forget it)
  riser = [('x',), ('x',), ('y',), ('z',), ('y',), ('y',)]
  z.append(_mergeable('TopKWordNGrams-k1-late-riser', lambda: tx.TopKWordNGrams(k=1, n=1), riser, lambda a: _norm(a.result()), as_array=False))
  z.append(_mergeable('PatternFrequency-late-riser', lambda: tx.PatternFrequency(patterns=['x', 'y', 'z']), riser, lambda a: _norm(a.result()), as_array=False))
  fillers = ' '.join(f'f{chr(97 + i // 26)}{chr(97 + i % 26)}' for i in range(130))
  many = [(fillers + ' ' + fillers + ' zzz',), ('zzz',), ('zzz',)]       # 131 distinct 1-grams: 130 fillers twice, zzz three times
  z.append(_mergeable('TopKWordNGrams-k1-many-distinct', lambda: tx.TopKWordNGrams(k=1, n=1), many, lambda a: _norm(a.result()), as_array=False))
  yl = [(0.1, 0.2), (0.8, 0.9), (0.4, 0.3), (0.6, 0.7)]
  z.append(_mergeable('CalibrationHistogram', lambda: mcl.CalibrationHistogram(bins=4), yl, lambda a: _norm(a.result())))
  # classification
  bl = [(1, 1), (0, 1), (1, 0), (0, 0), (1, 1), (0, 0)]
  metrics = ['precision', 'recall', 'f1_score', 'binary_accuracy', 'informedness']
  z.append(_mergeable('ConfusionMatrixAggFn-binary', lambda: _AggState(cl.ConfusionMatrixAggFn(metrics=metrics)), bl, lambda a: _norm(a.result())))
  vocab = {'a': 0, 'b': 1, 'c': 2}
  ml = [('a', 'a'), ('b', 'a'), ('c', 'c'), ('a', 'b'), ('b', 'b')]
  for avg in ('micro', 'macro'):
    z.append(_mergeable(f'ConfusionMatrixAggFn-multiclass-{avg}',
                        lambda avg=avg: _AggState(cl.ConfusionMatrixAggFn(metrics=metrics, input_type='multiclass', average=avg, vocab=vocab)),
                        ml, lambda a: _norm(a.result()), as_array=False))
  mo = [(['a'], ['a', 'b']), (['b', 'c'], ['c']), (['a', 'c'], ['c', 'a', 'b']), (['b'], ['a'])]
  z.append(_mergeable('TopKConfusionMatrixAggFn-multioutput',
                      lambda: _AggState(cl.TopKConfusionMatrixAggFn(metrics=metrics, input_type='multiclass-multioutput', average='micro', vocab=vocab, k_list=[1, 2])),
                      mo, lambda a: _norm(a.result()), as_array=False))
  # a k beyond the longest prediction of some batches (their rows are short), reached in others; macro as well
  mo2 = [(['a'], ['b']), (['b'], ['b']), (['a', 'c'], ['c', 'b', 'a']), (['c'], ['a']), (['b', 'a'], ['c', 'a', 'b'])]
  for avg in ('micro', 'macro'):
    z.append(_mergeable(f'TopKConfusionMatrixAggFn-multioutput-k-beyond-short-rows-{avg}',
                        lambda avg=avg: _AggState(cl.TopKConfusionMatrixAggFn(metrics=metrics, input_type='multiclass-multioutput', average=avg, vocab=vocab, k_list=[1, 3])),
                        mo2, lambda a: _norm(a.result()), as_array=False))
  z.append(_mergeable('SamplewiseClassification',
                      lambda: cl.SamplewiseClassification(metrics=metrics, input_type='multiclass-multioutput', vocab=vocab),
                      mo, lambda a: _norm(a.result()), as_array=False))
  # through as_agg_fn() with an external vocabulary: batches that do not cover the vocabulary must not change tn-based metrics
  mo3 = [(['a'], ['a']), (['b'], ['a']), (['a', 'c'], ['c', 'b']), (['b'], ['b']), (['c'], ['a', 'c'])]
  z.append(_mergeable('SamplewiseClassification-as_agg_fn-vocab',
                      lambda: _AggState(cl.SamplewiseClassification(metrics=metrics + ['specificity'], input_type='multiclass-multioutput', vocab=vocab).as_agg_fn()),
                      mo3, lambda a: _norm(a.result()), as_array=False))
  rk = [(['a'], ['a']), (['a', 'b'], ['b', 'c', 'a']), (['c'], ['a', 'b', 'c', 'd', 'e']), (['e', 'a'], ['d', 'e']), (['b'], ['c'])]
  for kl in (None, [1, 2], [1, 2, 5]):
    z.append(_mergeable(f'TopKRetrieval-k{kl}', lambda kl=kl: rt.TopKRetrieval(k_list=kl), rk, lambda a: _norm(a.result()), as_array=False))
  tr = [(['a'], ['a', 'b'], [0.9, 0.8]), (['c'], ['x', 'y'], [0.9, 0.3]), (['a', 'b'], ['b', 'z', 'a'], [0.7, 0.6, 0.2]),
        (['q'], ['q'], [0.4]), (['e', 'f'], ['f', 'g'], [0.95, 0.55])]
  z.append(_mergeable('ThresholdedRetrieval', lambda: rt.ThresholdedRetrieval(thresholds=[0.25, 0.5, 0.75]), tr,
                      lambda a: _norm(a.result()), as_array=False))
  return z


def snapshot(acc):
  return copy.deepcopy(acc)


def replay_result_after_update(p):
  """Replays a counterexample of a "the value read reflects the current counts" obligation on the real accumulator:
  read the result, update, read again, and compare with a never-read accumulator fed the same data."""
  w = p.get('witness') or {}
  metric = w.get('metric') or 'precision'
  b1 = (['a'], ['a', 'b'], [0.9, 0.8])
  b2 = (['c'], ['x', 'y'], [0.9, 0.8])
  def mk():
    return rt.ThresholdedRetrieval(thresholds=[0.5], metrics=[metric])
  read, fresh = mk(), mk()
  read.add([b1[0]], [b1[1]], [b1[2]]); first = _norm(read.result())
  read.add([b2[0]], [b2[1]], [b2[2]]); second = _norm(read.result())
  fresh.add([b1[0]], [b1[1]], [b1[2]]); fresh.add([b2[0]], [b2[1]], [b2[2]]); ref = _norm(fresh.result())
  return dict(violated=second != ref,
              detail=f'ThresholdedRetrieval(metrics=[{metric!r}]): result() after one batch {first}; after a second batch the state that had '
                     f'been read reports {second}, a never-read state with the same two batches {ref}')


def replay_frequency_merge(p):
  """Replays a counterexample of "merging adds the count of EVERY n-gram" on real TopKWordNGrams states with as many distinct
  1-grams as the solver's model has (every word once on each side, the two vocabularies disjoint)."""
  w = p.get('witness') or {}
  k, ns, no = w.get('k'), w.get('distinct_self'), w.get('distinct_other')
  if not all(isinstance(x, int) for x in (k, ns, no)) or k < 1 or ns < 0 or no < 0 or ns + no > 300000:
    return dict(violated=False, detail='witness outside the replayable domain')
  def word(i):
    s = ''
    i += 1
    while i:
      i, r = divmod(i - 1, 26)
      s = chr(97 + r) + s
    return 'w' + s
  a, b = tx.TopKWordNGrams(k=k, n=1), tx.TopKWordNGrams(k=k, n=1)
  if ns:
    a.add([' '.join(word(i) for i in range(ns))])
  if no:
    b.add([' '.join(word(ns + i) for i in range(no))])
  before_a, before_b = dict(a.state.counter), dict(b.state.counter)
  a.merge(b)
  after = dict(a.state.counter)
  lost = [g for g in set(before_a) | set(before_b) if after.get(g, 0) != before_a.get(g, 0) + before_b.get(g, 0)]
  return dict(violated=bool(lost), detail=f'TopKWordNGrams(k={k}): a state with {ns} distinct 1-grams merged with one with {no}: '
              f'{len(lost)} counts are not the sum of the two sides (e.g. {sorted(lost)[:3]}); {len(after)} n-grams are left of {len(set(before_a) | set(before_b))}')
