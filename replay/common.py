"""Helpers for native replay / bounded searches."""
import random


class Search:
  """Collects cases and violations of one bounded search."""

  def __init__(self, payload, bounds, exhaustive=True, max_violations=3):
    self.tier = payload.get('tier', 'quick')
    self.seed = int(payload.get('seed', 0) or 0)
    self.only = payload.get('only')
    self.rng = random.Random(self.seed)
    self.cases = 0
    self.violations = []
    self.bounds = bounds
    self.exhaustive = exhaustive
    self.max_violations = max_violations

  def thorough(self):
    return self.tier == 'thorough'

  def check(self, ok, witness, detail):
    """Returns True if the search should go on."""
    self.cases += 1
    if not ok:
      self.violations.append(dict(witness=witness, detail=detail))
    return len(self.violations) < self.max_violations

  @property
  def full(self):
    return len(self.violations) >= self.max_violations

  def result(self):
    return dict(cases=self.cases, bounds=self.bounds, exhaustive=self.exhaustive and not self.violations,
                violations=self.violations)


def expect(fn, *exc):
  """Returns ('ok', value) or ('raise', ExcName)."""
  try:
    return ('ok', fn())
  except Exception as e:   # pylint: disable=broad-exception-caught
    return ('raise', type(e).__name__)
