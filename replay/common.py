"""Helpers for native replay / bounded searches."""
import random


class Search:
  """Collects cases and violations of one bounded search."""

  def __init__(self, payload, bounds, exhaustive=True, max_violations=3):
    self.tier = payload.get('tier', 'quick')
    self.seed = int(payload.get('seed', 0) or 0)
    self.only = payload.get('only')
    self.rng = random.Random(self.seed)
    self.cases = 0
    self.violations = []
    self.bounds = bounds
    self.exhaustive = exhaustive
    self.max_violations = max_violations
    self.per_class = {}
    self.unclassified = 0

  def thorough(self):
    return self.tier == 'thorough'

  def check(self, ok, witness, detail, cls=None):
    """Returns True if the search should go on. With `cls` (a violation class,
    e.g. the metric name) at most 2 violations per class are kept and the search
    goes on, so that one recurring (possibly known) violation cannot hide others."""
    self.cases += 1
    if not ok:
      if cls is not None:
        n = self.per_class.get(cls, 0)
        self.per_class[cls] = n + 1
        if n < 2:
          self.violations.append(dict(witness=witness, detail=detail))
        return len(self.violations) < 40
      self.violations.append(dict(witness=witness, detail=detail))
      self.unclassified += 1
    return self.unclassified < self.max_violations and len(self.violations) < 40

  @property
  def full(self):
    return len(self.violations) >= self.max_violations

  def result(self):
    return dict(cases=self.cases, bounds=self.bounds, exhaustive=self.exhaustive and not self.violations,
                violations=self.violations)


def expect(fn, *exc):
  """Returns ('ok', value) or ('raise', ExcName)."""
  try:
    return ('ok', fn())
  except Exception as e:   # pylint: disable=broad-exception-caught
    return ('raise', type(e).__name__)
