"""C01 native bounded stand-in: batching/sharding invariance of every shipped metric."""
import itertools
import numpy as np
from common import Search, expect
import metrics_common as mc
import metric_zoo as mz
from metric_zoo import replay_result_after_update, replay_frequency_merge   # pylint: disable=unused-import


def _compositions(n, max_parts):
  """All ways to cut range(n) into <= max_parts contiguous non-empty blocks."""
  for parts in range(1, max_parts + 1):
    for cuts in itertools.combinations(range(1, n), parts - 1):
      b = (0,) + cuts + (n,)
      yield [(b[i], b[i + 1]) for i in range(parts)]


def _run(entry, rows, shards):
  """shards: list of lists of row-blocks (a shard with no block is an empty accumulator)."""
  accs = []
  for blocks in shards:
    acc = entry.make()
    for lo, hi in blocks:
      entry.feed(acc, rows[lo:hi])
    accs.append(acc)
  first = accs[0]
  for other in accs[1:]:
    entry.merge(first, other)
  return entry.view(first)


def _same(entry, a, b):
  if isinstance(a, str) or isinstance(b, str):
    return a == b
  if entry.random:
    return a['size'] == b['size'] and a['reviewed'] == b['reviewed']
  return mc.close(a, b, 1e-7)


def bounded_partition(p):
  S = Search(p, dict(metrics='every shipped mergeable metric', shards='<=3 incl. empty shards in any position', batches='all contiguous batchings of each shard'))
  only = (S.only or {}).get('metric')
  for entry in mz.zoo():
    if only and entry.name != only:
      continue
    rows = entry.rows
    n = len(rows)
    whole = expect(lambda: _run(entry, rows, [[(0, n)]]))
    if whole[0] != 'ok':
      if not S.check(False, dict(metric=entry.name, what='single batch'), f'{entry.name}: one batch raised {whole}', cls=entry.name):
        return S.result()
      continue
    if entry.random:
      ok = set(whole[1]['members']) <= set(r[0] for r in rows) and whole[1]['size'] == min(3, n)
      S.check(ok, dict(metric=entry.name, what='membership'), f'{entry.name}: {whole[1]}', cls=entry.name)
    for shard_blocks in _compositions(n, 3):
      # each shard is cut into batches; also with an empty shard inserted at each position
      for sub in itertools.product(*[list(_compositions(hi - lo, 2 if not S.thorough() else 3)) for lo, hi in shard_blocks]):
        shards = [[(lo + a, lo + b) for a, b in cuts] for (lo, hi), cuts in zip(shard_blocks, sub)]
        variants = [shards]
        if len(shards) <= 2:
          variants += [[[]] + shards, shards + [[]], shards[:1] + [[]] + shards[1:]]
        for v in variants:
          got = expect(lambda: _run(entry, rows, v))
          if got[0] == 'ok' and isinstance(got[1], dict) and isinstance(whole[1], dict) and got[1].keys() == whole[1].keys() and not entry.random:
            for sub_m in got[1]:      # one verdict per reported sub-metric
              if not S.check(mc.close(got[1][sub_m], whole[1][sub_m], 1e-7), dict(metric=entry.name, submetric=sub_m, shards=v),
                             f'{entry.name}.{sub_m}: shards/batches {v} give {got[1][sub_m]}, one batch gives {whole[1][sub_m]}', cls=f'{entry.name}.{sub_m}'):
                return S.result()
            continue
          if not S.check(got[0] == 'ok' and _same(entry, got[1], whole[1]), dict(metric=entry.name, shards=v, empty_first=not v[0]),
                         f'{entry.name}: shards/batches {v} give {got}, one batch gives {whole[1]}', cls=entry.name):
            return S.result()
  return S.result()


def bounded_row_locality(p):
  """The per-example values returned by add() do not depend on the batch-mates."""
  from ml_metrics._src.aggregates import retrieval as rt
  from ml_metrics._src.aggregates import classification as cl
  S = Search(p, dict(metrics='TopKRetrieval (all metrics), SamplewiseClassification', rows='every row alone vs inside every pair'))
  rk = [(['a'], ['a']), (['a', 'b'], ['b', 'c', 'a']), (['c'], ['a', 'b', 'c', 'd', 'e']), (['e', 'a'], ['d', 'e']), (['b'], ['c']), (['a', 'b'], ['a'])]
  for k_list in (None, [1, 2], [1, 2, 5], [3]):
    alone = {}
    for i, (t, pr) in enumerate(rk):
      alone[i] = rt.TopKRetrieval(k_list=k_list).add([t], [pr])
    for i, j in itertools.permutations(range(len(rk)), 2):
      both = rt.TopKRetrieval(k_list=k_list).add([rk[i][0], rk[j][0]], [rk[i][1], rk[j][1]])
      for m, v in both.items():
        a = np.asarray(alone[i][m], dtype=float)[0]
        b = np.asarray(v, dtype=float)[0]
        # a finite k-list gives one value per configured k; with k_list=None there is a single column
        ok = a.shape == b.shape and mc.close(list(a), list(b), 1e-9)
        if not S.check(ok, dict(metric=m, k_list=k_list, row=[rk[i][0], rk[i][1]], mate=[rk[j][0], rk[j][1]], max_k=max(k_list) if k_list else None,
                                row_pred_len=len(rk[i][1]), mate_pred_len=len(rk[j][1])),
                       f'{m} of row (true={rk[i][0]}, pred={rk[i][1]}) with k_list={k_list}: alone {list(a)}, next to (true={rk[j][0]}, pred={rk[j][1]}) {list(b)}', cls=m):
          return S.result()
  return S.result()
