"""C18 native bounded stand-in: get/set laws of TreeMapView over all small trees and paths."""
import copy
import itertools
import numpy as np
from common import Search, expect
from ml_metrics._src.chainables import tree
from ml_metrics._src.chainables.tree import Key, TreeMapView

LEAVES = [1, 'x', None, 0, '', 'SELF', 'SKIP']


def _trees(depth, thorough):
  """All trees up to `depth` over dict/list/tuple/ndarray/leaf with width <= 2."""
  leaves = LEAVES if thorough else LEAVES[:6]
  if depth == 0:
    for v in leaves:
      yield v
    yield np.array([0.1, 0.2, 0.3])
    return
  subs = list(_trees(depth - 1, thorough))
  if depth == 1:
    pool = subs
  else:
    pool = subs[::max(1, len(subs) // 9)]     # thin the lower level to keep the space enumerable
  for v in _trees(0, thorough):
    yield v
  for a in pool:
    yield {'a': a}
    yield [a]
    yield (a,)
    yield {'SELF': a}
    for b in pool[:4]:
      yield {'a': a, 'b': b}
      yield [a, b]
      yield (a, b)


def _paths(t, prefix=()):
  """Every existing path (to inner nodes and leaves) of a tree, with Index for sequences."""
  yield prefix
  if isinstance(t, dict):
    for k, v in t.items():
      yield from _paths(v, prefix + (k,))
  elif isinstance(t, (list, tuple)):
    for i, v in enumerate(t):
      yield from _paths(v, prefix + (Key.Index(i),))
  elif isinstance(t, np.ndarray) and t.ndim:
    for i in range(len(t)):
      yield prefix + (Key.Index(i),)


def _get(t, path):
  for k in path:
    t = t[k]
  return t


def _eq(a, b):
  if isinstance(a, np.ndarray) or isinstance(b, np.ndarray):
    return isinstance(a, np.ndarray) and isinstance(b, np.ndarray) and a.shape == b.shape and np.array_equal(a, b)
  if isinstance(a, (np.floating, np.integer, float, int)) and isinstance(b, (np.floating, np.integer, float, int)) \
      and not isinstance(a, bool) and not isinstance(b, bool):
    return float(a) == float(b)
  if type(a) is not type(b):
    return False
  if isinstance(a, dict):
    return a.keys() == b.keys() and all(_eq(a[k], b[k]) for k in a)
  if isinstance(a, (list, tuple)):
    return len(a) == len(b) and all(_eq(x, y) for x, y in zip(a, b))
  return a == b


def _fresh_paths(t):
  """Paths that do not exist yet: a new dict key at every dict node, an index append at every list node."""
  for p in _paths(t):
    node = _get(t, p)
    if isinstance(node, dict):
      yield p + ('new',)
      yield p + ('new', 'deeper')
    elif isinstance(node, list):
      yield p + (Key.Index(len(node)),)


def bounded_tree_laws(p):
  S = Search(p, dict(trees='dict/list/tuple/ndarray/leaf, depth<=2 (3 thorough), width<=2, incl. falsy leaves and the keys "SELF"/"SKIP"',
                     paths='every existing path, fresh dict keys, index append', laws='get-after-set, other paths unchanged, original untouched, set-to-current, leaf enumeration, multi-key read, apply'))
  depth = 3 if S.thorough() else 2
  marker = ('NEW',)
  for t in _trees(depth, S.thorough()):
    if not isinstance(t, (dict, list, tuple)):
      continue
    snapshot = copy.deepcopy(t)
    view = TreeMapView(t)
    existing = [pp for pp in _paths(t) if pp]
    # -- leaf enumeration: every leaf exactly once, each path reads back its leaf
    def leaves(node, prefix=()):
      if isinstance(node, dict) and node:
        for k, v in node.items():
          yield from leaves(v, prefix + (k,))
      elif isinstance(node, (list, tuple)) and node:
        for i, v in enumerate(node):
          yield from leaves(v, prefix + (Key.Index(i),))
      else:
        yield prefix
    exp_leaves = list(leaves(t))
    got = expect(lambda: [tuple(k) for k in view.keys()])
    if not S.check(got == ('ok', exp_leaves), dict(tree=repr(t), law='leaf enumeration'), f'keys() of {t!r}: {got}, leaves are {exp_leaves}', cls='iter'):
      return S.result()
    for lp in exp_leaves:
      got = expect(lambda: view[Key(lp)])
      if not S.check(got[0] == 'ok' and _eq(got[1], _get(t, lp)), dict(tree=repr(t), path=repr(lp), law='path reads back its leaf'), f'view[{Key(lp)!r}] of {t!r} = {got}, leaf is {_get(t, lp)!r}', cls='get'):
        return S.result()
    if len(exp_leaves) >= 2:
      ks = (Key(exp_leaves[-1]), Key(exp_leaves[0]))
      got = expect(lambda: view[ks])
      exp = (_get(t, exp_leaves[-1]), _get(t, exp_leaves[0]))
      if not S.check(got[0] == 'ok' and _eq(tuple(got[1]), exp), dict(tree=repr(t), law='multi-key read aligned'), f'view[{ks}] = {got}, expected {exp}', cls='multiget'):
        return S.result()
    # -- apply maps every leaf and only leaves
    got = expect(lambda: TreeMapView.as_view(t, map_fn=lambda x: ('M', repr(x))).apply())
    def mapped(node):
      if isinstance(node, dict) and node:
        return {k: mapped(v) for k, v in node.items()}
      if isinstance(node, (list, tuple)) and node:
        return type(node)(mapped(v) for v in node)
      return ('M', repr(node))
    if not S.check(got[0] == 'ok' and _eq(got[1], mapped(t)) and _eq(t, snapshot), dict(tree=repr(t), law='apply'), f'apply on {t!r}: {got}, expected {mapped(t)!r}', cls='apply'):
      return S.result()
    # -- copying set: every existing path and fresh paths
    for pp in existing + list(_fresh_paths(t)):
      is_new = pp not in existing
      marker = ('NEW',)
      if len(pp) >= 1 and (pp[:-1] in existing or len(pp) == 1) and isinstance(_get(t, pp[:-1]), np.ndarray):
        marker = 7.0      # an element of a numeric array can only hold a number
      # a path through an ndarray or into a leaf cannot be set by copy (numpy element write / not a container)
      res = expect(lambda: view.copy_and_set(Key(pp), marker).data)
      parent = _get(t, pp[:-1]) if not is_new or len(pp) == 1 or pp[:-1] in existing else None
      if res[0] != 'ok':
        ok = not _eq(t, snapshot) is False     # a rejected set must at least leave the original alone
        if not S.check(_eq(t, snapshot), dict(tree=repr(t), path=repr(pp), law='rejected set mutated the original'), f'copy_and_set({Key(pp)!r}) on {snapshot!r} raised {res} and left {t!r}', cls='set-raise'):
          return S.result()
        continue
      new = res[1]
      if not S.check(_eq(t, snapshot), dict(tree=repr(snapshot), path=repr(pp), law='original untouched'), f'copy_and_set({Key(pp)!r}) changed the viewed data: {snapshot!r} -> {t!r}', cls='frame'):
        return S.result()
      got = expect(lambda: _get(new, pp))
      if not S.check(got[0] == 'ok' and _eq(got[1], marker), dict(tree=repr(t), path=repr(pp), law='get after set'), f'after copy_and_set({Key(pp)!r}) on {t!r} the path reads {got} in {new!r}', cls='get-after-set'):
        return S.result()
      got_view = expect(lambda: TreeMapView(new)[Key(pp)])
      if not S.check(got_view[0] == 'ok' and _eq(got_view[1], marker), dict(tree=repr(t), path=repr(pp), law='view get after set'), f'TreeMapView(new)[{Key(pp)!r}] = {got_view}', cls='get-after-set'):
        return S.result()
      for qq in existing:
        unrelated = qq[:len(pp)] != pp[:len(qq)] if len(qq) >= len(pp) else pp[:len(qq)] != qq
        if unrelated:
          got = expect(lambda: _get(new, qq))
          if not S.check(got[0] == 'ok' and _eq(got[1], _get(snapshot, qq)), dict(tree=repr(t), path=repr(pp), other=repr(qq), law='other paths unchanged'),
                         f'after copy_and_set({Key(pp)!r}) on {t!r}, path {qq!r} reads {got}, before {_get(snapshot, qq)!r}', cls='other-paths'):
            return S.result()
      if not is_new:
        cur = _get(t, pp)
        same = expect(lambda: view.copy_and_set(Key(pp), cur).data)
        if not S.check(same[0] == 'ok' and _eq(same[1], snapshot), dict(tree=repr(t), path=repr(pp), law='set to current value'), f'setting {Key(pp)!r} of {t!r} to its current value gives {same}', cls='idempotent'):
          return S.result()
    # a path ending in SELF denotes the node before it, for existing and for fresh branches alike
    for pp in existing + list(_fresh_paths(t)):
      if any(isinstance(_get(t, pp[:j]), np.ndarray) for j in range(len(pp)) if pp[:j] in existing or j == 0):
        continue
      kp = Key(pp + (Key.SELF,))
      res = expect(lambda: view.copy_and_set(kp, ('NEW',)))
      if res[0] != 'ok':
        continue
      got = expect(lambda: res[1][kp])
      if not S.check(got == ('ok', ('NEW',)) and _eq(t, snapshot), dict(tree=repr(t), path=repr(tuple(kp)), law='get after set, path ending in SELF', fresh=pp not in existing),
                     f'after copy_and_set({kp!r}) on {t!r} the view reads {got} in {res[1].data!r}', cls=f'self-tail-{pp not in existing}'):
        return S.result()
    # SELF / SKIP
    got = expect(lambda: view.copy_and_set(Key.SELF, marker).data)
    if not S.check(got == ('ok', marker), dict(tree=repr(t), law='SELF replaces the root'), f'copy_and_set(SELF) = {got}', cls='self'):
      return S.result()
    got = expect(lambda: view.copy_and_set(Key.SKIP, marker).data)
    if not S.check(got[0] == 'ok' and _eq(got[1], snapshot), dict(tree=repr(t), law='SKIP leaves the tree'), f'copy_and_set(SKIP) = {got}', cls='skip'):
      return S.result()
  # values that are tuple SUBCLASSES (NamedTuple, Key) are single values, not multiple outputs
  import collections
  Score = collections.namedtuple('Score', ['value'])
  Pair = collections.namedtuple('Pair', ['a', 'b'])
  for val in (Score(0.5), Pair(1, 2), Key(('x', 'y'))):
    for keys in (('pred',), Key(('pred',)), 'pred'):
      v = TreeMapView({'other': 1})
      got = expect(lambda: v.copy_and_set(keys, val).data)
      ok = got[0] == 'ok' and got[1].get('pred') == val and type(got[1].get('pred')) is type(val) and got[1].get('other') == 1
      if not S.check(ok, dict(law='tuple-subclass value stored as one value', value=repr(val), keys=repr(keys)), f'copy_and_set({keys!r}, {val!r}) -> {got}', cls=f'namedtuple-{type(val).__name__}-{type(keys).__name__}'):
        return S.result()
  # root leaves (finding D12)
  for root in (0, '', None, 5, 'x'):
    got = expect(lambda: [tuple(k) for k in TreeMapView(root).keys()])
    S.check(got == ('ok', [('SELF',)]) or (got[0] == 'ok' and len(got[1]) == 1), dict(tree=repr(root), law='root leaf enumeration', falsy=not root),
            f'TreeMapView({root!r}).keys() = {got}; a root that is itself a leaf is one leaf', cls='root-leaf')
  got = expect(lambda: list(TreeMapView(np.array([1, 2])).keys()))
  S.check(got[0] == 'ok' and len(got[1]) == 1, dict(tree='ndarray root', law='root leaf enumeration', falsy=False, ndarray=True), f'TreeMapView(ndarray).keys() = {got}', cls='root-leaf-array')
  return S.result()


def _key_from_witness(w, j):
  kind = w.get(f'kind{j}', 0)
  if kind == 1:
    return Key.Index(int(w.get(f'int{j}', 0)))
  if kind == 2:
    return Key.SELF if w.get(f'self{j}') else Key.SKIP
  if kind == 3:
    return Key.Literal('lit')
  return f'k{j}'


def _path_from_witness(w):
  n = w.get('path_len', 0)
  if not isinstance(n, int) or not 0 <= n <= 6:
    return None
  return tuple(_key_from_witness(w, j) if j < 2 else f'k{j}' for j in range(n))


def replay_default_tree(p):
  """Replays a counterexample of a `_default_tree` obligation: the fresh chain must read back the value."""
  path = _path_from_witness(p['witness'])
  if path is None:
    return dict(violated=False, detail='witness outside the replayable domain')
  value = ('VALUE',)
  got = expect(lambda: tree._default_tree(Key(path), value))
  if got[0] != 'ok':
    return dict(violated=False, detail=f'_default_tree({Key(path)!r}) raises {got}')
  back = expect(lambda: TreeMapView(got[1])[Key(path)])
  ok = back[0] == 'ok' and back[1] is value
  return dict(violated=not ok, detail=f'_default_tree({Key(path)!r}, value) = {got[1]!r}; reading the same key path gives {back}')


def replay_set_by_path(p):
  """Replays a counterexample of a `_set_by_path` obligation on an empty container of the witness kind."""
  w = p['witness']
  path = _path_from_witness(w)
  if path is None:
    return dict(violated=False, detail='witness outside the replayable domain')
  root = {1: {}, 2: [], 3: (), 4: tree.NullMap()}.get(w.get('tree_kind'), 7)
  snapshot = copy.deepcopy(root) if not isinstance(root, tree.NullMap) else None
  value = ('VALUE',)
  got = expect(lambda: TreeMapView(root).copy_and_set(Key(path), value))
  if got[0] != 'ok':
    return dict(violated=False, detail=f'copy_and_set({Key(path)!r}) on {root!r} raises {got}')
  back = expect(lambda: got[1][Key(path)])
  plain = not any(isinstance(k, tree.Literal) or k is Key.SKIP for k in path)
  ok = (not plain or (back[0] == 'ok' and back[1] is value)) and (snapshot is None or root == snapshot)
  return dict(violated=not ok, detail=f'copy_and_set({Key(path)!r}, value) on {root!r} gives {got[1].data!r}; reading the key path gives {back}; original now {root!r}')


def _ref_get(t, path):
  for k in path:
    if k is Key.SELF:
      return t
    if isinstance(k, tree.Literal):
      return k.value
    if not isinstance(t, (dict, list, tuple)):
      raise KeyError(k)
    t = t[k]
  return t


def replay_get(p):
  """Replays a counterexample of a read obligation on an empty container of the witness kind."""
  w = p['witness']
  path = _path_from_witness(w)
  if path is None:
    return dict(violated=False, detail='witness outside the replayable domain')
  root = {1: {}, 2: [], 3: (), 4: tree.NullMap()}.get(w.get('tree_kind'), 7)
  got = expect(lambda: TreeMapView(root)[Key(path)])
  ref = expect(lambda: _ref_get(root, path))
  ok = (got[0] == ref[0]) and (got[0] != 'ok' or got[1] is ref[1] or got[1] == ref[1])
  return dict(violated=not ok, detail=f'TreeMapView({root!r})[{Key(path)!r}] = {got}; reference read {ref}')
