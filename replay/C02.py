"""C02 native bounded stand-in: pipeline aggregation and slicing vs a brute-force group-by."""
import itertools
import numpy as np
from common import Search, expect
import metrics_common as mc
from ml_metrics._src.chainables import transform, tree_fns
from ml_metrics._src.chainables.transform import MetricKey
from ml_metrics._src.chainables.tree_fns import SliceKey


class SumCount:
  """Functional aggregate over one column: (sum, count)."""

  def create_state(self):
    return (0.0, 0)

  def update_state(self, state, xs):
    xs = list(np.asarray(xs).reshape(-1)) if not isinstance(xs, list) or (xs and not isinstance(xs[0], list)) else [y for x in xs for y in x]
    return (state[0] + float(sum(xs)), state[1] + len(xs))

  def merge_states(self, states):
    return (sum(s[0] for s in states), sum(s[1] for s in states))

  def get_result(self, state):
    return [state[0], state[1]]


class CountRows:
  def create_state(self):
    return 0

  def update_state(self, state, xs):
    return state + len(xs)

  def merge_states(self, states):
    return sum(states)

  def get_result(self, state):
    return state


def _fan(a):
  return [f'ge{t}' for t in (1, 2) if a >= t]


SLICERS = {
    'a': (lambda t: t.add_slice('a'), ('a',), lambda row: [(row['a'],)]),
    'a x b': (lambda t: t.add_slice(('a', 'b')), ('a', 'b'), lambda row: [(row['a'], row['b'])]),
    'fanout(a)': (lambda t: t.add_slice('a', 'fan', slice_fn=_fan), ('fan',), lambda row: [(v,) for v in _fan(row['a'])]),
    'a within {1}': (lambda t: t.add_slice(dict(a=(1,))), ('a',), lambda row: [(row['a'],)] if row['a'] in (1,) else []),
    'b within {x,z}': (lambda t: t.add_slice(dict(b=('x', 'z'))), ('b',), lambda row: [(row['b'],)] if row['b'] in ('x', 'z') else []),
    # a value set given as ONE bare string means that single value (no feature value equals 'xyz' here)
    'b within "xyz"': (lambda t: t.add_slice(dict(b='xyz')), ('b',), lambda row: [(row['b'],)] if row['b'] == 'xyz' else []),
    # replace mode: rows outside the slice are replaced by 0 instead of being filtered out
    'a (replace 0)': (lambda t: t.add_slice('a', replace_mask_false_with=0.0), ('a',), lambda row: [(row['a'],)]),
}
REPLACE = {'a (replace 0)'}


def _streams(thorough):
  rows = [dict(a=a, b=b, v=v) for a, b, v in [(1, 'x', 1.0), (2, 'y', 2.0), (1, 'y', 4.0), (3, 'x', 8.0), (2, 'z', 16.0), (1, 'x', 32.0)]]
  out = [[]]                                 # the empty stream
  for n in (1, 2, 3, 6) if thorough else (1, 3, 6):
    rs = rows[:n]
    for cuts in itertools.combinations(range(1, n), 0), *[c for k in (1, 2) for c in [itertools.combinations(range(1, n), k)]]:
      for cut in ([cuts] if isinstance(cuts, tuple) else cuts):
        b = (0,) + tuple(cut) + (n,)
        out.append([rs[b[i]:b[i + 1]] for i in range(len(b) - 1)])
  return out


def _batch(rows):
  return {'a': [r['a'] for r in rows], 'b': [r['b'] for r in rows], 'v': [r['v'] for r in rows]}


def bounded_groupby(p):
  S = Search(p, dict(streams='empty stream and 1/3/6 rows in every split into <=3 batches', slicer_sets='every subset of <=2 of 5 slicers (single feature, cross, fan-out, within-values)',
                     aggregates='one, two stacked, one with disable_slicing'))
  names = list(SLICERS)
  slicer_sets = [()] + [(n,) for n in names] + [c for c in itertools.permutations(names, 2)
                                                if SLICERS[c[0]][1] != SLICERS[c[1]][1]]     # equal slice names are rejected at build time
  for stream in _streams(S.thorough()):
    rows = [r for b in stream for r in b]
    for sset in slicer_sets:
      if len(stream) > 1 and any(n in REPLACE for n in sset):
        # replace mode keeps the rows outside a slice (as the replacement value) only within the batches in which
        # the slice value occurs, so its result depends on the batching; it is compared on single-batch streams only
        continue
      for agg_mode in ('one', 'two', 'first-unsliced'):
        def build():
          t = transform.TreeTransform().aggregate(SumCount(), input_keys='v', output_keys='sum_v', disable_slicing=(agg_mode == 'first-unsliced'))
          if agg_mode != 'one':
            t = t.add_aggregate(fn=CountRows(), input_keys='a', output_keys='rows')
          for n in sset:
            t = SLICERS[n][0](t)
          return t
        def run():
          it = build().make().iterate([_batch(b) for b in stream])
          list(it)
          return it.agg_result
        got = expect(run)
        w = dict(batches=[[list(r.values()) for r in b] for b in stream], slicers=list(sset), aggregates=agg_mode)
        if got[0] != 'ok':
          if not S.check(False, w, f'{w}: raised {got}', cls='raise'):
            return S.result()
          continue
        exp = {}
        if stream:
          exp['sum_v'] = [sum(r['v'] for r in rows), len(rows)]
          if agg_mode != 'one':
            exp['rows'] = len(rows)
          for n in sset:
            _, sname, member = SLICERS[n]
            values = []
            for r in rows:
              for v in member(r):
                if v not in values:
                  values.append(v)
            for v in values:
              sel = [r for r in rows if v in member(r)]
              cnt = len(rows) if n in REPLACE else len(sel)     # replace mode keeps every row (value 0)
              if agg_mode != 'first-unsliced':
                exp[MetricKey('sum_v', SliceKey(sname, v))] = [sum(r['v'] for r in sel), cnt]
              if agg_mode != 'one':
                exp[MetricKey('rows', SliceKey(sname, v))] = cnt
        res = got[1] if got[1] is not None else {}
        res = dict(res) if not isinstance(res, dict) else res
        if not stream:
          ok = all(mc.close(v, [0.0, 0]) or v in (0, None) for v in res.values()) and not any(isinstance(k, MetricKey) for k in res)
          why = f'empty stream result {res}'
        else:
          missing = [k for k in exp if k not in res]
          invented = [k for k in res if k not in exp]
          wrong = [k for k in exp if k in res and not mc.close(res[k], exp[k], 1e-9)]
          ok = not (missing or invented or wrong)
          why = f'missing {missing[:3]}, invented {invented[:3]}, wrong {[(k, res[k], exp[k]) for k in wrong[:3]]}'
        if not S.check(ok, w, f'{w}: {why}', cls=f'{agg_mode}-{len(sset)}'):
          return S.result()
  return S.result()


def bounded_sharded_merge(p):
  """Aggregation states of shards of the data source, merged, give the result of the whole run (also per slice);
  a wrong number of states is reported as an error when a strict count is given."""
  from ml_metrics._src.chainables import io
  S = Search(p, dict(rows=6, shards='1..4', slicers='none / a / a x b'))
  rows = [dict(a=a, b=b, v=v) for a, b, v in [(1, 'x', 1.0), (2, 'y', 2.0), (1, 'y', 4.0), (3, 'x', 8.0), (2, 'z', 16.0), (1, 'x', 32.0)]]
  batches = [_batch([r]) for r in rows]
  for sset in ((), ('a',), ('a x b',)):
    def build():
      t = transform.TreeTransform().data_source(io.SequenceDataSource(batches)).aggregate(SumCount(), input_keys='v', output_keys='sum_v')
      for n in sset:
        t = SLICERS[n][0](t)
      return t
    whole_it = build().make().iterate(); list(whole_it)
    whole = dict(whole_it.agg_result)
    for k in (1, 2, 3, 4):
      states = []
      for i in range(k):
        it = build().make(shard=io.ShardConfig(i, k)).iterate()
        list(it)
        states.append(it.agg_state)
      runner = build().make()
      got = expect(lambda: dict(runner.get_result(runner.merge_states(states))))
      ok = got[0] == 'ok' and set(got[1]) == set(whole) and all(mc.close(got[1][kk], whole[kk]) for kk in whole)
      if not S.check(ok, dict(shards=k, slicers=list(sset)), f'{k} shards merged: {got}; whole run {whole}', cls=f'merge-{len(sset)}'):
        return S.result()
      if k >= 2:
        short = expect(lambda: runner.merge_states(states[:-1], strict_states_cnt=k))
        if not S.check(short[0] == 'raise', dict(shards=k, what='one state missing with a strict count'), f'merging {k - 1} of {k} states with strict_states_cnt={k}: {short[0]}', cls='strict'):
          return S.result()
        full = expect(lambda: runner.merge_states(states, strict_states_cnt=k))
        if not S.check(full[0] == 'ok', dict(shards=k, what='all states with a strict count'), f'merging all {k} states with strict_states_cnt={k}: {full}', cls='strict-ok'):
          return S.result()
  return S.result()


def bounded_masks(p):
  """Intra-example masks (slice_mask_fn) in filter and replace mode, and tree.apply_mask itself."""
  from ml_metrics._src.chainables import tree
  S = Search(p, dict(apply_mask='all boolean masks over lists/tuples of <=3 elements, nested list-of-lists incl. empty inner lists, dict masks; filter and replace mode',
                     pipeline='per-tag masks over ragged examples'))
  for n in range(0, 4):
    for mask in itertools.product([True, False], repeat=n):
      for ctor in (list, tuple):
        items = ctor(range(10, 10 + n))
        got = expect(lambda: tree.apply_mask(items, masks=list(mask)))
        exp = ctor(x for x, m in zip(items, mask) if m)
        if not S.check(got == ('ok', exp), dict(items=repr(items), mask=list(mask), mode='filter'), f'apply_mask({items!r}, {mask}) = {got}, expected {exp!r}', cls='flat-filter'):
          return S.result()
        got = expect(lambda: tree.apply_mask(items, masks=list(mask), replace_false_with=-1))
        exp = ctor(x if m else -1 for x, m in zip(items, mask))
        if not S.check(got == ('ok', exp), dict(items=repr(items), mask=list(mask), mode='replace'), f'apply_mask({items!r}, {mask}, replace=-1) = {got}, expected {exp!r}', cls='flat-replace'):
          return S.result()
  # nested: examples with per-element masks, incl. an example without elements
  examples = [[1, 2, 3], [], [4], [5, 6]]
  for bits in itertools.product([True, False], repeat=6):
    it = iter(bits)
    masks = [[next(it) for _ in ex] for ex in examples]
    got = expect(lambda: tree.apply_mask(examples, masks=masks))
    exp = [[x for x, m in zip(ex, mk) if m] for ex, mk in zip(examples, masks)]
    if not S.check(got == ('ok', exp), dict(items=repr(examples), mask=masks, mode='nested filter'), f'apply_mask(nested, {masks}) = {got}, expected {exp}', cls='nested-filter'):
      return S.result()
    got = expect(lambda: tree.apply_mask(examples, masks=masks, replace_false_with=0))
    exp = [[x if m else 0 for x, m in zip(ex, mk)] for ex, mk in zip(examples, masks)]
    if not S.check(got == ('ok', exp), dict(items=repr(examples), mask=masks, mode='nested replace'), f'apply_mask(nested, {masks}, replace=0) = {got}, expected {exp}', cls='nested-replace'):
      return S.result()
  # numpy boolean masks over arrays
  arr = np.array([10, 11, 12, 13])
  for mask in itertools.product([True, False], repeat=4):
    m = np.array(mask)
    got = expect(lambda: list(tree.apply_mask(arr, masks=m)))
    if not S.check(got == ('ok', [x for x, k in zip(arr.tolist(), mask) if k]), dict(mode='ndarray filter', mask=list(mask)), f'apply_mask(array, {mask}) = {got}', cls='nd-filter'):
      return S.result()
    got = expect(lambda: list(tree.apply_mask(arr, masks=m, replace_false_with=-1)))
    if not S.check(got == ('ok', [x if k else -1 for x, k in zip(arr.tolist(), mask)]), dict(mode='ndarray replace', mask=list(mask)), f'apply_mask(array, {mask}, replace=-1) = {got}', cls='nd-replace'):
      return S.result()
    # a replacement value that the items' dtype cannot hold keeps its value (np.where promotes the result)
    got = expect(lambda: [float(x) for x in tree.apply_mask(arr, masks=m, replace_false_with=0.5)])
    if not S.check(got == ('ok', [float(x) if k else 0.5 for x, k in zip(arr.tolist(), mask)]), dict(mode='ndarray replace with a fractional value', mask=list(mask)),
                   f'apply_mask(int array, {mask}, replace=0.5) = {got}', cls='nd-replace-frac'):
      return S.result()
  d = {'p': [1, 2], 'q': [3]}
  got = expect(lambda: tree.apply_mask(d, masks={'p': [True, False], 'q': True}))
  S.check(got == ('ok', {'p': [1], 'q': [3]}), dict(mode='dict mask'), f'dict mask: {got}')
  # dict masks over dict items: True keeps, False drops the key (filter) or replaces its value, a nested mask recurses
  d3 = {'p': [1, 2], 'q': [3], 'r': 7}
  for bits in itertools.product([True, False, 'nested'], repeat=2):
    for r_keep in (True, False):
      masks = {'p': [True, False] if bits[0] == 'nested' else bits[0], 'q': [False] if bits[1] == 'nested' else bits[1], 'r': r_keep}
      def ref(replace):
        out = {}
        for k, mk in masks.items():
          if mk is True:
            out[k] = d3[k]
          elif mk is False:
            if replace is not None:
              out[k] = replace
          else:
            out[k] = [x for x, b in zip(d3[k], mk) if b] if replace is None else [x if b else replace for x, b in zip(d3[k], mk)]
        return out
      got = expect(lambda: tree.apply_mask(d3, masks=masks))
      if not S.check(got == ('ok', ref(None)), dict(mode='dict masks over dict items, filter', masks=repr(masks)), f'apply_mask({d3}, {masks}) = {got}; reference {ref(None)}', cls='dict-filter'):
        return S.result()
      got = expect(lambda: tree.apply_mask(d3, masks=masks, replace_false_with=0))
      if not S.check(got == ('ok', ref(0)), dict(mode='dict masks over dict items, replace', masks=repr(masks)), f'apply_mask({d3}, {masks}, replace=0) = {got}; reference {ref(0)}', cls='dict-replace'):
        return S.result()
  # one array mask over a dict of equally long columns (documented: the columns are leaves, i.e. arrays): applied to every column
  def _lists(t):
    return {k: (_lists(v) if isinstance(v, dict) else [int(x) for x in v]) for k, v in t.items()}
  for mask in itertools.product([True, False], repeat=3):
    cols = {'x': np.array([1, 2, 3]), 'y': {'z': np.array([4, 5, 6])}}
    for mk in (list(mask), np.array(mask)):
      got = expect(lambda: _lists(tree.apply_mask(cols, masks=mk)))
      exp = {'x': [v for v, b in zip([1, 2, 3], mask) if b], 'y': {'z': [v for v, b in zip([4, 5, 6], mask) if b]}}
      if not S.check(got == ('ok', exp), dict(mode='one mask over a dict of array columns', mask=list(mask), mask_type=type(mk).__name__), f'apply_mask(dict of arrays, {mask}) = {got}; reference {exp}', cls='broadcast-filter'):
        return S.result()
      got = expect(lambda: _lists(tree.apply_mask(cols, masks=mk, replace_false_with=-1)))
      exp = {'x': [v if b else -1 for v, b in zip([1, 2, 3], mask)], 'y': {'z': [v if b else -1 for v, b in zip([4, 5, 6], mask)]}}
      if not S.check(got == ('ok', exp), dict(mode='one mask over a dict of array columns, replace', mask=list(mask), mask_type=type(mk).__name__), f'apply_mask(dict of arrays, {mask}, replace=-1) = {got}; reference {exp}', cls='broadcast-replace'):
        return S.result()
    # an ndarray of items with a plain list of Booleans
    got = expect(lambda: [int(v) for v in tree.apply_mask(np.array([7, 8, 9]), masks=list(mask))])
    if not S.check(got == ('ok', [v for v, b in zip([7, 8, 9], mask) if b]), dict(mode='ndarray items, list mask', mask=list(mask)), f'apply_mask(array, list {mask}) = {got}', cls='nd-listmask'):
      return S.result()
  got = expect(lambda: tree.apply_mask([1, 2], masks={'a': True}))
  S.check(got == ('raise', 'TypeError'), dict(mode='a dict mask over a list is rejected'), f'apply_mask(list, dict mask) = {got}', cls='reject')
  # pipeline: tags per element; slice by tag with intra-example masks
  data = {'tags': [['p', 'q'], [], ['q'], ['p', 'p', 'r']], 'vals': [[1.0, 2.0], [], [4.0], [8.0, 16.0, 32.0]]}
  def tag_masks(tags):
    seen = []
    for ex in tags:
      for t in ex:
        if t not in seen:
          seen.append(t)
    for t in seen:
      yield t, ([[x == t for x in ex] for ex in tags],)
  class SumNested:
    def create_state(self):
      return [0.0, 0, 0]
    def update_state(self, s, vals):
      return [s[0] + sum(sum(v) for v in vals), s[1] + sum(len(v) for v in vals), s[2] + len(vals)]
    def merge_states(self, ss):
      return [sum(x) for x in zip(*ss)]
    def get_result(self, s):
      return s
  for replace in (None, 0.0):
    kw = {} if replace is None else {'replace_mask_false_with': replace}
    t = transform.TreeTransform().aggregate(SumNested(), input_keys='vals', output_keys='s').add_slice('tags', 'tag', slice_mask_fn=tag_masks, **kw)
    got = expect(lambda: t.make()(data))
    exp = {'s': [63.0, 6, 4]}
    for tg in ('p', 'q', 'r'):
      sel = [[v for v, x in zip(vs, ts) if x == tg] for vs, ts in zip(data['vals'], data['tags'])]
      if replace is None:
        exp[MetricKey('s', SliceKey(('tag',), (tg,)))] = [sum(sum(v) for v in sel), sum(len(v) for v in sel), len(sel)]
      else:
        exp[MetricKey('s', SliceKey(('tag',), (tg,)))] = [sum(sum(v) for v in sel), 6, 4]
    ok = got[0] == 'ok' and set(got[1]) == set(exp) and all(mc.close(got[1][k], exp[k]) for k in exp)
    S.check(ok, dict(mode='pipeline masks', replace=replace), f'intra-example masks (replace={replace}): {got}; expected {exp}', cls=f'pipeline-{replace}')
  return S.result()


def replay_apply_mask(p):
  """Replays a counterexample of an apply_mask obligation: items are distinct objects 0..n-1."""
  w = p['witness']
  masks, n = w.get('masks'), w.get('n_items')
  if not isinstance(masks, list) or not isinstance(n, int) or not 0 <= n <= 64 or not all(isinstance(m, bool) for m in masks):
    return dict(violated=False, detail='witness outside the replayable domain')
  items = [('row', i) for i in range(n)]
  if 'replace' in w:
    got = expect(lambda: list(tree.apply_mask(items, masks=list(masks), replace_false_with=w['replace'])))
    ref = ('ok', [x if m else w['replace'] for x, m in zip(items, masks)]) if len(masks) == n else ('raise', 'ValueError')
  else:
    got = expect(lambda: list(tree.apply_mask(items, masks=list(masks))))
    ref = ('ok', [x for x, m in zip(items, masks) if m]) if len(masks) == n else ('raise', 'ValueError')
  return dict(violated=got != ref, detail=f'apply_mask({n} items, masks={masks}) = {got}; reference {ref}')
