"""Native side of pyvc: runs under /venv/bin/python against the real code.

usage: run.py <prop> <function>   (JSON payload on stdin, JSON result on the last stdout line)
"""
import importlib.util
import json
import os
import sys
import traceback
import warnings

warnings.filterwarnings('ignore')
HERE = os.path.dirname(os.path.abspath(__file__))
sys.path.insert(0, HERE)
repo = os.environ.get('PYVC_REPO', '/repo')
sys.path.insert(0, repo)


def main():
  prop, fn = sys.argv[1], sys.argv[2]
  payload = json.loads(sys.stdin.read() or '{}')
  try:
    spec = importlib.util.spec_from_file_location(f'replay_{prop}', os.path.join(HERE, f'{prop}.py'))
    mod = importlib.util.module_from_spec(spec)
    spec.loader.exec_module(mod)
    res = getattr(mod, fn)(payload)
  except Exception:   # pylint: disable=broad-exception-caught
    res = dict(error=traceback.format_exc()[-3000:])
  print(json.dumps(res, default=str))


if __name__ == '__main__':
  main()
