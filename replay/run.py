"""Native side of pyvc: runs under /venv/bin/python against the real code.

usage: run.py <prop> <function>   (JSON payload on stdin, JSON result on the last stdout line)
"""
import importlib.util
import json
import os
import sys
import traceback
import warnings

warnings.filterwarnings('ignore')
HERE = os.path.dirname(os.path.abspath(__file__))
sys.path.insert(0, HERE)
repo = os.environ.get('PYVC_REPO', '/repo')
sys.path.insert(0, repo)


def main():
  prop, fn = sys.argv[1], sys.argv[2]
  payload = json.loads(sys.stdin.read() or '{}')
  try:
    def load(name):
      spec = importlib.util.spec_from_file_location(f'replay_{name}', os.path.join(HERE, f'{name}.py'))
      mod = importlib.util.module_from_spec(spec)
      spec.loader.exec_module(mod)
      return mod
    mod = load(prop)
    if not hasattr(mod, fn):
      # a contract shared between properties names the stand-in / replay of the property it was written for
      for other in sorted(f[:-3] for f in os.listdir(HERE) if f[0] == 'C' and f[1:3].isdigit() and f.endswith('.py') and f[:-3] != prop):
        m2 = load(other)
        if hasattr(m2, fn):
          mod = m2
          break
    res = getattr(mod, fn)(payload)
  except Exception:   # pylint: disable=broad-exception-caught
    res = dict(error=traceback.format_exc()[-3000:])
  print(json.dumps(res, default=str))


if __name__ == '__main__':
  main()
