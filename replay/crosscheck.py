"""Engine vs CPython (thorough tier): runs the real function on the concrete inputs of a solver model of one of its
paths and compares the value with the one the symbolic interpreter predicts for that path."""
import importlib
import math


def _load(target):
  path, qual = target.split('::')
  mod = importlib.import_module(path[:-3].replace('/', '.'))
  obj = mod
  for part in qual.split('.'):
    obj = getattr(obj, part)
  return mod, obj


def _build(mod, v):
  if isinstance(v, dict) and '__str__' in v:
    return v['__str__']
  if isinstance(v, dict) and '__class__' in v:
    cls = getattr(mod, v['__class__'], None)
    if cls is None:
      raise LookupError(v['__class__'])
    fields = {k: x for k, x in v.items() if k != '__class__'}
    try:
      return cls(**fields)
    except TypeError:
      o = cls.__new__(cls)
      for k, x in fields.items():
        object.__setattr__(o, k, x)
      return o
  return v


def _num(x):
  if isinstance(x, bool):
    return float(x)
  if isinstance(x, (int, float)):
    return float(x)
  try:
    return float(x)
  except (TypeError, ValueError):
    return None


def crosscheck(p):
  agree, skipped, disagree = 0, 0, []
  for case in p['cases']:
    try:
      mod, fn = _load(case['target'])
      inputs = dict(case['inputs'])
      slf = inputs.pop('self', None)
      if any(isinstance(v, dict) and v.get('__partial__') for v in list(inputs.values()) + [slf]):
        skipped += 1           # an input with opaque parts cannot be rebuilt natively
        continue
      if any(isinstance(v, str) for v in inputs.values()):        # a value the model could not make concrete
        skipped += 1
        continue
      args = {k: _build(mod, v) for k, v in inputs.items()}
      if 'tp_at_topks' in args:        # pointwise retrieval formulas: one row, cut-off k, as the arrays the code indexes
        import numpy as np
        k = args.get('k_list')
        if k != int(k) or k < 1 or k > 64:
          skipped += 1
          continue
        k = int(k)
        args['tp_at_topks'] = np.full((1, k), float(args['tp_at_topks']))
        args['k_list'] = np.array([k])
        for name in ('y_pred_count', 'y_true_len'):
          if name in args:
            args[name] = np.array([float(args[name])])
      if slf is not None:
        obj = _build(mod, slf)
        got = fn.fget(obj) if isinstance(fn, property) else fn(obj, **args)
      else:
        got = fn(**args)
      if hasattr(got, 'shape') and getattr(got, 'size', 0) == 1:
        got = got.reshape(-1)[0]
      a, b = _num(got), _num(case['predicted'])
      if a is None or b is None:
        skipped += 1
        continue
      same = (math.isnan(a) and math.isnan(b)) or (not math.isnan(a) and not math.isnan(b) and abs(a - b) <= 1e-9 * max(1.0, abs(a), abs(b)))
      if same:
        agree += 1
      else:
        disagree.append(dict(target=case['target'], inputs=case['inputs'], cpython=a, engine=b))
    except Exception as e:   # pylint: disable=broad-exception-caught
      skipped += 1
  return dict(agree=agree, skipped=skipped, disagree=disagree)
