import threading, sys, time, os, logging
logging.disable(logging.CRITICAL)
sys.path.insert(0, os.environ.get('PYVC_REPO', '/repo'))
from ml_metrics._src.utils import iter_utils

def scenario():
  q = iter_utils.IteratorQueue(1, name='q', timeout=None)
  a_full = threading.Event()
  def gen_a():
    yield 'a1'
    a_full.set()
    yield 'a2'           # the buffer (size 1) is full: this put blocks
    yield 'a3'
  def gen_b():
    a_full.wait(5)
    time.sleep(0.3)      # A is blocked in put by now
    raise ValueError('producer B failed')
    yield
  ta = threading.Thread(target=lambda: q.enqueue_from_iterator(gen_a()), daemon=True, name='A')
  def run_b():
    try:
      q.enqueue_from_iterator(gen_b())
    except ValueError:
      pass
  tb = threading.Thread(target=run_b, daemon=True, name='B')
  q._max_enqueuer = 2
  ta.start(); tb.start()
  tb.join(5)             # B has failed; A is blocked on the full buffer
  out = {}
  try:
    out['batch'] = q.get_batch(4)      # takes 'a1', then sees the failure
  except ValueError as e:
    out['error'] = repr(e)
  ta.join(3)
  return out, ta.is_alive()

out, a_alive = scenario()
print('consumer:', out, '| producer A still blocked after the failure reached the consumer:', a_alive)
sys.exit(1 if a_alive else 0)
