import threading, sys, time
sys.path.insert(0, __import__("os").environ.get("PYVC_REPO", "/repo"))
from ml_metrics._src.utils import iter_utils

def scenario():
  q = iter_utils.IteratorQueue(2, name='q', timeout=None)
  go = threading.Event()
  def gen():
    yield 'a'
    go.wait(5)            # finishes (without producing more) exactly inside the consumer's hand-off window
    return 'ret'
  prod = threading.Thread(target=q.enqueue_from_iterator, args=(gen(),), daemon=True)
  orig = iter_utils._release_and_notify
  def delayed(lock, notify, notify_all=False):
    if threading.current_thread().name == 'consumer':
      lock.release()
      try:
        go.set()                       # let the last producer finish now
        prod.join(5)
        with notify:
          notify.notify()
      finally:
        lock.acquire()
    else:
      orig(lock, notify, notify_all)
  iter_utils._release_and_notify = delayed
  out = {}
  def consume():
    try:
      out['batch'] = q.get_batch(2, block=True)
    except BaseException as e:
      out['exc'] = repr(e)
  prod.start()
  while q._queue.empty():
    time.sleep(0.01)
  cons = threading.Thread(target=consume, name='consumer', daemon=True)
  cons.start()
  cons.join(3)
  iter_utils._release_and_notify = orig
  return cons.is_alive(), out, q.enqueue_done

hung, out, done = scenario()
print('consumer still blocked:', hung, '| producers done:', done, '| outcome:', out)
sys.exit(1 if hung else 0)
