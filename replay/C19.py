"""C19 native bounded stand-in: re-batching conserves rows, order and column alignment."""
import itertools
import numpy as np
from common import Search, expect
from ml_metrics._src.utils import iter_utils
from ml_metrics._src.chainables import tree_fns


def _mk(kind, rows, width=None):
  if kind == 'list':
    return list(rows)
  if kind == 'tuple':
    return tuple(rows)
  if kind == 'array2d':
    return np.array([[r, r + 0.5] for r in rows], dtype=float).reshape(len(rows), 2)
  return np.array(rows)


def _rows(col):
  return [tuple(x) if isinstance(x, np.ndarray) else x for x in (col.tolist() if isinstance(col, np.ndarray) else list(col))]


def _flat(xs):
  return [tuple(x) if isinstance(x, list) else x for x in xs]


def bounded_rebatch(p):
  S = Search(p, dict(input_batch_sizes='all sequences of <=4 (5 thorough) batches with sizes 0..4 (sum<=9)', target='1..5', columns='1-2',
                     containers='list|tuple|array|2-D array', pad='none|value', num_columns='given|inferred'))
  L = 5 if S.thorough() else 4
  kinds = ['list', 'tuple', 'array', 'array2d']
  for n in range(0, L + 1):
    for sizes in itertools.product(range(0, 5), repeat=n):
      if sum(sizes) > 9 or (n and not S.thorough() and sizes.count(0) > 1):
        continue
      for target in range(1, 6):
        for ncol, kind in itertools.product((1, 2), kinds):
          if not S.thorough() and ncol == 2 and kind in ('tuple',) and n > 3:
            continue
          start, batches, cols_rows = 0, [], [[] for _ in range(ncol)]
          for sz in sizes:
            b = []
            for c in range(ncol):
              rows = [1000 * c + start + i for i in range(sz)]
              b.append(_mk(kind, rows))
              cols_rows[c].extend([(r, r + 0.5) if kind == 'array2d' else r for r in rows])
            batches.append(tuple(b))
            start += sz
          total = start
          for pad, given in itertools.product((None, -1, 0), (True, False)):      # 0: a falsy pad value is still a pad value
            if not given and not batches:
              continue      # the column count can only be inferred from a first batch
            got = expect(lambda: list(iter_utils.rebatched_args(iter(batches), batch_size=target, num_columns=ncol if given else 0, pad=pad)))
            w = dict(sizes=list(sizes), target=target, columns=ncol, container=kind, pad=pad, num_columns_given=given)
            if got[0] != 'ok':
              if not S.check(False, w, f'rebatched_args raised {got} for {w}', cls='raise'):
                return S.result()
              continue
            out = got[1]
            ok, why = True, ''
            lens = []
            for b in out:
              ls = [len(col) for col in b]
              if len(b) != ncol or len(set(ls)) != 1:
                ok, why = False, f'misaligned columns in an emitted batch: lengths {ls}'
              lens.append(ls[0] if ls else 0)
            if ok:
              npad = (-total) % target if (pad is not None and total) else 0
              if any(l != target for l in lens[:-1]) or (lens and not 0 < lens[-1] <= target) or (pad is not None and lens and lens[-1] != target):
                ok, why = False, f'emitted batch sizes {lens} for target {target}'
              for c in range(ncol):
                rows = [r for b in out for r in _flat(_rows(b[c]))]
                exp = list(cols_rows[c])
                if npad:
                  body, tail = rows[:len(rows) - npad], rows[len(rows) - npad:]
                  if body != exp or any((t != pad and t != (float(pad), float(pad)) and t != (pad, pad)) for t in tail):
                    ok, why = False, f'column {c}: rows {rows}, expected {exp} + {npad} pads'
                elif rows != exp:
                  ok, why = False, f'column {c}: rows {rows}, expected {exp}'
              if not total and out:
                ok, why = False, f'empty stream emitted {out}'
            if not S.check(ok, w, f'{w}: {why}', cls=kind):
              return S.result()
  # ragged input tuples (columns of unequal length): rejected, never silently mis-paired - also when the
  # lengths of two ragged tuples cancel out inside one flush window
  for a, b in itertools.product(range(0, 4), repeat=2):
    for c, d in itertools.product(range(0, 4), repeat=2):
      if (a, c) == (b, d) or (a == b and c == d):
        continue
      for target in (1, 3, 8):
        batches = [([0] * a, [0] * b), ([1] * c, [1] * d)]
        got = expect(lambda: list(iter_utils.rebatched_args(iter(batches), batch_size=target, num_columns=2)))
        ok = got[0] == 'raise'
        if got[0] == 'ok':      # tolerated only if every emitted row pairs values of the same input tuple
          ok = all(x == y for bt in got[1] for x, y in zip(bt[0], bt[1])) and all(len(bt[0]) == len(bt[1]) for bt in got[1]) and a == b
        if not S.check(ok, dict(ragged=[[a, b], [c, d]], target=target), f'ragged input tuples with column lengths {(a, b)}, {(c, d)}, target {target}: {got}', cls='ragged'):
          return S.result()
  # batch_size = 0 is the identity
  bs = [([1, 2], [3, 4]), ([5], [6])]
  S.check(list(iter_utils.rebatched_args(iter(bs), batch_size=0)) == bs, dict(what='batch_size 0'), 'batch_size=0 must be the identity')
  return S.result()


def bounded_treefn_rebatch(p):
  """TreeFn with fn_batch_size / batch_size: same rows, in order, also for an empty stream."""
  S = Search(p, dict(streams='<=4 batches of sizes 0..3', fn_batch_size='0,2,3', batch_size='1,2,4'))
  for n in range(0, 5):
    for sizes in itertools.product(range(0, 4), repeat=n):
      if sum(sizes) > 7:
        continue
      start, batches = 0, []
      for sz in sizes:
        batches.append(list(range(start, start + sz)))
        start += sz
      # functions that keep, double or thin out the rows of a batch (the output batches must have the target size all the same)
      fns = {'keep': lambda xs: [x + 100 for x in xs], 'explode': lambda xs: [y for x in xs for y in (x + 100, x + 200)],
             'thin': lambda xs: [x + 100 for x in xs if x % 2 == 0]}
      for (fname, fn), (fbs, bs) in itertools.product(fns.items(), itertools.product((0, 2, 3), (1, 2, 3, 4))):
        if fname != 'keep' and (n > 3 or fbs == 0):
          continue
        t = tree_fns.TreeFn(fn=fn, fn_batch_size=fbs, batch_size=bs)
        got = expect(lambda: [list(x) for x in t.iterate([b for b in batches])])
        rows = list(range(start))
        calls = [rows[s:s + fbs] for s in range(0, len(rows), fbs)] if fbs else [b for b in batches]
        flat = [y for c in calls for y in fn(c)]
        exp = [flat[s:s + bs] for s in range(0, len(flat), bs)]
        if not S.check(got == ('ok', exp), dict(sizes=list(sizes), fn=fname, fn_batch_size=fbs, batch_size=bs), f'TreeFn({fname}, fn_batch_size={fbs}, batch_size={bs}) on batches {batches}: {got}; expected {exp}', cls=f'{fname}-{fbs}-{bs}'):
          return S.result()
  return S.result()
