"""C09 native replay and bounded searches (run under /venv/bin/python)."""
import itertools
from common import Search, expect
from ml_metrics._src.chainables import io
from ml_metrics._src.utils import iter_utils


def _parts(s, e, k):
  """Independent oracle: even split of [s, e) into k contiguous parts."""
  n = e - s
  q, r = n // k, n % k
  out, cur = [], s
  for i in range(k):
    ln = q + (1 if i < r else 0)
    out.append((cur, cur + ln))
    cur += ln
  return out


def _mk(start, end):
  data = list(range(max(end, start, 0) + 1))
  return io.SequenceDataSource(data, _start=start, _end=end)


def _partition_ok(ivs, s, e):
  """the k intervals are contiguous in order, cover [s, e) exactly and their sizes differ by at most one (which shards get
  the larger size is not fixed by the property)"""
  sizes = [hi - lo for lo, hi in ivs]
  return (ivs[0][0] == s and ivs[-1][1] == e and all(ivs[j][1] == ivs[j + 1][0] for j in range(len(ivs) - 1))
          and all(x >= 0 for x in sizes) and max(sizes) - min(sizes) <= 1)


def replay_shard(p):
  w = p['witness']
  s, e, i, k, off = w['start'], w['end'], w['shard_index'], w['num_shards'], w.get('offset', 0)
  if k < 1 or not 0 <= i < k or s > e or s < 0 or k > 200:
    return dict(violated=False, detail='witness outside the replayable domain (not a constructible source)')
  src = _mk(s, e)
  ivs = [(x.start, x.end) for x in (src.shard(j, k) for j in range(k))]
  got = src.shard(i, k, off)
  ok = _partition_ok(ivs, s, e) and (got.start, got.end) == (ivs[i][0] + off, ivs[i][1])
  return dict(violated=not ok, detail=f'the {k} shards of [{s},{e}) are {ivs}; shard({i},{k},offset={off}) -> [{got.start},{got.end}): '
              'not an ordered partition into parts whose sizes differ by at most one (or the offset is not added to the start)')


def bounded_shard(p):
  N, K = (14, 7) if p.get('tier') != 'thorough' else (40, 14)
  S = Search(p, dict(n=f'<{N}', k=f'<{K}', nested_depth=2))
  if S.only:
    r = replay_shard(dict(witness=S.only))
    S.check(not r['violated'], S.only, r['detail'])
    return S.result()
  for s0 in (0,):     # roots built through the public constructor start at 0
    for n in range(N):
      src = io.SequenceDataSource(list(range(n)))
      for k in range(1, K):
        shards = [src.shard(i, k) for i in range(k)]
        got = [(x.start, x.end) for x in shards]
        if not S.check(_partition_ok(got, s0, s0 + n), dict(start=s0, end=s0 + n, num_shards=k, shard_index=0, offset=0),
                       f'shards of [{s0},{s0 + n}) into {k}: {got} is not an ordered partition into parts whose sizes differ by at most one'):
          return S.result()
        elems = [list(x) for x in shards]
        flat = [y for x in elems for y in x]
        ok = flat == list(range(s0, s0 + n)) and all(len(x) == len(list(x)) for x in shards) and \
            (max(map(len, elems)) - min(map(len, elems)) <= 1)
        if not S.check(ok, dict(start=s0, end=s0 + n, num_shards=k), f'iteration of the {k} shards of [{s0},{s0 + n}) gives {elems}'):
          return S.result()
        # state round trip and nested shards
        for i, sh in enumerate(shards):
          rebuilt = src.from_state(sh.state)
          if not S.check(list(rebuilt) == elems[i], dict(start=s0, end=s0 + n, num_shards=k, shard_index=i, what='from_state'),
                         f'from_state(shard({i},{k}).state) gives {list(rebuilt)} expected {elems[i]}'):
            return S.result()
          rebuilt2 = sh.from_state(sh.state)
          if not S.check(list(rebuilt2) == elems[i], dict(start=s0, end=s0 + n, num_shards=k, shard_index=i, what='from_state on the shard itself'),
                         f'shard.from_state(shard.state) gives {list(rebuilt2)} expected {elems[i]}'):
            return S.result()
          if n < 9 and k < 4:
            for k2 in range(1, 4):
              sub = [list(sh.shard(j, k2)) for j in range(k2)]
              if not S.check([y for x in sub for y in x] == elems[i] and max(map(len, sub)) - min(map(len, sub)) <= 1,
                             dict(start=s0, end=s0 + n, num_shards=k, shard_index=i, nested=k2), f'nested shards {sub} of {elems[i]}'):
                return S.result()
              for j in range(k2):
                ss = sh.shard(j, k2)
                if not S.check(list(src.from_state(ss.state)) == sub[j], dict(start=s0, end=s0 + n, num_shards=k, shard_index=i, nested=k2, j=j, what='nested from_state'),
                               f'nested from_state {list(src.from_state(ss.state))} expected {sub[j]}'):
                  return S.result()
  return S.result()


def _merged_cases(thorough):
  lens = [0, 1, 2, 3] if not thorough else [0, 1, 2, 3, 5]
  reps = 3 if not thorough else 4
  for parts in itertools.product(lens, repeat=reps):
    flat, seqs = [], []
    for p in parts:
      seqs.append(list(range(len(flat), len(flat) + p)))
      flat += seqs[-1]
    yield seqs, flat


def replay_index(p):
  w = p['witness']
  lens, index = w['lens'], w['index']
  if not isinstance(lens, list) or any((not isinstance(x, int)) or x < 0 or x > 50 for x in lens):
    return dict(violated=False, detail='witness not constructible')
  flat, seqs = [], []
  for n in lens:
    seqs.append(list(range(len(flat), len(flat) + n)))
    flat += seqs[-1]
  m = iter_utils.MergedSequences(seqs)
  exp = expect(lambda: flat[index])
  got = expect(lambda: m[index])
  return dict(violated=exp != got, detail=f'MergedSequences({seqs})[{index}] -> {got}, list gives {exp}')


def bounded_merged(p):
  S = Search(p, dict(sub_sequences='<=3 (4 thorough)', sub_len='<=3 (5 thorough)', read_ahead='1,2,3,64', index='all', slice='all bounds incl. None, negative, out of range'))
  if S.only and 'lens' in S.only:
    r = replay_index(dict(witness=S.only))
    S.check(not r['violated'], S.only, r['detail'])
    return S.result()
  for seqs, flat in _merged_cases(S.thorough()):
    L = len(flat)
    for bs in (0, 1, 2, 3):
      m = iter_utils.MergedSequences(seqs, max_batch_size=bs)
      if not S.check(len(m) == L and list(m) == flat, dict(lens=[len(x) for x in seqs], read_ahead=bs, what='iterate/len'), f'list(MergedSequences({seqs}))={list(m)}'):
        return S.result()
      if bs > 1 and not S.thorough() and len(seqs) > 3:
        continue
      for i in range(-L - 2, L + 2):
        exp, got = expect(lambda: flat[i]), expect(lambda: m[i])
        if not S.check(exp == got, dict(lens=[len(x) for x in seqs], index=i), f'MergedSequences({seqs})[{i}] -> {got}, list gives {exp}'):
          return S.result()
      bounds = list(range(-L - 2, L + 3)) + [None]
      for a in bounds:
        for b in bounds:
          exp, got = flat[a:b], expect(lambda: list(m[a:b]))
          if not S.check(got == ('ok', exp), dict(lens=[len(x) for x in seqs], a=a, b=b, read_ahead=bs), f'MergedSequences({seqs}, max_batch_size={bs})[{a}:{b}] -> {got}, list gives {exp}'):
            return S.result()
  return S.result()


def bounded_range_iterator(p):
  """_RangeIterator over sliceable and non-sliceable data, every start/stop/read-ahead."""
  S = Search(p, dict(n='<=9 (12 thorough)', read_ahead='1..5,64', start_stop='all'))
  N = 12 if S.thorough() else 9

  class NoSlice:
    def __init__(self, d):
      self.d = d
    def __len__(self):
      return len(self.d)
    def __getitem__(self, i):
      if isinstance(i, slice):
        raise TypeError('no slicing')
      return self.d[i]

  for n in range(N + 1):
    data = list(range(n))
    for wrap in (list, NoSlice):
      for bs in (1, 2, 3, 4, 5, 64):
        for start in range(n + 1):
          for stop in list(range(start, n + 1)) + [None]:
            it = iter_utils._RangeIterator(wrap(data), start, stop, bs)
            got = list(it)
            exp = data[start:stop]
            if not S.check(got == exp, dict(n=n, start=start, stop=stop, read_ahead=bs, sliceable=wrap is list), f'_RangeIterator(range({n}), {start}, {stop}, {bs}) -> {got} expected {exp}'):
              return S.result()
  return S.result()


def bounded_sharded_iterable(p):
  S = Search(p, dict(n='<=12', k='<=5', nested='<=3', restore='every position'))
  N = 16 if S.thorough() else 12
  for n in range(N + 1):
    base = io.ShardedIterable(range(n))
    for k in range(1, 6):
      shards = [base.shard(i, k) for i in range(k)]
      elems = [list(s) for s in shards]
      exp = [list(range(n))[i::k] for i in range(k)]
      if not S.check(elems == exp, dict(n=n, k=k, what='round robin'), f'ShardedIterable(range({n})) shards {elems} expected {exp}'):
        return S.result()
      for i, sh in enumerate(shards):
        for k2 in range(1, 4):
          sub = [list(sh.shard(j, k2)) for j in range(k2)]
          exp2 = [exp[i][j::k2] for j in range(k2)]
          if not S.check(sub == exp2, dict(n=n, k=k, i=i, k2=k2, what='shard of shard'), f'shards of shard ({i},{k}) into {k2}: {sub} expected {exp2}'):
            return S.result()
        # rebuilding from state, at every position
        it = sh.iterate()
        for pos in range(len(exp[i]) + 1):
          rest = list(it.from_state(it.state))
          if not S.check(rest == exp[i][pos:], dict(n=n, k=k, i=i, pos=pos, what='from_state'), f'restored at {pos}: {rest} expected {exp[i][pos:]}'):
            return S.result()
          if pos < len(exp[i]):
            next(it)
  return S.result()


def replay_sharded_iterable(p):
  """Replays a counterexample of ShardedIterable.shard: sub-shard i of n of the shard (a mod m) of range(N) must be every
  n-th element of that shard, starting with its i-th."""
  w = p['witness']
  a, m, i, n = (w.get(k) for k in ('a', 'm', 'i', 'n'))
  if not all(isinstance(x, int) for x in (a, m, i, n)) or not (1 <= m <= 12 and 1 <= n <= 12 and 0 <= a < m and 0 <= i < n):
    return dict(violated=False, detail='witness outside the replayable domain (not a constructible shard)')
  N = 4 * m * n + 3
  parent = io.ShardedIterable(range(N)).from_state(io.ShardConfig(a, m))
  got = list(parent.shard(i, n))
  exp = list(parent)[i::n]
  return dict(violated=got != exp, detail=f'shard({i},{n}) of the shard ({a} mod {m}) of range({N}) = {got[:12]}..., expected {exp[:12]}...')
