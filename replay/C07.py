"""C07 native replay and bounded stand-ins (textbook values from raw examples)."""
import itertools
import math
import numpy as np
from common import Search, expect
import metrics_common as mc
from ml_metrics._src.aggregates import classification as agg_cls
from ml_metrics._src.aggregates import retrieval as agg_ret
from ml_metrics._src.aggregates import rolling_stats as rs
from ml_metrics._src.metrics import classification as m_cls
from ml_metrics._src.metrics import retrieval as m_ret
from ml_metrics._src.metrics import rolling_stats as m_rs

CM_METRICS = [m for m in mc.rates(1, 1, 1, 1)]


def _derive(metric, tp, tn, fp, fn):
  cm = agg_cls._ConfusionMatrix(tp, tn, fp, fn)
  return cm.derive_metric(agg_cls.ConfusionMatrixMetric(metric))


def replay_rate(p):
  w = p['witness']
  tp, tn, fp, fn = (int(w[k]) for k in ('tp', 'tn', 'fp', 'fn'))
  if min(tp, tn, fp, fn) < 0:
    return dict(violated=False, detail='not a count')
  exp = mc.rates(tp, tn, fp, fn)
  bad = []
  for m in CM_METRICS:
    got = expect(lambda: float(_derive(m, tp, tn, fp, fn)))
    if got[0] != 'ok' or not mc.close(got[1], exp[m]):
      bad.append((m, got, exp[m]))
  return dict(violated=bool(bad), detail=f'counts tp={tp} tn={tn} fp={fp} fn={fn}: {bad[:4]}')


def bounded_rates(p):
  N = 5 if p.get('tier') == 'thorough' else 4
  S = Search(p, dict(counts=f'0..{N} each', metrics=len(CM_METRICS)))
  if S.only and 'tp' in S.only:
    r = replay_rate(dict(witness=S.only))
    S.check(not r['violated'], S.only, r['detail'])
    return S.result()
  for tp, tn, fp, fn in itertools.product(range(N + 1), repeat=4):
    exp = mc.rates(tp, tn, fp, fn)
    for m in CM_METRICS:
      got = expect(lambda: float(_derive(m, tp, tn, fp, fn)))
      if not S.check(got[0] == 'ok' and mc.close(got[1], exp[m]), dict(tp=tp, tn=tn, fp=fp, fn=fn, metric=m),
                     f'{m}(tp={tp},tn={tn},fp={fp},fn={fn}) = {got}, textbook {exp[m]}'):
        return S.result()
    vals = {m: float(_derive(m, tp, tn, fp, fn)) for m in CM_METRICS}
    for group in mc.ALIASES:
      if not S.check(all(mc.close(vals[group[0]], vals[g]) for g in group), dict(tp=tp, tn=tn, fp=fp, fn=fn, aliases=group),
                     f'aliases {group} disagree: {[vals[g] for g in group]}'):
        return S.result()
    for m in mc.UNIT_RANGE:
      if not S.check(-1e-12 <= vals[m] <= 1 + 1e-12, dict(tp=tp, tn=tn, fp=fp, fn=fn, metric=m), f'{m} = {vals[m]} outside [0, 1]'):
        return S.result()
  return S.result()


def _datasets(thorough):
  """(input_type, y_true, y_pred, kwargs) small datasets incl. classes never predicted / never true."""
  out = []
  for n in (1, 2, 3) if not thorough else (1, 2, 3, 4):
    for yt in itertools.product([0, 1], repeat=n):
      for yp in itertools.product([0, 1], repeat=n):
        out.append(('binary', list(yt), list(yp), dict(pos_label=1)))
  out.append(('binary', ['y', 'n', 'y', 'n', 'y'], ['y', 'y', 'n', 'n', 'y'], dict(pos_label='y')))
  out.append(('binary', [1, 1, 1, 1, 1], [1, 0, 1, 0, 1], dict(pos_label=1)))
  vocab = {'a': 0, 'b': 1, 'c': 2}
  for n in (1, 2, 3):
    for yt in itertools.product('abc', repeat=n):
      for yp in itertools.product('ab', repeat=n):
        out.append(('multiclass', list(yt), list(yp), dict(vocab=vocab)))
  mo = [[], ['a'], ['b', 'a'], ['c', 'a', 'b']]
  for yt in itertools.product(mo[1:], repeat=2):
    for yp in itertools.product(mo[1:], repeat=2):
      out.append(('multiclass-multioutput', [list(x) for x in yt], [list(x) for x in yp], dict(vocab=vocab)))
  rows = [[0, 0, 1], [1, 1, 0], [1, 1, 1], [0, 0, 0]]
  for yt in itertools.product(rows, repeat=2):
    for yp in itertools.product(rows[:3], repeat=2):
      out.append(('multiclass-indicator', [list(x) for x in yt], [list(x) for x in yp], dict(pos_label=1)))
  return out


def bounded_classification_api(p):
  S = Search(p, dict(datasets='all binary label pairs n<=3 (4 thorough), multiclass n<=3 over 3 classes, multioutput and indicator pairs of 2 rows',
                     averages='binary|micro|macro|samples', metrics=len(CM_METRICS)))
  metrics = [m for m in CM_METRICS]
  for input_type, yt, yp, kw in _datasets(S.thorough()):
    avgs = ['micro', 'macro', 'samples']
    if input_type == 'binary':
      avgs = ['binary', 'micro', 'macro']
    for avg in avgs:
      got = expect(lambda: m_cls.ClassificationAggFn(metrics, input_type=input_type, average=avg, **kw)(yt, yp))
      if got[0] != 'ok':
        if not S.check(False, dict(input_type=input_type, average=avg, y_true=yt, y_pred=yp), f'accumulator raised {got}'):
          return S.result()
        continue
      for m in metrics:
        exp = mc.classification_expected(m, yt, yp, input_type, avg, kw.get('pos_label', 1), kw.get('vocab'))
        val = got[1][m]
        if not S.check(mc.close(val, exp, 1e-7), dict(input_type=input_type, average=avg, y_true=yt, y_pred=yp, metric=m),
                       f'{m} [{input_type}, {avg}] on y_true={yt} y_pred={yp}: accumulator {val}, textbook {exp}'):
          return S.result()
      # one-shot function API == accumulator API (sampled: three functions per dataset)
      for m in ('precision', 'recall', 'f1_score', 'informedness'):
        one = expect(lambda: getattr(m_cls, m)(yt, yp, input_type=input_type, average=avg, **kw))
        if one == ('raise', 'ValueError') and input_type == 'binary' and kw.get('pos_label') not in list(yt) + list(yp):
          continue      # documented input validation: pos_label must occur in the data
        if not S.check(one[0] == 'ok' and mc.close(one[1], got[1][m], 1e-9), dict(input_type=input_type, average=avg, y_true=yt, y_pred=yp, metric=m, what='one-shot'),
                       f'one-shot {m} = {one} but accumulator {got[1][m]}'):
          return S.result()
  return S.result()


def bounded_topk_classification(p):
  """Top-k confusion-matrix metrics (k_list, also with gaps) vs the definition: predictions cut at k."""
  S = Search(p, dict(k_lists='[1],[1,2],[1,3],[3],[2,4]', input='multiclass-multioutput rankings over 4 classes, multiclass', averages='micro|macro'))
  vocab = {'a': 0, 'b': 1, 'c': 2, 'd': 3}
  yt = [['a'], ['b', 'c'], ['a', 'd'], ['c'], ['d', 'a', 'b']]
  yp = [['a', 'b', 'c'], ['c', 'a', 'b', 'd'], ['b', 'c', 'd', 'a'], ['d'], ['a', 'd', 'c']]
  metrics = ['precision', 'recall', 'f1_score', 'binary_accuracy', 'false_discovery_rate']
  for k_list in ([1], [1, 2], [1, 3], [3], [2, 4]):
    for avg in ('micro', 'macro'):
      got = expect(lambda: m_cls.ClassificationAggFn(metrics, input_type='multiclass-multioutput', average=avg, vocab=vocab, k_list=k_list)(yt, yp))
      if got[0] != 'ok':
        S.check(False, dict(k_list=k_list, average=avg), f'top-k classification raised {got}', cls='raise')
        continue
      for m in metrics:
        exp = [mc.classification_expected(m, yt, [pr[:k] for pr in yp], 'multiclass-multioutput', avg, vocab=vocab) for k in k_list]
        val = list(np.asarray(got[1][m], dtype=float).reshape(-1))
        if not S.check(mc.close(val, exp, 1e-9), dict(k_list=k_list, average=avg, metric=m), f'{m}@{k_list} ({avg}): {val}, definition with predictions cut at k {exp}', cls=f'{m}-{avg}'):
          return S.result()
  # single-output multiclass: only the first prediction exists, every k >= 1 gives the same counts
  yt1, yp1 = ['a', 'b', 'c', 'a'], ['a', 'c', 'c', 'b']
  for k_list in ([1], [2], [1, 3]):
    got = expect(lambda: m_cls.ClassificationAggFn(metrics, input_type='multiclass', average='micro', vocab=vocab, k_list=k_list)(yt1, yp1))
    for m in metrics:
      exp = [mc.classification_expected(m, yt1, yp1, 'multiclass', 'micro', vocab=vocab) for _ in k_list]
      ok = got[0] == 'ok' and mc.close(list(np.asarray(got[1][m], dtype=float).reshape(-1)), exp, 1e-9)
      if not S.check(ok, dict(k_list=k_list, input='multiclass', metric=m), f'{m}@{k_list} single-output: {got}, expected {exp}', cls=f'single-{m}'):
        return S.result()
  return S.result()


def bounded_thresholded_retrieval(p):
  """ThresholdedRetrieval precision/recall/f1 per threshold vs counting, incl. externally matched probabilities
  with negative entries (documented: filtered out), several batches and a merge."""
  S = Search(p, dict(thresholds='0, 0.5', batches='1-2, merged', sentinels='negative matched probabilities'))
  th = (0.0, 0.5)
  def counts(batches):
    tp_t, tp_p, n_t, n_p = [0, 0], [0, 0], 0, [0, 0]
    for mt, mp, pr in batches:
      kt = [x for row in mt for x in row if x >= 0]
      kp = [x for row in mp for x in row if x >= 0]
      allp = [x for row in pr for x in row]
      n_t += len(kt)
      for i, t in enumerate(th):
        tp_t[i] += sum(1 for x in kt if x > t)
        tp_p[i] += sum(1 for x in kp if x > t)
        n_p[i] += sum(1 for x in allp if x > t)
    prec = [mc.sdiv(tp_p[i], n_p[i]) for i in range(2)]
    rec = [mc.sdiv(tp_t[i], n_t) for i in range(2)]
    f1 = [mc.sdiv(2 * a * b, a + b) for a, b in zip(prec, rec)]
    return prec, rec, f1
  b1 = ([[0.9, -1.0, 0.2]], [[0.9, 0.0, 0.2, -1.0]], [[0.9, 0.8, 0.2, 0.1]])
  b2 = ([[0.7], [-1.0, 0.6]], [[0.7, 0.0], [0.6]], [[0.7, 0.3], [0.6]])
  for batches in ([b1], [b2], [b1, b2]):
    r = agg_ret.ThresholdedRetrieval(thresholds=th)
    for mt, mp, pr in batches:
      r.add(y_prob=pr, matched_true_prob=mt, matched_pred_prob=mp)
    res = r.result()
    exp = counts(batches)
    got = [list(np.asarray(res[k], dtype=float)) for k in ('precision', 'recall', 'f1_score')]
    if not S.check(mc.close(got, [list(x) for x in exp], 1e-6), dict(batches=len(batches), what='externally matched with negative sentinels'), f'ThresholdedRetrieval over {len(batches)} batch(es): {got}; counting gives {exp}', cls=f'matched-{len(batches)}'):
      return S.result()
  r1, r2 = agg_ret.ThresholdedRetrieval(thresholds=th), agg_ret.ThresholdedRetrieval(thresholds=th)
  r1.add(y_prob=b1[2], matched_true_prob=b1[0], matched_pred_prob=b1[1]); r2.add(y_prob=b2[2], matched_true_prob=b2[0], matched_pred_prob=b2[1])
  r1.merge(r2)
  got = [list(np.asarray(r1.result()[k], dtype=float)) for k in ('precision', 'recall', 'f1_score')]
  S.check(mc.close(got, [list(x) for x in counts([b1, b2])], 1e-6), dict(what='merged'), f'merged ThresholdedRetrieval {got}; counting gives {counts([b1, b2])}', cls='merged')
  # through the built-in matcher
  yt, yp, ypr = [['a', 'b'], ['c']], [['a', 'x', 'b'], ['y', 'c']], [[0.9, 0.8, 0.4], [0.7, 0.3]]
  r = agg_ret.ThresholdedRetrieval(thresholds=th); r.add(yt, yp, ypr)
  mt = [[0.9, 0.4], [0.3]]; mp = [[0.9, 0.0, 0.4], [0.0, 0.3]]
  got = [list(np.asarray(r.result()[k], dtype=float)) for k in ('precision', 'recall', 'f1_score')]
  S.check(mc.close(got, [list(x) for x in counts([(mt, mp, ypr)])], 1e-6), dict(what='built-in matcher'), f'with the built-in matcher {got}; counting gives {counts([(mt, mp, ypr)])}', cls='matcher')
  return S.result()


def _rankings(thorough):
  items = 'abcde'
  preds = [['a'], ['b', 'a'], ['c', 'd', 'a'], ['a', 'b', 'c', 'd', 'e'], ['e', 'd']]
  trues = [['a'], ['a', 'b'], ['c', 'a', 'e'], ['e']]
  rows = [(t, p) for t in trues for p in preds]
  sets = [[r] for r in rows]
  sets += [[rows[i], rows[j]] for i in range(len(rows)) for j in range(i, len(rows), 3 if not thorough else 1)]
  sets.append(rows)
  return sets


def bounded_retrieval(p):
  S = Search(p, dict(rows='ragged rankings over 5 items', k_lists='None,[1],[1,2],[1,3,5],[2,4],[5]', metrics=len(mc.RETRIEVAL_METRICS)))
  for rows in _rankings(S.thorough()):
    yt, yp = [r[0] for r in rows], [r[1] for r in rows]
    longest = max(len(x) for x in yp)
    for k_list in (None, [1], [1, 2], [1, 3, 5], [2, 4], [5]):
      got = expect(lambda: agg_ret.TopKRetrievalAggFn(metrics=mc.RETRIEVAL_METRICS, k_list=k_list)(yt, yp))
      if got[0] != 'ok':
        if not S.check(False, dict(y_true=yt, y_pred=yp, k_list=k_list), f'TopKRetrieval raised {got}'):
          return S.result()
        continue
      ks = k_list or [longest]
      for m in mc.RETRIEVAL_METRICS:
        exp = [sum(mc.retrieval_row(m, t, pr, k) for t, pr in rows) / len(rows) for k in ks]
        val = list(np.asarray(got[1][m], dtype=float).reshape(-1))
        if not S.check(mc.close(val, exp, 1e-7), dict(y_true=yt, y_pred=yp, k_list=k_list, metric=m, shortest_pred=min(len(x) for x in yp), max_k=max(ks)),
                       f'{m}@{ks} on y_true={yt} y_pred={yp}: {val}, textbook {exp}', cls=m):
          return S.result()
  return S.result()


def bounded_rolling(p):
  S = Search(p, dict(batches='1-D and 2-D with NaN patterns', metrics='count/mean/var/stddev/total, MinMaxAndCount, R2Tjur, RRegression'))
  nan = float('nan')
  cases1 = [[1.0], [1.0, 2.0, 4.0], [nan, 2.0], [nan], [3.0, nan, nan, 5.0], [0.0, 0.0]]
  for xs in cases1:
    n, mean, var = mc.col_stats(xs)
    mv = rs.MeanAndVariance().add(np.array(xs))
    got = dict(count=mv.count, mean=mv.mean, var=mv.var, stddev=mv.stddev, total=mv.total)
    exp = dict(count=n, mean=mean, var=var, stddev=math.sqrt(var) if var == var else nan, total=(mean * n if n else 0))
    if not S.check(all(mc.close(got[k], exp[k], 1e-9) for k in exp), dict(batch=xs), f'MeanAndVariance({xs}) = {got}, definition {exp}'):
      return S.result()
    one = dict(count=m_rs.count(np.array(xs)), mean=m_rs.mean(np.array(xs)), var=m_rs.var(np.array(xs)), stddev=m_rs.stddev(np.array(xs)), total=m_rs.total(np.array(xs)))
    if not S.check(all(mc.close(one[k], got[k], 1e-12) for k in got), dict(batch=xs, what='one-shot'), f'one-shot {one} vs accumulator {got}'):
      return S.result()
  cases2 = [[[1.0, nan], [3.0, nan]], [[1.0, 2.0], [3.0, 5.0], [nan, 7.0]], [[nan, nan]], [[1.0, 2.0, 3.0]]]
  for rows in cases2:
    mv = rs.MeanAndVariance().add(np.array(rows))
    for j in range(len(rows[0])):
      n, mean, var = mc.col_stats(rows, j)
      if not S.check(mc.close(mv.count[j], n) and mc.close(mv.mean[j], mean) and mc.close(mv.var[j], var), dict(batch=rows, column=j),
                     f'column {j} of {rows}: count/mean/var {mv.count[j]}/{mv.mean[j]}/{mv.var[j]}, definition {n}/{mean}/{var}'):
        return S.result()
  # MinMaxAndCount
  for xs in ([3, 1, 2], [5], [2, 2]):
    r = rs.MinMaxAndCount().add(np.array(xs))
    got = (r.min, r.max, r.count) if hasattr(r, 'min') else None
    res = rs.MinMaxAndCount(); res.add(np.array(xs)); res = res.result()
    if not S.check((res.min, res.max, res.count) == (min(xs), max(xs), len(xs)), dict(batch=xs, what='MinMaxAndCount'), f'MinMaxAndCount({xs}) = {res}'):
      return S.result()
  # Pearson correlation and Tjur R2 against their definitions
  xs, ys = [1.0, 2.0, 3.0, 5.0], [2.0, 1.0, 4.0, 6.0]
  mx, my = sum(xs) / 4, sum(ys) / 4
  r_def = sum((a - mx) * (b - my) for a, b in zip(xs, ys)) / math.sqrt(sum((a - mx) ** 2 for a in xs) * sum((b - my) ** 2 for b in ys))
  rr = rs.RRegression(); rr.add(np.array(xs), np.array(ys))
  S.check(mc.close(rr.result(), r_def, 1e-9), dict(what='RRegression'), f'RRegression = {rr.result()}, Pearson r {r_def}')
  # scale invariance: ratios of tiny (non-zero) numbers are ratios, not zero-denominator cases
  from ml_metrics._src.utils import math_utils
  for scale in (1.0, 1e-3, 1e-7, 1e-9, 1e-12):
    x, y = np.array([1.0, 2.0, 4.0]) * scale, np.array([2.0, 2.0, 1.0]) * scale
    exp = float(np.mean(2 * np.abs(x - y) / np.abs(x + y)))
    spd = rs.SymmetricPredictionDifference(); spd.add(x, y)
    if not S.check(mc.close(spd.result(), exp, 1e-9), dict(what='SymmetricPredictionDifference', scale=scale), f'SPD at scale {scale}: {spd.result()}, definition {exp}'):
      return S.result()
    got = math_utils.safe_divide(np.array([3.0 * scale, 0.0]), np.array([2.0 * scale, 0.0]))
    if not S.check(mc.close(float(got[0]), 1.5, 1e-9) and float(got[1]) == 0.0, dict(what='safe_divide', scale=scale), f'safe_divide([3s, 0], [2s, 0]) at s={scale}: {got.tolist()}'):
      return S.result()
  yt, ypd = [1, 0, 1, 0, 1], [0.9, 0.2, 0.6, 0.4, 0.7]
  pos = [p_ for t, p_ in zip(yt, ypd) if t]; neg = [p_ for t, p_ in zip(yt, ypd) if not t]
  tj = rs.R2Tjur(); tj.add(np.array(yt), np.array(ypd))
  S.check(mc.close(tj.result(), sum(pos) / len(pos) - sum(neg) / len(neg), 1e-9), dict(what='R2Tjur'), f'R2Tjur = {tj.result()}')
  return S.result()
