"""C07 native replay and bounded stand-ins (textbook values from raw examples)."""
import itertools
import math
import numpy as np
from common import Search, expect
import metrics_common as mc
from ml_metrics._src.aggregates import classification as agg_cls
from ml_metrics._src.aggregates import retrieval as agg_ret
from ml_metrics._src.aggregates import rolling_stats as rs
from ml_metrics._src.metrics import classification as m_cls
from ml_metrics._src.metrics import retrieval as m_ret
from ml_metrics._src.metrics import rolling_stats as m_rs

CM_METRICS = [m for m in mc.rates(1, 1, 1, 1)]


def _derive(metric, tp, tn, fp, fn):
  cm = agg_cls._ConfusionMatrix(tp, tn, fp, fn)
  return cm.derive_metric(agg_cls.ConfusionMatrixMetric(metric))


def replay_rate(p):
  w = p['witness']
  tp, tn, fp, fn = (int(w[k]) for k in ('tp', 'tn', 'fp', 'fn'))
  if min(tp, tn, fp, fn) < 0:
    return dict(violated=False, detail='not a count')
  exp = mc.rates(tp, tn, fp, fn)
  bad = []
  for m in CM_METRICS:
    got = expect(lambda: float(_derive(m, tp, tn, fp, fn)))
    if got[0] != 'ok' or not mc.close(got[1], exp[m]):
      bad.append((m, got, exp[m]))
  return dict(violated=bool(bad), detail=f'counts tp={tp} tn={tn} fp={fp} fn={fn}: {bad[:4]}')


def bounded_rates(p):
  N = 5 if p.get('tier') == 'thorough' else 4
  S = Search(p, dict(counts=f'0..{N} each', metrics=len(CM_METRICS)))
  if S.only and 'tp' in S.only:
    r = replay_rate(dict(witness=S.only))
    S.check(not r['violated'], S.only, r['detail'])
    return S.result()
  for tp, tn, fp, fn in itertools.product(range(N + 1), repeat=4):
    exp = mc.rates(tp, tn, fp, fn)
    for m in CM_METRICS:
      got = expect(lambda: float(_derive(m, tp, tn, fp, fn)))
      if not S.check(got[0] == 'ok' and mc.close(got[1], exp[m]), dict(tp=tp, tn=tn, fp=fp, fn=fn, metric=m),
                     f'{m}(tp={tp},tn={tn},fp={fp},fn={fn}) = {got}, textbook {exp[m]}'):
        return S.result()
    vals = {m: float(_derive(m, tp, tn, fp, fn)) for m in CM_METRICS}
    for group in mc.ALIASES:
      if not S.check(all(mc.close(vals[group[0]], vals[g]) for g in group), dict(tp=tp, tn=tn, fp=fp, fn=fn, aliases=group),
                     f'aliases {group} disagree: {[vals[g] for g in group]}'):
        return S.result()
    for m in mc.UNIT_RANGE:
      if not S.check(-1e-12 <= vals[m] <= 1 + 1e-12, dict(tp=tp, tn=tn, fp=fp, fn=fn, metric=m), f'{m} = {vals[m]} outside [0, 1]'):
        return S.result()
  return S.result()


def _datasets(thorough):
  """(input_type, y_true, y_pred, kwargs) small datasets incl. classes never predicted / never true."""
  out = []
  for n in (1, 2, 3) if not thorough else (1, 2, 3, 4):
    for yt in itertools.product([0, 1], repeat=n):
      for yp in itertools.product([0, 1], repeat=n):
        out.append(('binary', list(yt), list(yp), dict(pos_label=1)))
  out.append(('binary', ['y', 'n', 'y', 'n', 'y'], ['y', 'y', 'n', 'n', 'y'], dict(pos_label='y')))
  out.append(('binary', [1, 1, 1, 1, 1], [1, 0, 1, 0, 1], dict(pos_label=1)))
  vocab = {'a': 0, 'b': 1, 'c': 2}
  for n in (1, 2, 3):
    for yt in itertools.product('abc', repeat=n):
      for yp in itertools.product('ab', repeat=n):
        out.append(('multiclass', list(yt), list(yp), dict(vocab=vocab)))
  mo = [[], ['a'], ['b', 'a'], ['c', 'a', 'b']]
  for yt in itertools.product(mo[1:], repeat=2):
    for yp in itertools.product(mo[1:], repeat=2):
      out.append(('multiclass-multioutput', [list(x) for x in yt], [list(x) for x in yp], dict(vocab=vocab)))
  rows = [[0, 0, 1], [1, 1, 0], [1, 1, 1], [0, 0, 0]]
  for yt in itertools.product(rows, repeat=2):
    for yp in itertools.product(rows[:3], repeat=2):
      out.append(('multiclass-indicator', [list(x) for x in yt], [list(x) for x in yp], dict(pos_label=1)))
  # indicator matrices in other codings: the positive entries are those EQUAL to pos_label (not the truthy ones)
  for yt, yp in (([[0, 0, 1], [1, 1, 0]], [[1, 1, 0], [1, 0, 0]]), ([[1, 1, 1], [0, 1, 0]], [[0, 1, 0], [0, 0, 1]])):
    out.append(('multiclass-indicator', yt, yp, dict(pos_label=0)))
    out.append(('multiclass-indicator', [[2 * v - 1 for v in r] for r in yt], [[2 * v - 1 for v in r] for r in yp], dict(pos_label=1)))      # -1 / +1
    out.append(('multiclass-indicator', [['Y' if v else 'N' for v in r] for r in yt], [['Y' if v else 'N' for v in r] for r in yp], dict(pos_label='Y')))
  return out


def bounded_classification_api(p):
  S = Search(p, dict(datasets='all binary label pairs n<=3 (4 thorough), multiclass n<=3 over 3 classes, multioutput and indicator pairs of 2 rows',
                     averages='binary|micro|macro|samples', metrics=len(CM_METRICS)))
  metrics = [m for m in CM_METRICS]
  for input_type, yt, yp, kw in _datasets(S.thorough()):
    avgs = ['micro', 'macro', 'samples']
    if input_type == 'binary':
      avgs = ['binary', 'micro', 'macro']
    for avg in avgs:
      got = expect(lambda: m_cls.ClassificationAggFn(metrics, input_type=input_type, average=avg, **kw)(yt, yp))
      if got[0] != 'ok':
        if not S.check(False, dict(input_type=input_type, average=avg, y_true=yt, y_pred=yp), f'accumulator raised {got}'):
          return S.result()
        continue
      for m in metrics:
        exp = mc.classification_expected(m, yt, yp, input_type, avg, kw.get('pos_label', 1), kw.get('vocab'))
        val = got[1][m]
        if not S.check(mc.close(val, exp, 1e-7), dict(input_type=input_type, average=avg, y_true=yt, y_pred=yp, metric=m),
                       f'{m} [{input_type}, {avg}] on y_true={yt} y_pred={yp}: accumulator {val}, textbook {exp}'):
          return S.result()
      # one-shot function API == accumulator API (sampled: three functions per dataset)
      for m in ('precision', 'recall', 'f1_score', 'informedness'):
        one = expect(lambda: getattr(m_cls, m)(yt, yp, input_type=input_type, average=avg, **kw))
        if one == ('raise', 'ValueError') and input_type == 'binary' and kw.get('pos_label') not in list(yt) + list(yp):
          continue      # documented input validation: pos_label must occur in the data
        if not S.check(one[0] == 'ok' and mc.close(one[1], got[1][m], 1e-9), dict(input_type=input_type, average=avg, y_true=yt, y_pred=yp, metric=m, what='one-shot'),
                       f'one-shot {m} = {one} but accumulator {got[1][m]}'):
          return S.result()
  return S.result()


def bounded_topk_classification(p):
  """Top-k confusion-matrix metrics (k_list, also with gaps) vs the definition: predictions cut at k."""
  S = Search(p, dict(k_lists='[1],[1,2],[1,3],[3],[2,4]', input='multiclass-multioutput rankings over 4 classes, multiclass', averages='micro|macro'))
  vocab = {'a': 0, 'b': 1, 'c': 2, 'd': 3}
  yt = [['a'], ['b', 'c'], ['a', 'd'], ['c'], ['d', 'a', 'b']]
  yp = [['a', 'b', 'c'], ['c', 'a', 'b', 'd'], ['b', 'c', 'd', 'a'], ['d'], ['a', 'd', 'c']]
  metrics = ['precision', 'recall', 'f1_score', 'binary_accuracy', 'false_discovery_rate']
  for k_list in ([1], [1, 2], [1, 3], [3], [2, 4]):
    for avg in ('micro', 'macro'):
      got = expect(lambda: m_cls.ClassificationAggFn(metrics, input_type='multiclass-multioutput', average=avg, vocab=vocab, k_list=k_list)(yt, yp))
      if got[0] != 'ok':
        S.check(False, dict(k_list=k_list, average=avg), f'top-k classification raised {got}', cls='raise')
        continue
      for m in metrics:
        exp = [mc.classification_expected(m, yt, [pr[:k] for pr in yp], 'multiclass-multioutput', avg, vocab=vocab) for k in k_list]
        val = list(np.asarray(got[1][m], dtype=float).reshape(-1))
        if not S.check(mc.close(val, exp, 1e-9), dict(k_list=k_list, average=avg, metric=m), f'{m}@{k_list} ({avg}): {val}, definition with predictions cut at k {exp}', cls=f'{m}-{avg}'):
          return S.result()
  # single-output multiclass: only the first prediction exists, every k >= 1 gives the same counts
  yt1, yp1 = ['a', 'b', 'c', 'a'], ['a', 'c', 'c', 'b']
  for k_list in ([1], [2], [1, 3]):
    got = expect(lambda: m_cls.ClassificationAggFn(metrics, input_type='multiclass', average='micro', vocab=vocab, k_list=k_list)(yt1, yp1))
    for m in metrics:
      exp = [mc.classification_expected(m, yt1, yp1, 'multiclass', 'micro', vocab=vocab) for _ in k_list]
      ok = got[0] == 'ok' and mc.close(list(np.asarray(got[1][m], dtype=float).reshape(-1)), exp, 1e-9)
      if not S.check(ok, dict(k_list=k_list, input='multiclass', metric=m), f'{m}@{k_list} single-output: {got}, expected {exp}', cls=f'single-{m}'):
        return S.result()
  return S.result()


def bounded_thresholded_retrieval(p):
  """ThresholdedRetrieval precision/recall/f1 per threshold vs counting, incl. externally matched probabilities
  with negative entries (documented: filtered out), several batches and a merge."""
  S = Search(p, dict(thresholds='0, 0.5', batches='1-2, merged', sentinels='negative matched probabilities'))
  th = (0.0, 0.5)
  def counts(batches):
    tp_t, tp_p, n_t, n_p = [0, 0], [0, 0], 0, [0, 0]
    for mt, mp, pr in batches:
      kt = [x for row in mt for x in row if x >= 0]
      kp = [x for row in mp for x in row if x >= 0]
      allp = [x for row in pr for x in row]
      n_t += len(kt)
      for i, t in enumerate(th):
        tp_t[i] += sum(1 for x in kt if x > t)
        tp_p[i] += sum(1 for x in kp if x > t)
        n_p[i] += sum(1 for x in allp if x > t)
    prec = [mc.sdiv(tp_p[i], n_p[i]) for i in range(2)]
    rec = [mc.sdiv(tp_t[i], n_t) for i in range(2)]
    f1 = [mc.sdiv(2 * a * b, a + b) for a, b in zip(prec, rec)]
    return prec, rec, f1
  b1 = ([[0.9, -1.0, 0.2]], [[0.9, 0.0, 0.2, -1.0]], [[0.9, 0.8, 0.2, 0.1]])
  b2 = ([[0.7], [-1.0, 0.6]], [[0.7, 0.0], [0.6]], [[0.7, 0.3], [0.6]])
  for batches in ([b1], [b2], [b1, b2]):
    r = agg_ret.ThresholdedRetrieval(thresholds=th)
    for mt, mp, pr in batches:
      r.add(y_prob=pr, matched_true_prob=mt, matched_pred_prob=mp)
    res = r.result()
    exp = counts(batches)
    got = [list(np.asarray(res[k], dtype=float)) for k in ('precision', 'recall', 'f1_score')]
    if not S.check(mc.close(got, [list(x) for x in exp], 1e-6), dict(batches=len(batches), what='externally matched with negative sentinels'), f'ThresholdedRetrieval over {len(batches)} batch(es): {got}; counting gives {exp}', cls=f'matched-{len(batches)}'):
      return S.result()
  r1, r2 = agg_ret.ThresholdedRetrieval(thresholds=th), agg_ret.ThresholdedRetrieval(thresholds=th)
  r1.add(y_prob=b1[2], matched_true_prob=b1[0], matched_pred_prob=b1[1]); r2.add(y_prob=b2[2], matched_true_prob=b2[0], matched_pred_prob=b2[1])
  r1.merge(r2)
  got = [list(np.asarray(r1.result()[k], dtype=float)) for k in ('precision', 'recall', 'f1_score')]
  S.check(mc.close(got, [list(x) for x in counts([b1, b2])], 1e-6), dict(what='merged'), f'merged ThresholdedRetrieval {got}; counting gives {counts([b1, b2])}', cls='merged')
  # through the built-in matcher
  yt, yp, ypr = [['a', 'b'], ['c']], [['a', 'x', 'b'], ['y', 'c']], [[0.9, 0.8, 0.4], [0.7, 0.3]]
  r = agg_ret.ThresholdedRetrieval(thresholds=th); r.add(yt, yp, ypr)
  mt = [[0.9, 0.4], [0.3]]; mp = [[0.9, 0.0, 0.4], [0.0, 0.3]]
  got = [list(np.asarray(r.result()[k], dtype=float)) for k in ('precision', 'recall', 'f1_score')]
  S.check(mc.close(got, [list(x) for x in counts([(mt, mp, ypr)])], 1e-6), dict(what='built-in matcher'), f'with the built-in matcher {got}; counting gives {counts([(mt, mp, ypr)])}', cls='matcher')
  # thresholds given in any order; `metric@t` for a configured threshold t is the metric counted at t
  import itertools as _it
  ths = (0.125, 0.25, 0.5, 0.75)
  def at(batches, t):
    kt = [x for mt_, _, _ in batches for row in mt_ for x in row if x >= 0]
    kp = [x for _, mp_, _ in batches for row in mp_ for x in row if x >= 0]
    allp = [x for _, _, pr in batches for row in pr for x in row]
    prec = mc.sdiv(sum(1 for x in kp if x > t), sum(1 for x in allp if x > t))
    rec = mc.sdiv(sum(1 for x in kt if x > t), len(kt))
    return dict(precision=prec, recall=rec, f1_score=mc.sdiv(2 * prec * rec, prec + rec))
  for order in _it.permutations(ths):
    names = [f'{m}@{t}' for m in ('precision', 'recall', 'f1_score') for t in ths]
    r = agg_ret.ThresholdedRetrieval(thresholds=order, metrics=['precision', 'recall'] + names)
    for mt_, mp_, pr in (b1, b2):
      r.add(y_prob=pr, matched_true_prob=mt_, matched_pred_prob=mp_)
    res = r.result()
    rep = [float(x) for x in np.asarray(res['thresholds'], dtype=float)]
    bad = []
    for i, t in enumerate(rep):       # the per-threshold arrays are aligned with the thresholds reported next to them
      for m in ('precision', 'recall'):
        if not mc.close(float(np.asarray(res[m], dtype=float)[i]), at([b1, b2], t)[m], 1e-6):
          bad.append((m, t, float(np.asarray(res[m], dtype=float)[i]), at([b1, b2], t)[m]))
    for nme in names:
      m, t = nme.split('@')
      if not mc.close(float(res[nme]), at([b1, b2], float(t))[m], 1e-6):
        bad.append((nme, float(res[nme]), at([b1, b2], float(t))[m]))
    if not S.check(not bad, dict(what='threshold order', thresholds=list(order)), f'ThresholdedRetrieval(thresholds={order}): (metric, got, counted) {bad[:4]}', cls='threshold-order'):
      break
  return S.result()


def _occurrences(text, pat):
  """overlapping occurrences of the literal string pat in text"""
  n, i = 0, text.find(pat)
  while i >= 0:
    n, i = n + 1, text.find(pat, i + 1)
  return n


def bounded_text_frequency(p):
  """PatternFrequency / TopKWordNGrams vs their definitions computed from the raw texts: literal (not regex) patterns,
  overlapping matches, count_duplicate, first-n-gram-only, cleaning and lower-casing, ties in alphabetical order."""
  from ml_metrics._src.aggregates import text as agg_text
  S = Search(p, dict(patterns='literal strings incl. regex metacharacters', texts='<= 5 short texts, 1-2 batches', ngrams='n in 1..3, k in 1..4'))
  texts = ['abc a.c aXc', 'e.g. i.e. e.g.', 'a|b ab (x) [x] x', 'xyxyx mmmm', 'a+b a*b a?b ^a$ \\d 7', '']
  patterns = ['a.c', 'e.g.', 'a|b', '(', '[x]', 'xyx', 'mm', 'a+b', 'a*b', '^a$', '\\d', '.', 'x']
  for cd in (True, False):
    for batches in ([texts], [texts[:3], texts[3:]], [texts[:1], texts[1:]]):
      got = expect(lambda: _pattern_run(agg_text, patterns, cd, batches))
      allt = [t for b in batches for t in b]
      exp = sorted(((pt, sum((_occurrences(t, pt) if cd else int(t.find(pt) >= 0)) for t in allt) / len(allt)) for pt in patterns),
                   key=lambda x: (-x[1], x[0]))
      ok = got[0] == 'ok' and [g[0] for g in got[1]] == [e[0] for e in exp] and mc.close([g[1] for g in got[1]], [e[1] for e in exp], 1e-9)
      if not S.check(ok, dict(metric='PatternFrequency', count_duplicate=cd, batches=len(batches)),
                     f'PatternFrequency(count_duplicate={cd}) over {len(batches)} batch(es): {got}; literal counting gives {exp}', cls=f'pattern-{cd}'):
        return S.result()
  import re as _re
  wtexts = ['The cat sat. The cat ran!', 'a dog SAT, the cat sat', 'hi', 'The the the cat', 'x1y z_z 9', '']
  for n in (1, 2, 3):
    for k in (1, 2, 4):
      for first in (False, True):
        for cd in (True, False):
          for batches in ([wtexts], [wtexts[:2], wtexts[2:]]):
            def run():
              m = agg_text.TopKWordNGrams(k=k, n=n, use_first_ngram_only=first, count_duplicate=cd)
              for b in batches:
                m.add(b)
              return [(g, float(f)) for g, f in m.result()]
            got = expect(run)
            cnt = {}
            allt = [t for b in batches for t in b]
            for t in allt:
              words = ''.join(ch for ch in t if ch.isascii() and (ch.isalpha() or ch == ' ')).lower().split()
              if len(words) < n:
                continue
              grams = [' '.join(words[:n])] if first else [' '.join(words[i:i + n]) for i in range(len(words) - n + 1)]
              if not cd and not first:
                grams = sorted(set(grams))
              for g in grams:
                cnt[g] = cnt.get(g, 0) + 1
            exp = sorted(((g, c / len(allt)) for g, c in cnt.items()), key=lambda x: (-x[1], x[0]))[:k]
            ok = got[0] == 'ok' and [g[0] for g in got[1]] == [e[0] for e in exp] and mc.close([g[1] for g in got[1]], [e[1] for e in exp], 1e-9)
            if not S.check(ok, dict(metric='TopKWordNGrams', n=n, k=k, use_first_ngram_only=first, count_duplicate=cd, batches=len(batches)),
                           f'TopKWordNGrams(k={k}, n={n}, first={first}, count_duplicate={cd}): {got}; definition gives {exp}', cls=f'ngrams-{n}-{first}-{cd}'):
              return S.result()
  return S.result()


def _pattern_run(agg_text, patterns, cd, batches):
  m = agg_text.PatternFrequency(patterns=patterns, count_duplicate=cd)
  for b in batches:
    m.add(b)
  return [(g, float(f)) for g, f in m.result()]


def _rankings(thorough):
  items = 'abcde'
  preds = [['a'], ['b', 'a'], ['c', 'd', 'a'], ['a', 'b', 'c', 'd', 'e'], ['e', 'd']]
  trues = [['a'], ['a', 'b'], ['c', 'a', 'e'], ['e']]
  rows = [(t, p) for t in trues for p in preds]
  sets = [[r] for r in rows]
  sets += [[rows[i], rows[j]] for i in range(len(rows)) for j in range(i, len(rows), 3 if not thorough else 1)]
  sets.append(rows)
  return sets


def bounded_retrieval(p):
  S = Search(p, dict(rows='ragged rankings over 5 items', k_lists='None,[1],[1,2],[1,3,5],[2,4],[5]', metrics=len(mc.RETRIEVAL_METRICS)))
  for rows in _rankings(S.thorough()):
    yt, yp = [r[0] for r in rows], [r[1] for r in rows]
    longest = max(len(x) for x in yp)
    for k_list in (None, [1], [1, 2], [1, 3, 5], [2, 4], [5]):
      got = expect(lambda: agg_ret.TopKRetrievalAggFn(metrics=mc.RETRIEVAL_METRICS, k_list=k_list)(yt, yp))
      if got[0] != 'ok':
        if not S.check(False, dict(y_true=yt, y_pred=yp, k_list=k_list), f'TopKRetrieval raised {got}'):
          return S.result()
        continue
      ks = k_list or [longest]
      for m in mc.RETRIEVAL_METRICS:
        exp = [sum(mc.retrieval_row(m, t, pr, k) for t, pr in rows) / len(rows) for k in ks]
        val = list(np.asarray(got[1][m], dtype=float).reshape(-1))
        if not S.check(mc.close(val, exp, 1e-7), dict(y_true=yt, y_pred=yp, k_list=k_list, metric=m, shortest_pred=min(len(x) for x in yp), max_k=max(ks)),
                       f'{m}@{ks} on y_true={yt} y_pred={yp}: {val}, textbook {exp}', cls=m):
          return S.result()
  return S.result()


def bounded_rolling(p):
  S = Search(p, dict(batches='1-D and 2-D with NaN patterns', metrics='count/mean/var/stddev/total, MinMaxAndCount, R2Tjur, RRegression'))
  nan = float('nan')
  cases1 = [[1.0], [1.0, 2.0, 4.0], [nan, 2.0], [nan], [3.0, nan, nan, 5.0], [0.0, 0.0]]
  for xs in cases1:
    n, mean, var = mc.col_stats(xs)
    mv = rs.MeanAndVariance().add(np.array(xs))
    got = dict(count=mv.count, mean=mv.mean, var=mv.var, stddev=mv.stddev, total=mv.total)
    exp = dict(count=n, mean=mean, var=var, stddev=math.sqrt(var) if var == var else nan, total=(mean * n if n else 0))
    if not S.check(all(mc.close(got[k], exp[k], 1e-9) for k in exp), dict(batch=xs), f'MeanAndVariance({xs}) = {got}, definition {exp}'):
      return S.result()
    one = dict(count=m_rs.count(np.array(xs)), mean=m_rs.mean(np.array(xs)), var=m_rs.var(np.array(xs)), stddev=m_rs.stddev(np.array(xs)), total=m_rs.total(np.array(xs)))
    if not S.check(all(mc.close(one[k], got[k], 1e-12) for k in got), dict(batch=xs, what='one-shot'), f'one-shot {one} vs accumulator {got}'):
      return S.result()
  cases2 = [[[1.0, nan], [3.0, nan]], [[1.0, 2.0], [3.0, 5.0], [nan, 7.0]], [[nan, nan]], [[1.0, 2.0, 3.0]]]
  for rows in cases2:
    mv = rs.MeanAndVariance().add(np.array(rows))
    for j in range(len(rows[0])):
      n, mean, var = mc.col_stats(rows, j)
      if not S.check(mc.close(mv.count[j], n) and mc.close(mv.mean[j], mean) and mc.close(mv.var[j], var), dict(batch=rows, column=j),
                     f'column {j} of {rows}: count/mean/var {mv.count[j]}/{mv.mean[j]}/{mv.var[j]}, definition {n}/{mean}/{var}'):
        return S.result()
  # MinMaxAndCount
  for xs in ([3, 1, 2], [5], [2, 2]):
    r = rs.MinMaxAndCount().add(np.array(xs))
    got = (r.min, r.max, r.count) if hasattr(r, 'min') else None
    res = rs.MinMaxAndCount(); res.add(np.array(xs)); res = res.result()
    if not S.check((res.min, res.max, res.count) == (min(xs), max(xs), len(xs)), dict(batch=xs, what='MinMaxAndCount'), f'MinMaxAndCount({xs}) = {res}'):
      return S.result()
  # Pearson correlation and Tjur R2 against their definitions
  xs, ys = [1.0, 2.0, 3.0, 5.0], [2.0, 1.0, 4.0, 6.0]
  mx, my = sum(xs) / 4, sum(ys) / 4
  r_def = sum((a - mx) * (b - my) for a, b in zip(xs, ys)) / math.sqrt(sum((a - mx) ** 2 for a in xs) * sum((b - my) ** 2 for b in ys))
  rr = rs.RRegression(); rr.add(np.array(xs), np.array(ys))
  S.check(mc.close(rr.result(), r_def, 1e-9), dict(what='RRegression'), f'RRegression = {rr.result()}, Pearson r {r_def}')
  # scale invariance: ratios of tiny (non-zero) numbers are ratios, not zero-denominator cases
  from ml_metrics._src.utils import math_utils
  for scale in (1.0, 1e-3, 1e-7, 1e-9, 1e-12):
    x, y = np.array([1.0, 2.0, 4.0]) * scale, np.array([2.0, 2.0, 1.0]) * scale
    exp = float(np.mean(2 * np.abs(x - y) / np.abs(x + y)))
    spd = rs.SymmetricPredictionDifference(); spd.add(x, y)
    if not S.check(mc.close(spd.result(), exp, 1e-9), dict(what='SymmetricPredictionDifference', scale=scale), f'SPD at scale {scale}: {spd.result()}, definition {exp}'):
      return S.result()
    got = math_utils.safe_divide(np.array([3.0 * scale, 0.0]), np.array([2.0 * scale, 0.0]))
    if not S.check(mc.close(float(got[0]), 1.5, 1e-9) and float(got[1]) == 0.0, dict(what='safe_divide', scale=scale), f'safe_divide([3s, 0], [2s, 0]) at s={scale}: {got.tolist()}'):
      return S.result()
  yt, ypd = [1, 0, 1, 0, 1], [0.9, 0.2, 0.6, 0.4, 0.7]
  pos = [p_ for t, p_ in zip(yt, ypd) if t]; neg = [p_ for t, p_ in zip(yt, ypd) if not t]
  tj = rs.R2Tjur(); tj.add(np.array(yt), np.array(ypd))
  S.check(mc.close(tj.result(), sum(pos) / len(pos) - sum(neg) / len(neg), 1e-9), dict(what='R2Tjur'), f'R2Tjur = {tj.result()}')
  return S.result()


def bounded_one_shot_api(p):
  """EVERY one-shot function of metrics/classification.py and metrics/retrieval.py returns what the accumulator returns under the
  metric of the same name (whose value the other stand-ins compare with the textbook definition): documented aliases included."""
  import inspect
  S = Search(p, dict(functions='all public one-shot functions', datasets='binary / multiclass samples, ragged rankings, k-lists'))
  names = [n for n, f in inspect.getmembers(m_cls, inspect.isfunction) if f.__module__ == m_cls.__name__ and not n.startswith('_') and n != 'classification_metrics']
  data = [('binary', [1, 0, 1, 1, 0, 0, 1], [1, 1, 0, 1, 0, 1, 1], dict(pos_label=1), ['binary', 'micro', 'macro']),
          ('binary', ['y', 'n', 'y', 'n', 'y'], ['y', 'y', 'n', 'n', 'y'], dict(pos_label='y'), ['binary']),
          ('multiclass', ['a', 'b', 'c', 'a', 'b'], ['a', 'a', 'c', 'b', 'b'], dict(vocab={'a': 0, 'b': 1, 'c': 2}), ['micro', 'macro'])]
  for input_type, yt, yp, kw, avgs in data:
    for avg in avgs:
      acc = expect(lambda: m_cls.ClassificationAggFn(names, input_type=input_type, average=avg, **kw)(yt, yp))
      for n in names:
        one = expect(lambda: getattr(m_cls, n)(yt, yp, input_type=input_type, average=avg, **kw))
        ok = acc[0] == 'ok' and one[0] == 'ok' and mc.close(one[1], acc[1][n], 1e-9)
        if not S.check(ok, dict(function=n, input_type=input_type, average=avg), f'classification.{n}(...) = {one}; accumulator metric {n!r} = {acc[1].get(n) if acc[0] == "ok" else acc}', cls=f'cls-{n}'):
          break
  rnames = [n for n, f in inspect.getmembers(m_ret, inspect.isfunction) if f.__module__ == m_ret.__name__ and not n.startswith('_') and n != 'topk_retrieval_metrics']
  yt = [['a'], ['a', 'b'], ['c', 'a', 'e'], ['e']]
  yp = [['b', 'a'], ['c', 'd', 'a'], ['a', 'b', 'c', 'd', 'e'], ['e', 'd']]
  for k_list in (None, [1], [1, 3], [2, 5]):
    acc = expect(lambda: agg_ret.TopKRetrievalAggFn(metrics=rnames, k_list=k_list)(yt, yp))
    for n in rnames:
      one = expect(lambda: getattr(m_ret, n)(yt, yp, k_list=k_list))
      ok = acc[0] == 'ok' and one[0] == 'ok' and mc.close(list(np.asarray(one[1], dtype=float).reshape(-1)), list(np.asarray(acc[1][n], dtype=float).reshape(-1)), 1e-9)
      if not S.check(ok, dict(function=n, k_list=k_list), f'retrieval.{n}(k_list={k_list}) = {one}; accumulator metric {n!r} = {acc[1].get(n) if acc[0] == "ok" else acc}', cls=f'ret-{n}'):
        break
  # documented aliases
  al = [('ppv', 'precision'), ('positive_predictive_value', 'precision'), ('sensitivity', 'recall'), ('tpr', 'recall'), ('tnr', 'specificity'),
        ('fpr', 'fall_out'), ('fnr', 'miss_rate'), ('nvp', 'negative_prediction_value')]
  input_type, y1, y2, kw, _ = data[0]
  for a, b in al:
    va, vb = expect(lambda: getattr(m_cls, a)(y1, y2, **kw)), expect(lambda: getattr(m_cls, b)(y1, y2, **kw))
    S.check(va[0] == 'ok' and vb[0] == 'ok' and mc.close(va[1], vb[1], 1e-12), dict(alias=a, of=b), f'{a} = {va} but {b} = {vb}', cls=f'alias-{a}')
  for a, b in (('ppv', 'precision'), ('positive_predictive_value', 'precision'), ('sensitivity', 'recall'), ('tpr', 'recall')):
    va, vb = expect(lambda: getattr(m_ret, a)(yt, yp, k_list=[1, 3])), expect(lambda: getattr(m_ret, b)(yt, yp, k_list=[1, 3]))
    S.check(va[0] == 'ok' and vb[0] == 'ok' and mc.close(list(va[1]), list(vb[1]), 1e-12), dict(alias=a, of=b, api='retrieval'), f'retrieval {a} = {va} but {b} = {vb}', cls=f'ralias-{a}')
  return S.result()


def bounded_signals(p):
  """signals/: flip masks, cross entropies, top-k accuracy vs their definitions on small arrays."""
  from ml_metrics._src.signals import flip_masks, cross_entropy, topk_accuracy
  S = Search(p, dict(arrays='all pairs over 5 values, 3 thresholds', probabilities='grids in (0,1)', classes='<= 4'))
  vals = [0.0, 0.2, 0.5, 0.7, 1.0]
  for t in (0.2, 0.5, 0.9):
    base = np.array([a for a in vals for _ in vals]); model = np.array([b for _ in vals for b in vals])
    exp = dict(binary_flip_mask=[int((a > t) != (b > t)) for a, b in zip(base, model)],
               neg_to_pos_flip_mask=[int(a <= t < b) for a, b in zip(base, model)],
               pos_to_neg_flip_mask=[int(a > t >= b) for a, b in zip(base, model)])
    for name, e in exp.items():
      got = expect(lambda: [int(x) for x in getattr(flip_masks, name)(base, model, threshold=t)])
      if not S.check(got == ('ok', e), dict(fn=name, threshold=t), f'{name}(threshold={t}) = {got}; definition {e}', cls=name):
        break
  for a in (0, 1):
    for b in (0, 1):
      got = (expect(lambda: int(flip_masks.binary_flip_mask(a, b))), expect(lambda: bool(flip_masks.neg_to_pos_flip_mask(a, b))), expect(lambda: bool(flip_masks.pos_to_neg_flip_mask(a, b))))
      e = (('ok', int(a != b)), ('ok', (not a) and bool(b)), ('ok', bool(a) and not b))
      S.check(got == e, dict(fn='flip masks on labels', base=a, model=b), f'labels ({a},{b}): {got}; definition {e}', cls='labels')
  grid = [0.1, 0.3, 0.5, 0.9]
  for yt in itertools.product([0, 1], repeat=3):
    for ypr in itertools.product(grid, repeat=3):
      e = -sum(y * math.log(q) + (1 - y) * math.log(1 - q) for y, q in zip(yt, ypr)) / 3
      got = expect(lambda: float(cross_entropy.binary_cross_entropy(np.array(yt), np.array(ypr))))
      if not S.check(got[0] == 'ok' and mc.close(got[1], e, 1e-9), dict(fn='binary_cross_entropy', y_true=list(yt), y_pred=list(ypr)), f'binary_cross_entropy = {got}; definition {e}', cls='bce'):
        break
      tot = sum(ypr)
      e2 = -sum(y * math.log(q / tot) for y, q in zip(yt, ypr))
      got = expect(lambda: float(cross_entropy.categorical_cross_entropy(np.array(yt), np.array(ypr))))
      if not S.check(got[0] == 'ok' and mc.close(got[1], e2, 1e-9), dict(fn='categorical_cross_entropy', y_true=list(yt), y_pred=list(ypr)), f'categorical_cross_entropy = {got}; definition {e2}', cls='cce'):
        break
  got = expect(lambda: cross_entropy.binary_cross_entropy(np.array([0, 2]), np.array([0.5, 0.5])))
  S.check(got == ('raise', 'ValueError'), dict(fn='binary_cross_entropy', what='labels other than 0/1 are rejected'), f'labels [0, 2]: {got}', cls='bce-validate')
  scores = [0.1, 0.4, 0.2, 0.3]
  for perm in itertools.permutations(scores):
    for w in (1.0, [1.0, 0.5, 2.0, 1.0]):
      weighted = [s * (w if isinstance(w, float) else w[i]) for i, s in enumerate(perm)]
      for k in (1, 2, 3):
        for label in range(4):
          e = sorted(range(4), key=lambda i: weighted[i])[-k:]
          if len(set(weighted)) < 4:
            continue       # ties: the order of argsort is not part of the definition
          got = expect(lambda: bool(topk_accuracy.topk_accurate(np.array(perm), label, weights=w, k=k)))
          if not S.check(got == ('ok', label in e), dict(fn='topk_accurate', y_pred=list(perm), label=label, k=k, weights=w), f'topk_accurate = {got}; definition {label in e}', cls='topk'):
            return S.result()
  return S.result()


def bounded_histograms(p):
  """Histogram / CalibrationHistogram / Counter vs bucket counting from the raw values: all bins but the right-most are
  half-open, the right-most includes its upper edge, values outside the range are ignored; several batches."""
  S = Search(p, dict(values='grids incl. bin edges and out-of-range values', bins='3-5 equal bins, explicit edges', batches='1-2'))
  def bucket(x, edges):
    if x < edges[0] or x > edges[-1]:
      return None
    for b in range(len(edges) - 1):
      if edges[b] <= x < edges[b + 1]:
        return b
    return len(edges) - 2        # x == last edge
  vals = [0.0, 0.1, 0.25, 0.5, 0.5, 0.75, 0.99, 1.0, -0.2, 1.3]
  for bins, rng in ((4, (0, 1)), (5, (0, 1)), (3, (0.0, 0.75)), ((0.0, 0.3, 0.5, 1.0), None)):
    edges = list(np.linspace(rng[0], rng[1], bins + 1)) if isinstance(bins, int) else list(bins)
    for batches in ([vals], [vals[:4], vals[4:]], [vals[:1], vals[1:]]):
      for weighted in (False, True):
        h = rs.Histogram(range=rng, bins=bins)
        exp = [0.0] * (len(edges) - 1)
        for b in batches:
          w = [1.0 + 0.5 * i for i in range(len(b))] if weighted else None
          h.add(np.array(b), np.array(w)) if weighted else h.add(np.array(b))
          for i, x in enumerate(b):
            k = bucket(x, edges)
            if k is not None:
              exp[k] += w[i] if weighted else 1
        got = expect(lambda: [float(x) for x in h.result().hist])
        if not S.check(got[0] == 'ok' and mc.close(got[1], exp, 1e-9), dict(metric='Histogram', bins=str(bins), range=str(rng), batches=len(batches), weighted=weighted),
                       f'Histogram(bins={bins}, range={rng}) over {batches}: {got}; bucket counting {exp}', cls='histogram'):
          return S.result()
  labels = [0.0, 1.0, 1.0, 0.0, 1.0, 0.0]
  preds = [0.1, 0.9, 0.5, 0.25, 1.0, 0.0]
  for bins in (2, 4, 5):
    edges = list(np.linspace(0, 1, bins + 1))
    for batches in ([(labels, preds)], [(labels[:2], preds[:2]), (labels[2:], preds[2:])]):
      c = m_cls.CalibrationHistogram(bins=bins)
      n, hl, hp = [0.0] * bins, [0.0] * bins, [0.0] * bins
      for l, q in batches:
        c.add(np.array(l), np.array(q))
        for x in list(l) + list(q):
          n[bucket(x, edges)] += 1
        for x in l:
          hl[bucket(x, edges)] += x
        for x in q:
          hp[bucket(x, edges)] += x
      r = c.result()
      got = [[float(x) for x in r.num_examples_hist], [float(x) for x in r.labels_hist], [float(x) for x in r.predictions_hist]]
      if not S.check(mc.close(got, [n, hl, hp], 1e-9), dict(metric='CalibrationHistogram', bins=bins, batches=len(batches)),
                     f'CalibrationHistogram(bins={bins}): {got}; bucket counting {[n, hl, hp]}', cls='calibration'):
        return S.result()
  items = ['a', 'b', 'a', 'c', 'a', 'b', 7, 7]
  for batches in ([items], [items[:3], items[3:]], [[], items]):
    c = rs.Counter()
    for b in batches:
      c.add(b)
    exp = {}
    for x in items:
      exp[x] = exp.get(x, 0) + 1
    S.check(dict(c.result()) == exp, dict(metric='Counter', batches=len(batches)), f'Counter over {batches}: {dict(c.result())}; counting {exp}', cls='counter')
  return S.result()
