"""Independent (brute-force, plain Python) oracles for the metric stand-ins."""
import math


def sdiv(a, b):
  return a / b if b != 0 else 0.0


def rates(tp, tn, fp, fn):
  """Textbook definitions over the four counts (0 when a denominator is 0)."""
  tpr, tnr = sdiv(tp, tp + fn), sdiv(tn, tn + fp)
  fpr, fnr = sdiv(fp, fp + tn), sdiv(fn, fn + tp)
  ppv, npv = sdiv(tp, tp + fp), sdiv(tn, tn + fn)
  tot = tp + tn + fp + fn
  out = {
      'precision': ppv, 'ppv': ppv, 'positive_predictive_value': ppv,
      'recall': tpr, 'sensitivity': tpr, 'tpr': tpr,
      'specificity': tnr, 'tnr': tnr, 'fall_out': fpr, 'fpr': fpr, 'miss_rate': fnr, 'fnr': fnr,
      'negative_prediction_value': npv, 'nvp': npv,
      'false_discovery_rate': sdiv(fp, fp + tp), 'false_omission_rate': sdiv(fn, fn + tn),
      'threat_score': sdiv(tp, tp + fn + fp), 'intersection_over_union': sdiv(tp, tp + fn + fp),
      'binary_accuracy': sdiv(tp + tn, tot), 'prevalence': sdiv(tp + fn, tot),
      'f1_score': sdiv(2 * tp, 2 * tp + fp + fn),
      'positive_likelihood_ratio': sdiv(tpr, fpr), 'negative_likelihood_ratio': sdiv(fnr, tnr),
      'informedness': tpr + tnr - 1, 'markedness': ppv + npv - 1, 'balanced_accuracy': (tpr + tnr) / 2,
      'matthews_correlation_coefficient': sdiv(tp * tn - fp * fn, math.sqrt((tp + fp) * (tp + fn) * (tn + fp) * (tn + fn))),
  }
  out['diagnostic_odds_ratio'] = sdiv(out['positive_likelihood_ratio'], out['negative_likelihood_ratio'])
  # PT = (sqrt(TPR (1 - TNR)) + TNR - 1) / (TPR + TNR - 1), 0 when the denominator is 0 (a chance-level classifier)
  out['prevalence_threshold'] = sdiv(math.sqrt(tpr * (1 - tnr)) + tnr - 1, tpr + tnr - 1)
  return out


ALIASES = [('precision', 'ppv', 'positive_predictive_value'), ('recall', 'sensitivity', 'tpr'), ('specificity', 'tnr'),
           ('fall_out', 'fpr'), ('miss_rate', 'fnr'), ('negative_prediction_value', 'nvp'),
           ('threat_score', 'intersection_over_union')]
UNIT_RANGE = ['precision', 'recall', 'specificity', 'fall_out', 'miss_rate', 'negative_prediction_value',
              'false_discovery_rate', 'false_omission_rate', 'threat_score', 'binary_accuracy', 'prevalence',
              'f1_score', 'balanced_accuracy']


def close(a, b, tol=1e-9):
  try:
    if isinstance(a, (list, tuple)) or hasattr(a, '__len__') and not isinstance(a, (str, bytes, dict)):
      a, b = list(a), list(b)
      return len(a) == len(b) and all(close(x, y, tol) for x, y in zip(a, b))
  except TypeError:
    pass
  if isinstance(a, dict):
    return isinstance(b, dict) and a.keys() == b.keys() and all(close(a[k], b[k], tol) for k in a)
  try:
    fa, fb = float(a), float(b)
  except (TypeError, ValueError):
    return a == b
  if math.isnan(fa) or math.isnan(fb):
    return math.isnan(fa) and math.isnan(fb)
  if math.isinf(fa) or math.isinf(fb):
    return fa == fb
  return abs(fa - fb) <= tol * max(1.0, abs(fa), abs(fb))


def class_counts(y_true, y_pred, input_type, pos_label=1, vocab=None):
  """Per-class (tp, tn, fp, fn) from the raw examples; returns (classes, counts dict)."""
  n = len(y_true)
  if input_type == 'binary':
    classes = ['pos', 'neg']
    t = [[y == pos_label, y != pos_label] for y in y_true]
    p = [[y == pos_label, y != pos_label] for y in y_pred]
  elif input_type == 'multiclass-indicator':
    classes = list(range(len(y_true[0]))) if n else []
    t = [[v == pos_label for v in row] for row in y_true]
    p = [[v == pos_label for v in row] for row in y_pred]
  else:
    classes = sorted(vocab, key=lambda c: vocab[c])
    if input_type == 'multiclass':
      t = [[c == y for c in classes] for y in y_true]
      p = [[c == y for c in classes] for y in y_pred]
    else:
      t = [[c in row for c in classes] for row in y_true]
      p = [[c in row for c in classes] for row in y_pred]
  counts = []
  for j in range(len(classes)):
    tp = sum(1 for i in range(n) if t[i][j] and p[i][j])
    fp = sum(1 for i in range(n) if not t[i][j] and p[i][j])
    fn = sum(1 for i in range(n) if t[i][j] and not p[i][j])
    tn = sum(1 for i in range(n) if not t[i][j] and not p[i][j])
    counts.append((tp, tn, fp, fn))
  return classes, counts, t, p


def classification_expected(metric, y_true, y_pred, input_type, average, pos_label=1, vocab=None):
  classes, counts, t, p = class_counts(y_true, y_pred, input_type, pos_label, vocab)
  if average == 'binary':
    return rates(*counts[0])[metric]
  if average == 'micro':
    tot = [sum(c[i] for c in counts) for i in range(4)]
    return rates(*tot)[metric]
  if average == 'macro':
    vals = [rates(*c)[metric] for c in counts]
    return sum(vals) / len(vals)
  if average == 'samples':
    vals = []
    for i in range(len(y_true)):
      tp = sum(1 for j in range(len(classes)) if t[i][j] and p[i][j])
      fp = sum(1 for j in range(len(classes)) if not t[i][j] and p[i][j])
      fn = sum(1 for j in range(len(classes)) if t[i][j] and not p[i][j])
      tn = sum(1 for j in range(len(classes)) if not t[i][j] and not p[i][j])
      vals.append(rates(tp, tn, fp, fn)[metric])
    return sum(vals) / len(vals) if vals else float('nan')
  raise ValueError(average)


# ---- retrieval: per-row textbook definitions at cut-off k -----------------------------------------
def retrieval_row(metric, true, pred, k):
  """Value of a top-k retrieval metric for one example (k = cut-off)."""
  kk = min(k, len(pred))
  top = pred[:kk]
  hits = [1 if x in true else 0 for x in top]
  tp = sum(hits)
  if metric == 'accuracy':
    return 1.0 if tp > 0 else 0.0
  if metric in ('precision', 'ppv', 'positive_predictive_value'):
    return tp / kk
  if metric in ('recall', 'sensitivity', 'tpr'):
    return tp / len(true)
  if metric == 'miss_rate':
    return 1 - tp / len(true)
  if metric == 'false_discovery_rate':
    return 1 - tp / kk
  if metric == 'intersection_over_union':
    return tp / (kk + len(true) - tp)
  if metric == 'f1_score':
    pr, rc = tp / kk, tp / len(true)
    return sdiv(2 * pr * rc, pr + rc)
  if metric == 'fowlkes_mallows_index':
    return math.sqrt((tp / kk) * (tp / len(true)))
  if metric == 'mean_reciprocal_rank':
    for i, h in enumerate(hits):
      if h:
        return 1.0 / (i + 1)
    return 0.0
  if metric == 'mean_average_precision':
    s = sum((sum(hits[:i + 1]) / (i + 1)) for i in range(kk) if hits[i])
    return s / min(k, len(true))
  if metric == 'dcg_score':
    return sum(1.0 / math.log2(i + 2) for i in range(kk) if hits[i])
  if metric == 'ndcg_score':
    dcg = sum(1.0 / math.log2(i + 2) for i in range(kk) if hits[i])
    ideal = sum(1.0 / math.log2(i + 2) for i in range(min(k, len(true))))
    return dcg / ideal
  raise KeyError(metric)


RETRIEVAL_METRICS = ['accuracy', 'precision', 'ppv', 'positive_predictive_value', 'recall', 'sensitivity', 'tpr',
                     'miss_rate', 'false_discovery_rate', 'intersection_over_union', 'f1_score',
                     'fowlkes_mallows_index', 'mean_reciprocal_rank', 'mean_average_precision', 'dcg_score', 'ndcg_score']


# ---- rolling statistics ------------------------------------------------------------------------------
def col_stats(rows, j=None):
  """count / mean / population variance of the non-NaN entries (of column j)."""
  xs = [(r if j is None else r[j]) for r in rows]
  xs = [x for x in xs if not (isinstance(x, float) and math.isnan(x))]
  n = len(xs)
  if n == 0:
    return 0, float('nan'), float('nan')
  m = sum(xs) / n
  return n, m, sum((x - m) ** 2 for x in xs) / n
