"""C08 native bounded stand-in: operator chains vs a reference interpreter."""
import copy
import itertools
from common import Search, expect
from ml_metrics._src.chainables import transform, tree
from ml_metrics._src.chainables.tree import Key


class Sink:
  def __init__(self):
    self.seen, self.closed = [], 0
  def write(self, *a, **k):
    self.seen.append((copy.deepcopy(a), copy.deepcopy(k)))
  def close(self):
    self.closed += 1


def f_sum(a, b):
  return a + b


def f_neg(x):
  return -x


def f_two(a):
  return a + 1, a + 2


def f_kw(x=0, y=0):
  return 10 * x + y


def _alphabet():
  """(name, needs keys, build(t, sinks) -> t', ref(record) -> record | None (dropped), new keys | 'scalar')."""
  A = []
  A.append(('select(a,b)', {'a', 'b'}, lambda t, s: t.select(('a', 'b')), lambda r: {'a': r['a'], 'b': r['b']}, lambda ks: {'a', 'b'}))
  A.append(('select(a->z)', {'a'}, lambda t, s: t.select('a', output_keys='z'), lambda r: {'z': r['a']}, lambda ks: {'z'}))
  A.append(('select(a->0)', {'a'}, lambda t, s: t.select('a', output_keys=0), lambda r: {0: r['a']}, lambda ks: {0}))
  A.append(('select(a->Index 0)', {'a'}, lambda t, s: t.select('a', output_keys=Key.Index(0)), lambda r: [r['a']], lambda ks: set()))
  A.append(('assign(0 = neg a)', {'a'}, lambda t, s: t.assign(0, fn=f_neg, input_keys='a'), lambda r: {**r, 0: -r['a']}, lambda ks: ks | {0}))
  A.append(('apply(sum a,b -> c)', {'a', 'b'}, lambda t, s: t.apply(fn=f_sum, input_keys=('a', 'b'), output_keys='c'), lambda r: {'c': r['a'] + r['b']}, lambda ks: {'c'}))
  A.append(('apply(kwargs x=a,y=b -> c)', {'a', 'b'}, lambda t, s: t.apply(fn=f_kw, input_keys=dict(x='a', y='b'), output_keys='c'), lambda r: {'c': 10 * r['a'] + r['b']}, lambda ks: {'c'}))
  A.append(('apply(two a -> (d,e))', {'a'}, lambda t, s: t.apply(fn=f_two, input_keys='a', output_keys=('d', 'e')), lambda r: {'d': r['a'] + 1, 'e': r['a'] + 2}, lambda ks: {'d', 'e'}))
  A.append(('apply(two a -> (SKIP,h))', {'a'}, lambda t, s: t.apply(fn=f_two, input_keys='a', output_keys=(Key.SKIP, 'h')), lambda r: {'h': r['a'] + 2}, lambda ks: {'h'}))
  A.append(('assign(c = sum a,b)', {'a', 'b'}, lambda t, s: t.assign('c', fn=f_sum, input_keys=('a', 'b')), lambda r: dict(r, c=r['a'] + r['b']), lambda ks: ks | {'c'}))
  A.append(('assign((d,e) = two a)', {'a'}, lambda t, s: t.assign(('d', 'e'), fn=f_two, input_keys='a'), lambda r: dict(r, d=r['a'] + 1, e=r['a'] + 2), lambda ks: ks | {'d', 'e'}))
  A.append(('assign(n.x = neg a)', {'a'}, lambda t, s: t.assign(Key().n.x, fn=f_neg, input_keys='a'),
            lambda r: dict(r, n=dict(r.get('n', {}), x=-r['a'])), lambda ks: ks | {'n', 'n.x'}))
  A.append(('assign((t, n.x) = two a)', {'a'}, lambda t, s: t.assign(('t', Key().n.x), fn=f_two, input_keys='a'),
            lambda r: dict(r, t=r['a'] + 1, n=dict(r.get('n', {}), x=r['a'] + 2)), lambda ks: ks | {'t', 'n', 'n.x'}))
  A.append(('assign(SKIP,g = two a)', {'a'}, lambda t, s: t.assign((Key.SKIP, 'g'), fn=f_two, input_keys='a'), lambda r: dict(r, g=r['a'] + 2), lambda ks: ks | {'g'}))
  A.append(('filter(a odd)', {'a'}, lambda t, s: t.filter(lambda a: a % 2 == 1, input_keys='a'), lambda r: r if r['a'] % 2 == 1 else None, lambda ks: ks))
  A.append(('sink(a)', {'a'}, lambda t, s: t.sink(s, input_keys='a'), lambda r: r, lambda ks: ks))
  return A


def _records():
  return [{'a': 1, 'b': 10, 'n': {'y': 7}}, {'a': 2, 'b': 20, 'n': {'y': 8}}, {'a': 3, 'b': 30, 'n': {'y': 9}}]


def bounded_operator_chains(p):
  S = Search(p, dict(chains='all sequences of <=3 operators from 15 (select/apply/assign/filter/sink with tuple, dict/kwargs, nested-path, SKIP keys)',
                     stream='3 dict records with a nested value', fused_vs_named='both', threads='0'))
  alpha = _alphabet()
  for n in range(1, 4):
    for chain in itertools.product(alpha, repeat=n):
      keys = {'a', 'b', 'n'}
      ok_chain = True
      names = []
      for name, needs, build, ref, newkeys in chain:
        if not needs <= keys or (name.startswith('assign') and (newkeys(keys) - keys) == set()):
          ok_chain = False
          break
        if name.startswith('assign') and any(k in keys for k in (newkeys(set()) - {'n'})):
          ok_chain = False
          break
        keys = newkeys(keys)
        names.append(name)
      if not ok_chain or names.count('sink(a)') > 1:
        continue
      for named in (False, True):
        sink = Sink()
        def build_all():
          t = transform.TreeTransform()
          for i, (name, needs, build, ref, newkeys) in enumerate(chain):
            if named and i:
              t = transform.TreeTransform(name=f'stage{i}', input_transform=t)
            t = build(t, sink)
          return t
        recs = _records()
        before = copy.deepcopy(recs)
        got = expect(lambda: list(build_all().make().iterate(recs)))
        exp, sink_exp = [], []
        cur = [copy.deepcopy(r) for r in before]
        for name, needs, build, ref, newkeys in chain:
          nxt = []
          for r in cur:
            if name == 'sink(a)':
              sink_exp.append(((r['a'],), {}))
            o = ref(r)
            if o is not None:
              nxt.append(o)
          cur = nxt
        w = dict(chain=names, named_stages=named)
        if not S.check(got == ('ok', cur), w, f'{names} (named stages={named}): {got}; reference {cur}', cls='route'):
          return S.result()
        if not S.check(recs == before, w, f'{names}: the caller\'s input records were modified: {recs}', cls='input-mutated'):
          return S.result()
        if 'sink(a)' in names:
          if not S.check(sink.seen == sink_exp and sink.closed >= 1, w, f'{names}: sink saw {sink.seen} (expected {sink_exp}), closed {sink.closed} time(s)', cls='sink'):
            return S.result()
  return S.result()


def bounded_chain_api(p):
  """t1.chain(t2): same name -> fused into one stage, different names -> a chain of named stages; both must route
  exactly like applying the operators of t1 then those of t2."""
  S = Search(p, dict(pairs='all ordered pairs of single-operator transforms from the alphabet (valid key-wise)', naming='same name (fuse) / different names (chain)'))
  alpha = _alphabet()
  for (n1, need1, b1, r1, k1), (n2, need2, b2, r2, k2) in itertools.product(alpha, repeat=2):
    keys = {'a', 'b', 'n'}
    if not need1 <= keys:
      continue
    keys1 = k1(keys)
    if not need2 <= keys1 or (n2.startswith('assign') and any(k in keys1 for k in (k2(set()) - {'n'}))) or (n1 == n2 == 'sink(a)'):
      continue
    for same_name in (True, False):
      sink = Sink()
      def build():
        t1 = b1(transform.TreeTransform(name='s'), sink)
        t2 = b2(transform.TreeTransform(name='s' if same_name else 't'), sink)
        return t1.chain(t2)
      recs = _records()
      got = expect(lambda: list(build().make().iterate(recs)))
      cur = [copy.deepcopy(r) for r in _records()]
      for ref in (r1, r2):
        cur = [o for o in (ref(r) for r in cur) if o is not None]
      if not S.check(got == ('ok', cur), dict(first=n1, second=n2, same_name=same_name), f'{n1} .chain( {n2} ) (same name={same_name}): {got}; reference {cur}', cls=f'chain-{same_name}'):
        return S.result()
  # chaining a transform that already has an input or a data source, or a duplicate stage name, is rejected
  T = transform.TreeTransform
  bad = [('child with data source', lambda: T(name='a').apply(fn=f_neg, input_keys='a').chain(T(name='b').data_source([1]))),
         ('duplicate stage name', lambda: T(name='a').apply(fn=f_neg, input_keys='a').chain(T(name='b').apply(fn=f_neg)).chain(T(name='a').apply(fn=f_neg)))]
  for name, mk in bad:
    got = expect(mk)
    S.check(got[0] == 'raise', dict(case=name), f'{name}: {got[0]}', cls=name)
  return S.result()


def bounded_reserved_names(p):
  """A column that is literally called 'SELF' or 'SKIP' is an ordinary column: only Key.SELF / Key.SKIP are reserved."""
  S = Search(p, dict(columns="'SELF', 'SKIP' next to ordinary ones, also nested", operators='select / apply / assign / filter'))
  T = transform.TreeTransform
  for name in ('SELF', 'SKIP'):
    recs = lambda: [{name: 1, 'a': 10, 'sub': {name: 5}}, {name: 0, 'a': 20, 'sub': {name: 6}}]
    cases = [
        (f'select({name!r})', lambda: T().select(name), lambda r: {name: r[name]}),
        (f'apply(neg, {name!r})', lambda: T().apply(fn=f_neg, input_keys=name), lambda r: -r[name]),
        (f'assign(x = neg({name!r}))', lambda: T().assign('x', fn=f_neg, input_keys=name), lambda r: dict(r, x=-r[name])),
        (f'filter(truthy({name!r}))', lambda: T().filter(fn=bool, input_keys=name), lambda r: r if r[name] else None),
        (f'select(sub.{name})', lambda: T().select(tree.Key.new('sub', name)), lambda r: {'sub': {name: r['sub'][name]}}),
        (f'assign({name!r} = neg(a))', lambda: T().assign(name, fn=f_neg, input_keys='a'), lambda r: dict(r, **{name: -r['a']})),
    ]
    for label, build, ref in cases:
      got = expect(lambda: list(build().make().iterate(recs())))
      exp = [o for o in (ref(r) for r in recs()) if o is not None]
      if not S.check(got == ('ok', exp), dict(case=label), f'{label}: {got}; reference {exp}', cls=label):
        return S.result()
  return S.result()


def bounded_sink_on_failure(p):
  """A fault mid-stream: the error reaches the caller and every sink is still closed (the properties say closed at the end: a repeated, idempotent close is not an alarm)."""
  S = Search(p, dict(failing_record='each of 4', sink_position='before / after the failing operator', named_stages='yes/no'))
  for bad in range(4):
    for sink_first in (True, False):
      for named in (False, True):
        sink = Sink()
        def boom(a, bad=bad):
          if a == bad:
            raise RuntimeError('operator failed')
          return a
        def run():
          t = transform.TreeTransform()
          if sink_first:
            t = t.sink(sink, input_keys='a')
            if named:
              t = transform.TreeTransform(name='s2', input_transform=t)
            t = t.assign('c', fn=boom, input_keys='a')
          else:
            t = t.assign('c', fn=boom, input_keys='a')
            if named:
              t = transform.TreeTransform(name='s2', input_transform=t)
            t = t.sink(sink, input_keys='a')
          return list(t.make().iterate([{'a': i} for i in range(4)]))
        got = expect(run)
        closed_at_once = sink.closed
        import gc
        gc.collect()
        if not S.check(sink.closed >= 1, dict(failing_record=bad, sink_first=sink_first, named_stages=named, what='closed after garbage collection', closed=sink.closed),
                       f'record {bad} fails (sink_first={sink_first}, named={named}): even after gc.collect() the sink was closed {sink.closed} time(s)', cls=f'sink-gc-{sink_first}-{named}-{bad}'):
          return S.result()
        sink.closed = closed_at_once
        n_seen = bad + 1 if sink_first else bad
        ok = got[0] == 'raise' and sink.closed >= 1 and [x[0][0] for x in sink.seen] == list(range(n_seen))
        if not S.check(ok, dict(failing_record=bad, sink_first=sink_first, named_stages=named, closed=sink.closed, run=got[0]),
                       f'record {bad} fails (sink_first={sink_first}, named={named}): run {got}, sink saw {[x[0][0] for x in sink.seen]}, closed {sink.closed} time(s)', cls=f'sink-close-upstream={sink_first}-named={named}-bad={bad}'):
          return S.result()
  return S.result()


def bounded_filter_skip(p):
  """filter with error skipping: a predicate that raises drops only that record, the others keep their own verdict."""
  S = Search(p, dict(records=6, failing='every subset of <=2 records', predicate='even value'))
  n = 6
  for k in range(0, 3):
    for bad in itertools.combinations(range(n), k):
      def pred(v, bad=bad):
        if v in bad:
          raise ValueError('predicate failed')
        return v % 2 == 0
      recs = [{'id': i, 'v': i} for i in range(n)]
      got = expect(lambda: list(transform.TreeTransform().filter(pred, input_keys='v').make().iterate(recs, ignore_error=True)))
      exp = [r for r in recs if r['v'] not in bad and r['v'] % 2 == 0]
      if not S.check(got == ('ok', exp), dict(failing=list(bad)), f'filter(even) with failing records {bad}: {got}; expected {exp}', cls=f'filter-skip-{k}'):
        return S.result()
  return S.result()


def bounded_key_validation(p):
  """Invalid key combinations are rejected when the pipeline is built."""
  S = Search(p, dict(cases='duplicate assign keys (plain, tuple, dict keys), SELF mixed with other keys, assign without keys, valid controls'))
  T = transform.TreeTransform
  bad = [
      ('assign same key twice', lambda: T().assign('c', fn=f_neg, input_keys='a').assign('c', fn=f_neg, input_keys='a')),
      ('assign key inside a tuple twice', lambda: T().assign(('c', 'd'), fn=f_two, input_keys='a').assign('d', fn=f_neg, input_keys='a')),
      ('assign dict output key duplicates', lambda: T().assign('c', fn=f_neg, input_keys='a').assign(dict(c='x'), fn=lambda a: {'x': a}, input_keys='a')),
      ('assign SELF after a key', lambda: T().assign('c', fn=f_neg, input_keys='a').assign(Key.SELF, fn=f_neg, input_keys='a')),
      ('assign key after apply output of the same key', lambda: T().apply(fn=f_neg, input_keys='a', output_keys='c').assign('c', fn=f_neg, input_keys='c')),
      ('assign without keys', lambda: T().assign(fn=f_neg, input_keys='a')),
      ('dict-form assign whose WRITTEN key duplicates an earlier key', lambda: T().assign('score', fn=f_neg, input_keys='a').assign(dict(score='hi', low='lo'), fn=lambda a: {'hi': a, 'lo': -a}, input_keys='a')),
      ('fn_batch_size without batch_size', lambda: T().apply(fn=f_neg, input_keys='a', fn_batch_size=2)),
  ]
  good = [
      ('assign two different keys', lambda: T().assign('c', fn=f_neg, input_keys='a').assign('d', fn=f_neg, input_keys='a')),
      ('dict-form assign whose SOURCE name equals an existing key', lambda: T().assign('hi', fn=f_neg, input_keys='a').assign(dict(top='hi'), fn=lambda a: {'hi': a}, input_keys='a')),
      ('apply resets the key set', lambda: T().assign('c', fn=f_neg, input_keys='a').apply(fn=f_neg, input_keys='c', output_keys='z').assign('c', fn=f_neg, input_keys='z')),
  ]
  for name, mk in bad:
    got = expect(mk)
    S.check(got[0] == 'raise', dict(case=name, expected='rejected at build time'), f'{name}: building the pipeline gave {got[0]}', cls=name)
  for name, mk in good:
    got = expect(mk)
    S.check(got[0] == 'ok', dict(case=name, expected='accepted'), f'{name}: building the pipeline gave {got}', cls=name)
  return S.result()


def bounded_batch_operator(p):
  """`.batch(k)` (the sixth operator of the grammar): consecutive records are collected into lists of k (the last one shorter),
  per output key when the preceding operator names output keys; nothing is lost, duplicated or reordered."""
  S = Search(p, dict(streams='0..6 scalars / dict records', batch_sizes='0..4', before='nothing | select | select renamed | apply', after='nothing | apply(sum)'))
  T = transform.TreeTransform
  def chunks(xs, k):
    return [[x] for x in xs] if k <= 0 else [xs[i:i + k] for i in range(0, len(xs), k)]
  for n in range(0, 7):
    xs = list(range(1, n + 1))
    recs = [{'a': i, 'b': 10 * i} for i in xs]
    for k in range(0, 5):
      cases = [
          ('batch', lambda: T().batch(k), xs, [list(c) for c in chunks(xs, k)]),
          ('batch | apply(sum)', lambda: T().batch(k).apply(fn=sum), xs, [sum(c) for c in chunks(xs, k)]),
          ('select(a,b) | batch', lambda: T().select(('a', 'b')).batch(k), recs, [{'a': [r['a'] for r in c], 'b': [r['b'] for r in c]} for c in chunks(recs, k)]),
          ('select(a) | batch', lambda: T().select('a').batch(k), recs, [{'a': [r['a'] for r in c]} for c in chunks(recs, k)]),
          ('select(a->z) | batch', lambda: T().select('a', output_keys='z').batch(k), recs, [{'z': [r['a'] for r in c]} for c in chunks(recs, k)]),
          ('apply(a+b->c) | batch', lambda: T().apply(fn=f_sum, input_keys=('a', 'b'), output_keys='c').batch(k), recs, [{'c': [r['a'] + r['b'] for r in c]} for c in chunks(recs, k)]),
      ]
      for name, mk, stream, exp in cases:
        before = copy.deepcopy(stream)
        got = expect(lambda: list(mk().make().iterate(stream)))
        if not S.check(got == ('ok', exp) and stream == before, dict(chain=name, n=n, batch_size=k), f'{name} with batch_size={k} over {before}: {got}; reference {exp}', cls=name):
          return S.result()
  return S.result()
