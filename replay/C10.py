"""C10 native bounded stand-ins: checkpoint/restore of data sources and sequential pipelines."""
import itertools
import numpy as np
from common import Search, expect
import metrics_common as mc
from ml_metrics._src.chainables import io, transform
from ml_metrics._src.aggregates import rolling_stats as rs


def _sources(thorough):
  out = []
  N = 9 if thorough else 7
  for n in range(0, N + 1):
    base = io.SequenceDataSource(list(range(n)))
    out.append((f'seq({n})', base))
    for k in (2, 3):
      for i in range(k):
        sh = base.shard(i, k)
        out.append((f'seq({n}).shard({i},{k})', sh))
        if n >= 4:
          for j in range(2):
            out.append((f'seq({n}).shard({i},{k}).shard({j},2)', sh.shard(j, 2)))
    it_base = io.ShardedIterable(range(n))
    out.append((f'iterable({n})', it_base))
    for k in (2, 3):
      for i in range(k):
        out.append((f'iterable({n}).shard({i},{k})', it_base.shard(i, k)))
        if n >= 4:
          out.append((f'iterable({n}).shard({i},{k}).shard(1,2)', it_base.shard(i, k).shard(1, 2)))
    out.append((f'merged({n})', io.SequenceDataSource.from_sequences([list(range(0, n // 2)), [], list(range(n // 2, n))])))
  # a source whose element 2 cannot be read, with error skipping enabled
  out.append(('failing-source(6, bad=2, ignore_error)', io.SequenceDataSource(_Failing(6, 2), ignore_error=True)))
  return out


class _Failing:
  def __init__(self, n, bad):
    self.n, self.bad = n, bad
  def __len__(self):
    return self.n
  def __getitem__(self, i):
    if isinstance(i, slice):
      raise TypeError('no slicing')
    if i == self.bad:
      raise ValueError('bad element')
    if not 0 <= i < self.n:
      raise IndexError(i)
    return i


def bounded_resume_sources(p):
  S = Search(p, dict(sources='SequenceDataSource / ShardedIterable / merged sequences, n<=7 (9 thorough), shards 2-3, nested',
                     checkpoints='every sequence of <=3 successive checkpoint/restore at every cut position'))
  for name, src in _sources(S.thorough()):
    full = list(src)
    L = len(full)
    # cuts (a, b, c): read a, restore, read b, restore, read c, restore, read the rest
    for depth in (1, 2, 3):
      for cuts in itertools.product(range(0, L + 1), repeat=depth):
        if sum(cuts) > L or (depth == 3 and L > 4 and not S.thorough() and cuts[0] > 2):
          continue
        def go():
          it = src.iterate()
          got = []
          for c in cuts:
            for _ in range(c):
              got.append(next(it))
            it = it.from_state(it.state)
          got.extend(it)
          return got
        got = expect(go)
        if not S.check(got == ('ok', full), dict(source=name, cuts=list(cuts)), f'{name}: read/restore at {cuts} delivered {got}, uninterrupted {full}', cls=name.split('(')[0]):
          return S.result()
  return S.result()


class SumAgg:
  """A functional aggregate (returns new states)."""

  def create_state(self):
    return (0, 0)

  def update_state(self, state, x):
    return (state[0] + sum(np.atleast_1d(x).tolist()), state[1] + len(np.atleast_1d(x)))

  def merge_states(self, states):
    return (sum(s[0] for s in states), sum(s[1] for s in states))

  def get_result(self, state):
    return state


def _pipelines():
  def p_mean(ds):
    return transform.TreeTransform().data_source(ds).apply(lambda x: np.asarray(x) + 1).agg(rs.MeanAndVariance().as_agg_fn())
  def p_sum(ds):
    return transform.TreeTransform().data_source(ds).apply(lambda x: np.asarray(x) * 2).agg(SumAgg())
  def p_two_aggs(ds):
    return (transform.TreeTransform().data_source(ds).apply(lambda x: np.asarray(x) + 1)
            .agg(SumAgg(), output_keys='s').add_agg(fn=rs.Mean().as_agg_fn(), output_keys='m'))
  def p_sliced(ds):
    return (transform.TreeTransform().data_source(ds).apply(lambda x: {'v': list(np.asarray(x)), 'k': [int(v) % 2 for v in np.asarray(x)]})
            .agg(SumAgg(), input_keys='v', output_keys='s').add_slice('k'))
  def p_chain2(ds):
    a = transform.TreeTransform(name='a').data_source(ds).apply(lambda x: np.asarray(x) + 1).agg(SumAgg(), output_keys='s1')
    b = transform.TreeTransform(name='b').apply(lambda x: np.asarray(x) * 2).agg(rs.MeanAndVariance().as_agg_fn(), output_keys='m2')
    return a.chain(b)
  def p_chain3(ds):
    a = transform.TreeTransform(name='a').data_source(ds).apply(lambda x: np.asarray(x) + 1).agg(SumAgg(), output_keys='s1')
    b = transform.TreeTransform(name='b').apply(lambda x: np.asarray(x) * 2)
    c = transform.TreeTransform(name='c').apply(lambda x: np.asarray(x) - 1).agg(SumAgg(), output_keys='s3')
    return a.chain(b).chain(c)
  return [('apply+MeanAndVariance', p_mean), ('apply+functional-sum', p_sum), ('apply+two-aggregates', p_two_aggs),
          ('apply+sum sliced by key', p_sliced), ('chain of two named transforms, an aggregate each', p_chain2),
          ('chain of three named transforms, aggregates first and last', p_chain3)]


def _norm(r):
  if isinstance(r, dict):
    return {repr(k): _norm(v) for k, v in r.items()}
  if isinstance(r, (list, tuple)):
    return [_norm(x) for x in r]
  if hasattr(r, 'mean') and hasattr(r, 'count'):
    return [float(np.asarray(r.count)), float(np.asarray(r.mean)), float(np.asarray(getattr(r, 'var', 0.0)))]
  if isinstance(r, np.ndarray):
    return r.tolist()
  return r


def _drain(it):
  out = []
  while True:
    try:
      out.append(next(it))
    except StopIteration as e:
      return out, e.value


def bounded_resume_pipeline(p):
  S = Search(p, dict(pipelines='apply + aggregate(s), num_threads=0', data='range(n), n<=6, whole and shard (0,2)/(1,2)', cuts='every cut, original keeps running for 0..2 more batches before the restore'))
  for pname, mk in _pipelines():
    for n in range(1, 7):
      for shard in (None, io.ShardConfig(0, 2), io.ShardConfig(1, 2)):
        ds = io.SequenceDataSource([[float(i), i + 0.5] for i in range(n)])
        def fresh():
          pl = mk(ds)
          return pl, (pl.make(shard=shard) if shard else pl.make()).iterate()
        try:
          _, it0 = fresh()
        except TypeError:
          continue        # a chain of named transforms cannot be sharded through make(shard=...): not a supported configuration
        full = expect(lambda: _drain(it0))
        if full[0] != 'ok':
          S.check(False, dict(pipeline=pname, n=n, what='uninterrupted run'), f'{pname} n={n}: {full}', cls=pname)
          continue
        full = ('ok', full[1][0], _norm(getattr(full[1][1], 'agg_result', None)))
        agg_full = _norm(it0.agg_result)
        for cut in range(0, len(full[1]) + 1):
          for extra in (0, 1, 2):
            if cut + extra > len(full[1]):
              continue
            def go():
              pl, it = fresh()
              head = [next(it) for _ in range(cut)]
              state = it.state
              for _ in range(extra):     # the original keeps running after the checkpoint
                next(it)
              it2 = pl.make().iterate().from_state(state)
              rest, returned = _drain(it2)
              # a second restore from the SAME captured state (a retry) must behave like the first
              it3 = pl.make().iterate().from_state(state)
              rest3, returned3 = _drain(it3)
              return (head + rest, _norm(it2.agg_result), _norm(getattr(returned, 'agg_result', None)),
                      head + rest3, _norm(it3.agg_result), _norm(getattr(returned3, 'agg_result', None)))
            got = expect(go)
            ok = (got[0] == 'ok' and mc.close(_norm(got[1][0]), _norm(full[1])) and mc.close(got[1][1], agg_full)
                  and mc.close(got[1][2], full[2])                                   # the value the exhausted iterator returns
                  and mc.close(_norm(got[1][3]), _norm(full[1])) and mc.close(got[1][4], agg_full) and mc.close(got[1][5], full[2]))
            if not S.check(ok, dict(pipeline=pname, n=n, shard=str(shard), cut=cut, extra_batches_before_restore=extra),
                           f'{pname} n={n} shard={shard}: checkpoint after {cut}, original ran {extra} more, restored run gives (elements, aggregate, returned aggregate; then the same for a second restore from the same state) {got}; uninterrupted {full[1]} / {agg_full} / returned {full[2]}', cls=pname):
              return S.result()
  return S.result()
