"""C12 native bounded stand-ins: error skipping."""
import itertools
from common import Search, expect
from ml_metrics._src.utils import iter_utils
from ml_metrics._src.chainables import transform, tree_fns, io


class FaultySeq:
  """Random-access data whose elements in `bad` cannot be read; optionally not sliceable."""

  def __init__(self, n, bad, sliceable=True):
    self.n, self.bad, self.sliceable = n, set(bad), sliceable

  def __len__(self):
    return self.n

  def __getitem__(self, i):
    if isinstance(i, slice):
      if not self.sliceable:
        raise TypeError('no slicing')
      idx = range(*i.indices(self.n))
      if any(j in self.bad for j in idx):
        raise ValueError('bad element in slice')
      return list(idx)
    if i in self.bad:
      raise ValueError(f'bad element {i}')
    if not 0 <= i < self.n:
      raise IndexError(i)
    return i


class FaultyIter:
  """A resumable iterator: element i raises instead of being yielded when i in bad."""

  def __init__(self, n, bad, ret=None):
    self.n, self.bad, self.i, self.ret = n, set(bad), 0, ret

  def __iter__(self):
    return self

  def __next__(self):
    if self.i >= self.n:
      raise StopIteration(self.ret)
    i = self.i
    self.i += 1
    if i in self.bad:
      raise ValueError(f'bad {i}')
    return i


def _subsets(n, maxk):
  for k in range(0, maxk + 1):
    yield from itertools.combinations(range(n), k)


def bounded_ignore_error(p):
  S = Search(p, dict(n='<=5', failing='every subset of <=3 positions', marker='with/without', processed_with_inputs='1:1 process function failing on chosen inputs'))
  for n in range(0, 6):
    for bad in _subsets(n, 3):
      good = [i for i in range(n) if i not in bad]
      def run(marker):
        g = iter_utils.iter_ignore_error(FaultyIter(n, bad, ret='R'), error_return=marker)
        out = []
        while True:
          try:
            out.append(next(g))
          except StopIteration as e:
            return out, e.value
      got = expect(lambda: run(None))
      if not S.check(got == ('ok', (good, 'R')), dict(n=n, bad=list(bad), marker=None), f'iter_ignore_error n={n} bad={bad}: {got}, expected {good}', cls='no-marker'):
        return S.result()
      got = expect(lambda: run('M'))
      exp = [('M' if i in bad else i) for i in range(n)]
      if not S.check(got == ('ok', (exp, 'R')), dict(n=n, bad=list(bad), marker='M'), f'iter_ignore_error(marker) n={n} bad={bad}: {got}, expected {exp}', cls='marker'):
        return S.result()
      # processed_with_inputs: a 1:1 map that fails on the bad inputs
      def fn(x):
        if x in bad:
          raise ValueError('fn failed')
        return x * 10
      got = expect(lambda: list(iter_utils.processed_with_inputs(lambda it: map(fn, it), iter(range(n)), ignore_error=True)))
      exp = [(i * 10, i) for i in good]
      if not S.check(got == ('ok', exp), dict(n=n, bad=list(bad), what='processed_with_inputs'), f'processed_with_inputs n={n} bad={bad}: {got}, expected {exp}', cls='pwi'):
        return S.result()
      if bad:
        got = expect(lambda: list(iter_utils.processed_with_inputs(lambda it: map(fn, it), iter(range(n)), ignore_error=False)))
        if not S.check(got == ('raise', 'ValueError'), dict(n=n, bad=list(bad), what='processed_with_inputs no skipping'), f'without skipping: {got}', cls='pwi-raise'):
          return S.result()
  return S.result()


def bounded_range_iterator_faults(p):
  S = Search(p, dict(n='<=7', failing='every subset of <=2 positions', read_ahead='1,2,3,4,64', sliceable='yes/no', start_stop='all'))
  N = 8 if S.thorough() else 6
  for n in range(0, N + 1):
    for bad in _subsets(n, 2):
      for sliceable in (True, False):
        for bs in (1, 2, 3, 4, 64):
          for start in range(0, n + 1):
            for stop in (list(range(start, n + 1)) if n <= 4 or S.thorough() else [n, max(start, n - 1)]):
              it = iter_utils._RangeIterator(FaultySeq(n, bad, sliceable), start, stop, bs)
              got, errs = [], 0
              for _ in range(3 * n + 5):
                try:
                  got.append(next(it))
                except StopIteration:
                  break
                except ValueError:
                  errs += 1
                except Exception as e:   # pylint: disable=broad-exception-caught
                  got.append(f'<{type(e).__name__}>')
                  break
              exp = [i for i in range(start, stop) if i not in bad]
              nbad = len([i for i in range(start, stop) if i in bad])
              if not S.check(got == exp and errs == nbad, dict(n=n, bad=list(bad), sliceable=sliceable, read_ahead=bs, start=start, stop=stop),
                             f'_RangeIterator(n={n}, bad={bad}, sliceable={sliceable}, bs={bs}, [{start},{stop})) delivered {got} with {errs} errors; expected {exp} and {nbad} errors'):
                return S.result()
  return S.result()


class _Sink:
  def __init__(self):
    self.data, self.closed = [], 0
  def write(self, x):
    self.data.append(x)
  def close(self):
    self.closed += 1


def bounded_pipeline_skip(p):
  S = Search(p, dict(n=6, failing='every subset of <=2 positions', operators='apply|assign|filter|sink', batching='none|batch_size|fn_batch_size', num_threads='0,1', source_faults='yes'))
  n = 6
  for bad in _subsets(n, 2):
    badset = set(bad)
    def fn(x):
      if x in badset:
        raise ValueError('fn failed')
      return x + 100
    def fn_batch(xs):
      if any(x in badset for x in xs):
        raise ValueError('fn failed on batch')
      return [x + 100 for x in xs]
    good = [i for i in range(n) if i not in badset]
    for threads in (0, 1):
      # --- apply, element-wise ---
      for ignore in (True, False):
        def run_apply():
          pl = transform.TreeTransform(num_threads=threads).apply(fn)
          return list(pl.make().iterate(range(n), ignore_error=ignore))
        got = expect(run_apply)
        if ignore:
          ok, exp = got == ('ok', [g + 100 for g in good]), [g + 100 for g in good]
        else:
          ok, exp = (got[0] == 'raise') if bad else got == ('ok', [g + 100 for g in good]), 'first error surfaces'
        if not S.check(ok, dict(op='apply', bad=list(bad), ignore_error=ignore, num_threads=threads), f'apply bad={bad} ignore={ignore} threads={threads}: {got}; expected {exp}', cls=f'apply-{ignore}'):
          return S.result()
      # --- assign keeps alignment with its own inputs ---
      def run_assign(batch_size=0):
        pl = transform.TreeTransform(num_threads=threads).apply(lambda x: x, output_keys='a').assign('b', fn=fn, input_keys='a', **({'batch_size': batch_size} if batch_size else {}))
        return list(pl.make().iterate(range(n), ignore_error=True))
      got = expect(run_assign)
      exp = [{'a': g, 'b': g + 100} for g in good]
      if not S.check(got == ('ok', exp), dict(op='assign', bad=list(bad), num_threads=threads, batch_size=0), f'assign bad={bad} threads={threads}: {got}; expected {exp}', cls='assign'):
        return S.result()
      # --- assign with output re-batching (batch size 1 keeps rows aligned) ---
      def run_assign_b():
        pl = transform.TreeTransform(num_threads=threads).apply(lambda x: x, output_keys='a').assign('b', fn=fn_batch, input_keys='a', batch_size=1)
        return list(pl.make().iterate([[i] for i in range(n)], ignore_error=True))
      got = expect(run_assign_b)
      exp = [{'a': [g], 'b': [g + 100]} for g in good]
      if not S.check(got == ('ok', exp), dict(op='assign', bad=list(bad), num_threads=threads, batch_size=1), f'assign(batch_size=1) bad={bad} threads={threads}: {got}; expected {exp}', cls='assign-rebatched'):
        return S.result()
      # --- filter ---
      def run_filter():
        pl = transform.TreeTransform(num_threads=threads).apply(lambda x: x, output_keys='a').filter(lambda a: fn(a) % 2 == 0, input_keys='a')
        return list(pl.make().iterate(range(n), ignore_error=True))
      got = expect(run_filter)
      exp = [{'a': g} for g in good if (g + 100) % 2 == 0]
      if not S.check(got == ('ok', exp), dict(op='filter', bad=list(bad), num_threads=threads), f'filter bad={bad} threads={threads}: {got}; expected {exp}', cls='filter'):
        return S.result()
      # --- sink is closed also when the first error surfaces ---
      import gc
      sink = _Sink()
      def run_sink():
        pl = transform.TreeTransform(num_threads=threads).apply(fn).sink(sink)
        return list(pl.make().iterate(range(n), ignore_error=False))
      got = expect(run_sink)
      first_bad = min(bad) if bad else n
      ok = sink.closed >= 1 and sink.data == [i + 100 for i in range(first_bad)] and ((got[0] == 'raise') == bool(bad))
      if not S.check(ok, dict(op='sink', bad=list(bad), num_threads=threads), f'sink bad={bad} threads={threads}: run {got}, sink saw {sink.data}, closed {sink.closed} times', cls='sink'):
        return S.result()
    # --- a sink whose write() fails on some records, with skipping: the failing records are dropped, every other record is
    # written once and forwarded, still aligned with its own input ---
    class _FailingSink(_Sink):
      def write(self, x):
        if x in badset:
          raise ValueError('write failed')
        self.data.append(x)
    fsink = _FailingSink()
    def run_failing_sink():
      pl = transform.TreeTransform().sink(fsink)
      return list(pl.make().iterate(range(n), ignore_error=True))
    got = expect(run_failing_sink)
    if not S.check(got == ('ok', good) and fsink.data == good and fsink.closed >= 1, dict(op='sink with failing writes', bad=list(bad)),
                   f'sink whose write fails on {bad}, ignore_error: forwarded {got}, written {fsink.data}, closed {fsink.closed}; expected {good} for both', cls='failing-sink'):
      return S.result()
    # --- a source element that cannot be READ (the source itself does not skip), first operator a plain apply, skipping on:
    # every readable element is still delivered ---
    for sliceable in (True, False):
      def run_unreadable():
        ds = io.SequenceDataSource(FaultySeq(n, bad, sliceable))
        pl = transform.TreeTransform().data_source(ds).apply(lambda x: x + 100)
        return list(pl.make().iterate(ignore_error=True))
      got = expect(run_unreadable)
      if good and not S.check(got == ('ok', [g + 100 for g in good]), dict(op='apply over an unreadable source element', bad=list(bad), sliceable=sliceable),
                              f'apply over a source with unreadable {bad} (ignore_error on the pipeline only): {got}; expected {[g + 100 for g in good]}', cls='unreadable-source'):
        return S.result()
    # --- re-batching options with error skipping (rows are batches of one column) ---
    for fbs, bs in ((0, 2), (2, 2), (3, 2)):
      def run_rebatch():
        t = tree_fns.TreeFn(fn=fn_batch, fn_batch_size=fbs, batch_size=bs, ignore_error=True)
        return [list(x) for x in t.iterate([[i] for i in range(n)])]
      got = expect(run_rebatch)
      if fbs:
        groups = [list(range(s, min(s + fbs, n))) for s in range(0, n, fbs)]
      else:
        groups = [[i] for i in range(n)]
      flat = [x + 100 for g in groups if not any(y in badset for y in g) for x in g]
      exp = [flat[s:s + bs] for s in range(0, len(flat), bs)]
      if not S.check(got == ('ok', exp), dict(op='TreeFn', bad=list(bad), fn_batch_size=fbs, batch_size=bs, ignore_error=True),
                     f'TreeFn(fn_batch_size={fbs}, batch_size={bs}, ignore_error) bad={bad}: {got}; expected {exp}', cls=f'rebatch-{fbs}'):
        return S.result()
    # --- a sink UPSTREAM of a failing operator is (at the latest after garbage collection) closed exactly once
    sink2 = _Sink()
    def run_sink_upstream():
      pl = transform.TreeTransform().sink(sink2).apply(fn)
      return list(pl.make().iterate(range(n), ignore_error=False))
    got = expect(run_sink_upstream)
    gc.collect()
    if not S.check(sink2.closed >= 1, dict(op='sink upstream', bad=list(bad), closed=sink2.closed), f'sink upstream of a failing operator, bad={bad}: run {got[0]}, closed {sink2.closed} time(s) after gc', cls='sink-upstream'):
      return S.result()
    # --- a restored source keeps skipping: checkpoint, restore, then a failing element ---
    for sliceable in (True, False):
      def run_restored():
        ds = io.SequenceDataSource(FaultySeq(n, bad, sliceable), ignore_error=True)
        it = ds.iterate()
        # checkpoint before anything was read (a checkpoint AFTER a skipped element is finding D11 of C10)
        it2 = it.from_state(it.state)
        return list(it2)
      got = expect(run_restored)
      if good and not S.check(got == ('ok', good), dict(op='restored source', bad=list(bad), sliceable=sliceable), f'restored SequenceDataSource(ignore_error) bad={bad}: {got}; expected {good}', cls='restored-source'):
        return S.result()
    # --- data source faults: random access source with unreadable elements ---
    for sliceable in (True, False):
      def run_source():
        ds = io.SequenceDataSource(FaultySeq(n, bad, sliceable), ignore_error=True)
        return list(ds)
      got = expect(run_source)
      if not S.check(got == ('ok', good), dict(op='source', bad=list(bad), sliceable=sliceable), f'SequenceDataSource(ignore_error) bad={bad} sliceable={sliceable}: {got}; expected {good}', cls='source'):
        return S.result()
  return S.result()
