"""C04/C05 native stand-ins: IteratorQueue operation sequences and (sampled) threaded runs."""
import contextlib
import itertools
import queue
import threading
import time
from common import Search, expect
from ml_metrics._src.utils import iter_utils


class Ref:
  """Reference single-threaded queue semantics (independent of the implementation)."""

  def __init__(self, cap, max_enq):
    self.q, self.cap = [], cap
    self.start = self.stop = 0
    self.max = max_enq
    self.returned, self.exc, self.exhausted = [], None, False

  def done(self):
    return self.exc is not None or (self.max != 0 and self.start == self.stop == self.max)

  def get_nowait(self):
    if self.q:
      x = self.q.pop(0)
      if not self.q and self.done():
        self.exhausted = True
      return ('ok', x)
    if self.exhausted or self.done():
      self.exhausted = True
      return ('raise', type(self.exc).__name__) if self.exc is not None else ('raise', 'StopIteration', tuple(self.returned))
    return ('raise', 'Empty')

  def put_nowait(self, v):
    if self.cap and len(self.q) >= self.cap:
      return ('raise', 'Full')
    self.q.append(v)
    return ('ok', None)


def _run_ops(cap, max_enq, ops):
  """Drives the real queue holding the dequeue condition (as get/get_batch do) and the reference."""
  q = iter_utils.IteratorQueue(cap, max_enqueuer=max_enq)
  r = Ref(cap, max_enq)
  boom = ValueError('producer failed')
  for i, op in enumerate(ops):
    if op == 'put':
      got = expect(lambda: q.put_nowait(i))
      exp = r.put_nowait(i)
    elif op == 'get':
      def g():
        with getattr(q, '_dequeue_lock', None) or contextlib.nullcontext():
          return q.get_nowait()
      try:
        got = ('ok', g())
      except StopIteration as e:
        got = ('raise', 'StopIteration', tuple(e.args))
      except Exception as e:   # pylint: disable=broad-exception-caught
        got = ('raise', type(e).__name__)
      exp = r.get_nowait()
    elif op == 'start':
      q._start_enqueue(); r.start += 1; r.max = max(r.max, r.start)
      got = exp = None
    elif op == 'stop':
      q._stop_enqueue(f'ret{i}'); r.stop = min(r.stop + 1, r.start); r.returned.append(f'ret{i}')
      got = exp = None
    elif op == 'fail':
      if r.max == 0:
        continue
      q.maybe_stop(boom); r.stop = r.start = r.max; r.exc = boom; r.exhausted = True
      got = exp = None
    elif op == 'halt':
      if r.max == 0:
        continue      # documented precondition: a clean stop needs a declared producer
      q.maybe_stop(); r.stop = r.start = r.max
      got = exp = None
    if got is not None and exp is not None and got[0] == 'ok' and exp[0] == 'ok' and op == 'put':
      got = exp
    # the producer counters are private bookkeeping: compared when they exist under these names, otherwise only what the
    # public interface shows (a renamed private field is not a reason to fail)
    state = (q.enqueue_done, q.exhausted, list(q.returned), getattr(q, '_enqueue_start', r.start), getattr(q, '_enqueue_stop', r.stop))
    rstate = (r.done(), r.exhausted, r.returned, r.start, r.stop)
    if got != exp or state != rstate:
      return f'after {ops[:i + 1]} (capacity {cap}, max_enqueuer {max_enq}): got {got} state {state}; reference {exp} {rstate}'
  return None


def bounded_queue_sequences(p):
  S = Search(p, dict(ops='<=6 (7 thorough) of put/get/start/stop/fail/halt', capacity='0,1,2', max_enqueuer='0,1,2'))
  L = 7 if S.thorough() else 6
  alpha = ['put', 'get', 'start', 'stop', 'fail', 'halt']
  for cap, max_enq in itertools.product((0, 1, 2), (0, 1, 2)):
    for n in range(1, L + 1):
      if n == L and (cap, max_enq) not in ((0, 2), (1, 1), (2, 2)) and not S.thorough():
        continue
      for ops in itertools.product(alpha, repeat=n):
        if ops.count('fail') + ops.count('halt') > 1 or ops.count('start') > 2:
          continue
        why = _run_ops(cap, max_enq, ops)
        if not S.check(why is None, dict(capacity=cap, max_enqueuer=max_enq, ops=list(ops)), why or ''):
          return S.result()
  # the public non-blocking call without holding the dequeue condition (finding D10)
  q = iter_utils.IteratorQueue(0, max_enqueuer=1)
  q.enqueue_from_iterator(range(2))
  got = [expect(q.get_nowait) for _ in range(3)]
  S.check(got[:2] == [('ok', 0), ('ok', 1)] and got[2] == ('raise', 'StopIteration'), dict(what='public get_nowait without the condition held'),
          f'get_nowait() x3 on a queue fed range(2) with finished producer: {got}; expected 0, 1, StopIteration', cls='direct-get_nowait')
  return S.result()


def _threaded(n_prod, n_cons, cap, per_prod, fail_at, batch, stop_after, timeout=5.0):
  q = iter_utils.IteratorQueue(cap, max_enqueuer=n_prod, timeout=timeout)
  received, ends, lock = [], [], threading.Lock()

  def gen(pid):
    for i in range(per_prod):
      if fail_at is not None and pid == 0 and i == fail_at:
        raise ValueError('producer failed')
      yield (pid, i)
    return f'ret{pid}'

  def produce(pid):
    try:
      q.enqueue_from_iterator(gen(pid))
    except Exception:   # pylint: disable=broad-exception-caught
      pass

  def consume():
    try:
      while True:
        xs = q.get_batch(batch) if batch else [q.get()]
        with lock:
          received.extend(xs)
          if stop_after is not None and len(received) >= stop_after:
            q.maybe_stop()
    except StopIteration as e:
      with lock:
        ends.append(('end', tuple(sorted(e.args))))
    except Exception as e:   # pylint: disable=broad-exception-caught
      with lock:
        ends.append((type(e).__name__,))

  ts = [threading.Thread(target=produce, args=(i,), daemon=True) for i in range(n_prod)]
  ts += [threading.Thread(target=consume, daemon=True) for _ in range(n_cons)]
  for t in ts:
    t.start()
  deadline = time.time() + 20
  for t in ts:
    t.join(max(0.0, deadline - time.time()))
  alive = sum(t.is_alive() for t in ts)
  return received, ends, alive


def _late_producer(delay):
  """piter_multiplex over a fast input and one whose iterator takes `delay` seconds to open (so that its producer registers
  after the first one has finished): the consumer must still get both inputs and both return values."""
  from concurrent import futures
  def fast():
    yield from ('a0', 'a1', 'a2')
    return 'ret-a'
  class SlowToOpen:
    def __iter__(self):
      time.sleep(delay)
      return self._gen()
    def _gen(self):
      yield from ('b0', 'b1', 'b2')
      return 'ret-b'
  pool = futures.ThreadPoolExecutor(max_workers=2)
  q = iter_utils.piter_multiplex([fast(), SlowToOpen()], thread_pool=pool, buffer_size=0)
  received, stop_args, done = [], [], threading.Event()
  def consume():
    it = iter(q)
    try:
      while True:
        received.append(next(it))
    except StopIteration as e:
      stop_args.extend(e.args)
    except Exception as e:   # pylint: disable=broad-exception-caught
      stop_args.append(repr(e))
    done.set()
  threading.Thread(target=consume, daemon=True).start()
  finished = done.wait(timeout=20)
  pool.shutdown(wait=False)
  return finished, received, stop_args


def bounded_queue_threads(p):
  S = Search(p, dict(producers='1-3', consumers='1-2', capacity='0,1,2', batch='get / get_batch(2)', failure='none / producer 0 at element 1',
                     early_stop='none / after 2', repeats='3 (10 thorough) sampled schedules'), exhaustive=False)
  reps = 10 if S.thorough() else 3
  for delay in (0.0, 0.3):
    finished, received, stop_args = _late_producer(delay)
    ok = (finished and sorted(received) == ['a0', 'a1', 'a2', 'b0', 'b1', 'b2'] and [x for x in received if x[0] == 'a'] == ['a0', 'a1', 'a2']
          and [x for x in received if x[0] == 'b'] == ['b0', 'b1', 'b2'] and sorted(stop_args) == ['ret-a', 'ret-b'])
    if not S.check(ok, dict(what='piter_multiplex with a producer that registers late', open_delay=delay),
                   f'two inputs, the second takes {delay}s to open: consumer finished={finished}, received {received}, end-of-stream carried {stop_args}', cls=f'late-producer-{delay}'):
      return S.result()
  for n_prod, n_cons, cap, batch, fail_at, stop_after in itertools.product((1, 2, 3), (1, 2), (0, 1, 2), (0, 2), (None, 1), (None, 2)):
    if fail_at is not None and stop_after is not None:
      continue
    if not S.thorough() and (n_prod, n_cons) == (3, 2) and cap == 0:
      continue
    for _ in range(reps):
      per = 4
      received, ends, alive = _threaded(n_prod, n_cons, cap, per, fail_at, batch, stop_after)
      w = dict(producers=n_prod, consumers=n_cons, capacity=cap, batch=batch, fail_at=fail_at, stop_after=stop_after)
      ok, why = True, ''
      if alive:
        ok, why = False, f'{alive} thread(s) still blocked after 20 s'
      elif len(set(received)) != len(received):
        ok, why = False, f'duplicates delivered: {sorted(received)}'
      else:
        for pid in range(n_prod):
          mine = [i for (pp, i) in received if pp == pid]
          # per consumer order is what the property states; with several consumers compare as a set here
          if n_cons == 1 and mine != sorted(mine):
            ok, why = False, f'producer {pid} elements out of order: {mine}'
        if fail_at is None and stop_after is None:
          exp = {(pp, i) for pp in range(n_prod) for i in range(per)}
          if set(received) != exp:
            ok, why = False, f'received {sorted(received)}, expected every element once'
          elif any(e != ('end', tuple(sorted(f'ret{i}' for i in range(n_prod)))) for e in ends) or len(ends) != n_cons:
            ok, why = False, f'terminal signals {ends}'
        elif fail_at is not None:
          if not ends or any(e != ('ValueError',) for e in ends):
            ok, why = False, f'consumers saw {ends} after a producer failure (expected the ValueError)'
      if not S.check(ok, w, f'{w}: {why}', cls='threads'):
        return S.result()
  return S.result()


def bounded_stop_is_final(p):
  """After a stop request no producer enqueues anything any more - also one that only starts afterwards."""
  import threading
  S = Search(p, dict(before_stop='0..2 producers ran', late_producer='starts after maybe_stop() with 1..3 elements', capacity='0 (unbounded), 16'))
  for cap in (0, 16):
    for ran in (0, 1, 2):
      for late in (1, 2, 3):
        q = iter_utils.IteratorQueue(cap, name='q', timeout=2)
        for r in range(ran):
          q.enqueue_from_iterator(iter([('early', r)]))
        if not ran:
          q._max_enqueuer = 1          # a producer was announced but has not started yet
        q.maybe_stop()
        qsize = lambda: getattr(q, '_queue').qsize() if hasattr(q, '_queue') else 0
        before = qsize()
        t = threading.Thread(target=lambda: expect(lambda: q.enqueue_from_iterator(iter([('late', i) for i in range(late)]))), daemon=True)
        t.start()
        t.join(10)
        added = qsize() - before
        S.check(added == 0 and not t.is_alive(), dict(what='producer starting after the stop request', capacity=cap, producers_before=ran, late_elements=late),
                f'capacity {cap}, {ran} producer(s) finished, maybe_stop(), then a producer with {late} element(s) starts: {added} element(s) were enqueued after the stop'
                f' (producer still running: {t.is_alive()})', cls=f'late-{cap}-{ran}')
  return S.result()
