"""C20 native replay / bounded searches (fake in-process courier transport: A8)."""
import itertools
import time
import fake_courier
fake_courier.install()
from common import Search, expect
from ml_metrics._src.utils import courier_utils as cu
from ml_metrics._src.chainables import courier_worker as cw
from ml_metrics._src.chainables import orchestrate, lazy_fns


def _apply_registry(reg, model, op):
  """Applies op to the real registry and to the reference model {addr: t|None}."""
  kind, addr, t = op
  if kind == 'register':
    reg.register(addr, t)
    model[addr] = t
  elif kind == 'unregister':
    reg.unregister(addr)
    model[addr] = None
  elif kind == 'refresh':
    reg.refresh(addr, t)
    cur = model.get(addr, 0)
    if cur is not None:        # a dead worker stays dead; never backwards
      model[addr] = max(cur, t)


def replay_registry(p):
  w = p['witness']
  ops = [tuple(o) for o in w['ops']]
  reg = cu.WorkerRegistry()
  model = {}
  for i, op in enumerate(ops):
    _apply_registry(reg, model, op)
    for a in ('a', 'b'):
      exp = model.get(a, 0.0)
      exp = 0 if exp is None else exp
      got = reg.get(a)
      if got != exp:
        return dict(violated=True, detail=f'after {ops[:i + 1]}: get({a!r}) = {got}, reference {exp}')
      raw = reg.data.get(a, 'absent')
      if (raw is None) != (model.get(a, 'absent') is None):
        return dict(violated=True, detail=f'after {ops[:i + 1]}: dead marker of {a!r} is {raw}, reference {model.get(a, "absent")}')
  return dict(violated=False, detail='agrees with the reference registry')


def bounded_registry(p):
  """All histories of <= 4 register/refresh/unregister events over 2 addresses and 3 time stamps."""
  S = Search(p, dict(history_len='<=4 (5 thorough)', addresses=2, timestamps='1,2,3'))
  if S.only and 'ops' in S.only:
    r = replay_registry(dict(witness=S.only))
    S.check(not r['violated'], S.only, r['detail'])
    return S.result()
  alphabet = [(k, a, t) for k in ('register', 'refresh') for a in ('a', 'b') for t in (1.0, 2.0, 3.0)]
  alphabet += [('unregister', a, 0.0) for a in ('a', 'b')]
  L = 5 if S.thorough() else 4
  for n in range(1, L + 1):
    for ops in itertools.product(alphabet, repeat=n):
      if n >= 4 and not S.thorough() and any(o[1] == 'b' for o in ops[:2]):
        continue      # symmetry: the first two events concern address a
      r = replay_registry(dict(witness=dict(ops=ops)))
      if not S.check(not r['violated'], dict(ops=[list(o) for o in ops]), r['detail']):
        return S.result()
  return S.result()


def _fresh_pool(addresses, dead=(), behaviour=None):
  fake_courier.BEHAVIOUR.clear()
  fake_courier.DEAD.clear()
  for a in addresses:
    if behaviour and a in behaviour:
      fake_courier.BEHAVIOUR[a] = behaviour[a]
    if a in dead:
      fake_courier.DEAD.add(a)
      cu.worker_registry().unregister(a)
    else:
      cu.worker_registry().register(a, time.time())
  pool = cw.WorkerPool(list(addresses))
  for w in pool.all_workers:
    w.release()
  return pool


def _boom(m, a, k):
  raise ValueError('task failed')


def _ok(m, a, k):
  return lazy_fns.pickler.dumps(1)


_uid = [0]


def _addrs(n):
  _uid[0] += 1
  return [f'w{_uid[0]}_{i}' for i in range(n)]


def liveness_after_death(p):
  """A dead worker must not look alive after a late/stale heartbeat or completion."""
  S = Search(p, dict(scenarios='late refresh / pending completion after unregister'))
  a, = _addrs(1)
  reg = cu.worker_registry()
  reg.register(a, time.time())
  c = cu.CourierClient(a)
  alive0 = c.is_alive
  # a call is in flight, then the worker is declared dead, then the call completes
  c.call(1)
  reg.unregister(a)
  alive1 = c.is_alive
  reg.refresh(a, time.time() + 100)
  alive2 = c.is_alive
  S.check(alive0 and not alive1 and not alive2 and reg.get(a) == 0, dict(what='dead worker revived', alive=[alive0, alive1, alive2]),
          f'is_alive before/after unregister/after late heartbeat: {alive0}, {alive1}, {alive2}; heartbeat {reg.get(a)}')
  # heartbeats never move backwards
  b, = _addrs(1)
  reg.register(b, 100.0)
  reg.refresh(b, 50.0)
  S.check(reg.get(b) == 100.0, dict(what='heartbeat moved backwards'), f'refresh(50) after 100 gives {reg.get(b)}')
  return S.result()


def bounded_ownership(p):
  """Sequences of acquire/release/release_all by two pools over two shared workers vs a reference owner map."""
  S = Search(p, dict(pools=2, workers=2, ops='<=4 (5 thorough)'))
  L = 5 if S.thorough() else 4
  ops_alpha = [(op, pl, wk) for op in ('acquire', 'release_all', 'acquire_all') for pl in (0, 1) for wk in (0, 1)]
  ops_alpha = [o for o in ops_alpha if o[0] == 'acquire' or o[2] == 0] + [('release', 0, 0), ('release', 0, 1)]
  for n in range(1, L + 1):
    for ops in itertools.product(ops_alpha, repeat=n):
      addrs = _addrs(2)
      pools = [_fresh_pool(addrs), None]
      pools[1] = cw.WorkerPool(addrs)
      workers = pools[0].all_workers
      # both pools share the singleton Worker objects
      if any(x is not y for x, y in zip(pools[0].all_workers, pools[1].all_workers)):
        return dict(error='pools do not share worker objects; harness assumption broken')
      owner = [None, None]
      ok, why = True, ''
      for step, (op, pl, wk) in enumerate(ops):
        if op == 'acquire':
          got = workers[wk].acquire_by(pools[pl])
          if owner[wk] is None:
            owner[wk] = pl
          exp = owner[wk] == pl
          if got != exp:
            ok, why = False, f'acquire_by returned {got}, reference {exp}'
        elif op == 'acquire_all':
          pools[pl]._acquire_all()
          for i in (0, 1):       # may acquire any free worker (it stops early by design); never steals
            if owner[i] is None and workers[i].worker_pool is pools[pl]:
              owner[i] = pl
        elif op == 'release_all':
          pools[pl].release_all()
          for i in (0, 1):
            if owner[i] == pl:
              owner[i] = None
        elif op == 'release':
          workers[wk].release()
          owner[wk] = None
        for i in (0, 1):
          real = None if workers[i].worker_pool is None else pools.index(workers[i].worker_pool)
          if real != owner[i] or workers[i]._lock.locked() != (owner[i] is not None):
            ok, why = False, f'owner of worker {i} is {real} (locked={workers[i]._lock.locked()}), reference {owner[i]}'
        if not ok:
          why = f'after {ops[:step + 1]}: ' + why
          break
      for w in workers:
        w.release()
      if not S.check(ok, dict(ops=[list(o) for o in ops]), why):
        return S.result()
  return S.result()


def bounded_release(p):
  """Pool-level operations (run / call_and_wait / as_completed) on pools of 1-3 workers where each worker is
  {ok, failing, dead}: on return and on raise none of the pool's workers remains acquired."""
  S = Search(p, dict(workers='1..3', worker_kinds='ok|fail|dead', operations='run, call_and_wait, as_completed(1-2 tasks)'))
  kinds = ('ok', 'fail', 'dead')
  for n in (1, 2, 3):
    for combo in itertools.product(kinds, repeat=n):
      if all(k == 'dead' for k in combo):
        continue       # nothing usable: the operations block on wait_until_alive (not a per-call fact)
      for op in ('run', 'call_and_wait', 'as_completed1', 'as_completed2', 'as_completed_ignore'):
        addrs = _addrs(n)
        beh = {a: (_ok if k == 'ok' else _boom) for a, k in zip(addrs, combo)}
        pool = _fresh_pool(addrs, dead=[a for a, k in zip(addrs, combo) if k == 'dead'], behaviour=beh)
        task = lazy_fns.trace(len)([1])
        def go():
          if op == 'run':
            return pool.run(task)
          if op == 'call_and_wait':
            return pool.call_and_wait(task)
          if op == 'as_completed1':
            return list(orchestrate.as_completed(pool, [task]))
          if op == 'as_completed2':
            return list(orchestrate.as_completed(pool, [task, task]))
          return list(orchestrate.as_completed(pool, [task, task], ignore_failures=True))
        out = expect(go)
        left = [w.address for w in pool.all_workers if w.is_locked(pool)]
        for w in pool.all_workers:
          w.release()
        if not S.check(not left, dict(op=op, workers=list(combo), outcome=out[0]),
                       f'{op} on workers {combo} finished with {out} and left {len(left)} worker(s) acquired'):
          return S.result()
  return S.result()
