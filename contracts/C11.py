"""C11 (same contracts as C01.py, kept in sync by tools/sync_c11.sh) - merge is a homomorphism of sufficient statistics (contracts).

For a generic column (pointwise view, A3) an accumulator state is abstracted to
its sufficient statistic: count n, sum S = mean*n and, for the variance, the sum
of squares Q = (var + mean^2)*n of the non-NaN entries (n = 0 <=> mean/var are
NaN). A3: these statistics are additive under row concatenation. The contracts
say that merge() adds the statistics - from which batching/sharding invariance
(C01) and associativity/commutativity/neutral element (C11) follow by the
lemmas below, which are pure arithmetic over the abstraction."""
import z3
from pyvc.contracts import Contract
from pyvc.values import *   # pylint: disable=wildcard-import

RS = 'ml_metrics/_src/aggregates/rolling_stats.py'
MU = 'ml_metrics/_src/utils/math_utils.py'
AU = 'ml_metrics/_src/aggregates/utils.py'
CL = 'ml_metrics/_src/aggregates/classification.py'
PROPS = ['C01', 'C11']

# coupling invariant between the concrete fields and the abstraction
WF_MEAN = ['{s}._count >= 0', 'isnan({s}._mean) == ({s}._count == 0)']
WF_VAR = WF_MEAN + ['isnan({s}._var) == ({s}._count == 0)', 'implies({s}._count > 0, val({s}._var) >= 0)']


def wf(clauses, s):
  return [c.format(s=s) for c in clauses]


def register(R):
  R.cls('Mean', dict(_count='rreal', _mean='real', _input_shape='tuple[]', batch_score_fn='none'))
  R.cls('MeanAndVariance', dict(_count='rreal', _mean='real', _var='real', _input_shape='tuple[]', batch_score_fn='none'))
  R.cls('MeanState', dict(total='rreal', count='rreal'))
  R.cls('_ConfusionMatrix', dict(tp='rreal', tn='rreal', fp='rreal', fn='rreal'))

  @R.spec
  def isnan(it, a, k):
    v = it.to_real(a[0])
    return VBool(v.nan)

  @R.spec
  def val(it, a, k):           # payload of a float, meaningful when it is not NaN
    v = it.to_real(a[0])
    return VReal(v.t, False)

  @R.spec
  def nan_eq(it, a, k):        # same float incl. NaN == NaN
    x, y = it.to_real(a[0]), it.to_real(a[1])
    return VBool(z3.Or(z3.And(x.nan, y.nan), z3.And(z3.Not(x.nan), z3.Not(y.nan), x.t == y.t)))

  @R.spec
  def total_of(it, a, k):      # S = mean * n (0 for an empty column)
    n, m = it.to_real(a[0]), it.to_real(a[1])
    return VReal(z3.If(n.t > 0, m.t * n.t, z3.RealVal(0)), False)

  @R.spec
  def sumsq_of(it, a, k):      # Q = (var + mean^2) * n
    n, m, v = (it.to_real(x) for x in a)
    return VReal(z3.If(n.t > 0, (v.t + m.t * m.t) * n.t, z3.RealVal(0)), False)

  @R.spec
  def sdiv(it, a, k):
    x, y = it.to_real(a[0]), it.to_real(a[1])
    return VReal(z3.If(y.t != 0, x.t / y.t, z3.RealVal(0)), z3.Or(x.nan, y.nan))

  # ---- math_utils ---------------------------------------------------------------------------
  R.add(Contract(f'{MU}::safe_divide', PROPS, types=dict(a='rreal', b='rreal'), ret='rreal', ensures=['result == sdiv(a, b)']))
  R.add(Contract(f'{MU}::where', PROPS, types=dict(condition='bool', x='real', y='real'), ret='real',
                 ensures=['nan_eq(result, ite(condition, x, y))']))
  R.add(Contract(f'{MU}::nanadd', PROPS, types=dict(a='real', b='real'), ret='real',
                 ensures=['isnan(result) == (isnan(a) and isnan(b))',
                          'implies(not isnan(result), val(result) == ite(isnan(a), 0, val(a)) + ite(isnan(b), 0, val(b)))'],
                 note='NaN counts as 0 unless both operands are NaN'))

  # ---- Mean / MeanAndVariance ------------------------------------------------------------------
  R.add(Contract(
      f'{RS}::Mean.merge', PROPS, types=dict(self='Mean', other='Mean'),
      modifies=['self._count', 'self._mean', 'self._input_shape'],
      requires=wf(WF_MEAN, 'self') + wf(WF_MEAN, 'other'),
      ensures=wf(WF_MEAN, 'self') + [
          # merge adds the sufficient statistics (count, sum) of the generic column
          'self._count == old(self._count) + other._count',
          'total_of(self._count, self._mean) == old(total_of(self._count, self._mean)) + total_of(other._count, other._mean)',
      ],
      bounded='bounded_partition',
      note='homomorphism: (n, S)(merge(a, b)) = (n, S)(a) + (n, S)(b); the operand is not written (frame)'))
  R.add(Contract(
      f'{RS}::MeanAndVariance.merge', PROPS, types=dict(self='MeanAndVariance', other='MeanAndVariance'),
      modifies=['self._count', 'self._mean', 'self._var', 'self._input_shape'],
      requires=wf(WF_VAR, 'self') + wf(WF_VAR, 'other'),
      ensures=wf(WF_VAR, 'self') + [
          'self._count == old(self._count) + other._count',
          'total_of(self._count, self._mean) == old(total_of(self._count, self._mean)) + total_of(other._count, other._mean)',
          'sumsq_of(self._count, self._mean, self._var) == old(sumsq_of(self._count, self._mean, self._var))'
          ' + sumsq_of(other._count, other._mean, other._var)',
      ],
      bounded='bounded_partition',
      note='homomorphism on (n, S, Q): population variance of the concatenated data'))
  R.add(Contract(f'{RS}::Mean.total', PROPS, types=dict(self='Mean'), ret='real', requires=wf(WF_MEAN, 'self'),
                 ensures=['not isnan(result)', 'result == total_of(self._count, self._mean)']))

  # ---- count accumulators ---------------------------------------------------------------------------
  R.add(Contract(f'{AU}::MeanState.merge', PROPS, types=dict(self='MeanState', other='MeanState'),
                 modifies=['self.total', 'self.count'],
                 ensures=['self.total == old(self.total) + other.total', 'self.count == old(self.count) + other.count']))
  # TupleMeanState (two columns): column-wise MeanState merges; an empty receiver gets its OWN fresh states (never the operand's)
  R.cls('TupleMeanState', dict(states='tuple[]'))
  def _tms(self_cols, other_cols):
    def setup(it, env):
      env['self'].f['states'] = VTuple([it.fresh('MeanState', f'self.states.{i}') for i in range(self_cols)])
      env['other'].f['states'] = VTuple([it.fresh('MeanState', f'other.states.{i}') for i in range(other_cols)])
    return setup
  OKEPT = ['other.states[0].total == old(other.states[0].total) and other.states[0].count == old(other.states[0].count)',
           'other.states[1].total == old(other.states[1].total) and other.states[1].count == old(other.states[1].count)']
  R.add(Contract(f'{AU}::TupleMeanState.merge', PROPS, variant='both-non-empty', types=dict(self='TupleMeanState', other='TupleMeanState'),
                 setup=_tms(2, 2), modifies=['self.states[0].total', 'self.states[0].count', 'self.states[1].total', 'self.states[1].count'],
                 ensures=['self.states[0].total == old(self.states[0].total) + other.states[0].total and self.states[0].count == old(self.states[0].count) + other.states[0].count',
                          'self.states[1].total == old(self.states[1].total) + other.states[1].total and self.states[1].count == old(self.states[1].count) + other.states[1].count'] + OKEPT,
                 bounded='bounded_algebra'))
  R.add(Contract(f'{AU}::TupleMeanState.merge', PROPS, variant='an-empty-state', types=dict(self='TupleMeanState', other='TupleMeanState'),
                 setup=_tms(2, 0), modifies=[],
                 ensures=['len(self.states) == 2', 'len(other.states) == 0'], bounded='bounded_algebra',
                 note='a freshly created state is the neutral element: nothing raised, nothing changed (frame) - D33'))
  R.add(Contract(f'{AU}::TupleMeanState.merge', PROPS, variant='into-a-fresh-state', types=dict(self='TupleMeanState', other='TupleMeanState'),
                 setup=_tms(0, 2), modifies=['self.states'],
                 ensures=['len(self.states) == 2',
                          'self.states[0].total == other.states[0].total and self.states[0].count == other.states[0].count',
                          'self.states[1].total == other.states[1].total and self.states[1].count == other.states[1].count',
                          # the receiver has its own states: a later merge into it cannot reach the operand
                          'self.states[0] is not other.states[0] and self.states[1] is not other.states[1] and self.states[0] is not self.states[1]'] + OKEPT,
                 bounded='bounded_algebra'))
  R.add(Contract(f'{AU}::MeanState.result', PROPS, types=dict(self='MeanState'), ret='rreal',
                 ensures=['result == sdiv(self.total, self.count)']))
  R.add(Contract(f'{CL}::_ConfusionMatrix.__iadd__', PROPS, types=dict(self='_ConfusionMatrix', other='_ConfusionMatrix'),
                 ret='_ConfusionMatrix', modifies=['self.tp', 'self.tn', 'self.fp', 'self.fn'],
                 ensures=['self.tp == old(self.tp) + other.tp and self.tn == old(self.tn) + other.tn'
                          ' and self.fp == old(self.fp) + other.fp and self.fn == old(self.fn) + other.fn', 'result is self']))

  # ---- further additive accumulators: merge adds every statistic, the operand is not written (frame) -----------------
  def additive(cls, fields, real=()):
    R.cls(cls, {f: 'rreal' for f in fields})
    # (what merge() returns is not part of the properties - callers ignore it - so it is not part of the contract)
    R.add(Contract(f'{RS}::{cls}.merge', PROPS, types=dict(self=cls, other=cls), ret='obj?',
                   modifies=[f'self.{f}' for f in fields],
                   ensures=[f'self.{f} == old(self.{f}) + other.{f}' for f in fields],
                   bounded='bounded_partition', note='homomorphism on the sufficient statistics'))
  additive('_R2TjurBase', ['sum_y_true', 'sum_y_pred', 'sum_neg_y_true', 'sum_neg_y_pred'])
  additive('RRegression', ['num_samples', 'sum_x', 'sum_y', 'sum_xx', 'sum_yy', 'sum_xy'])
  additive('SymmetricPredictionDifference', ['num_samples', 'sum_half_pointwise_rel_diff'])

  # ---- the generic wrapper every mergeable metric runs through (aggregates/base.py) --------------------------------
  # A metric object is opaque; its abstract value lives in a ghost heap `absval` (object -> value) that only the opaque
  # `merge` / `add` calls update: x.merge(y) sets absval[x] := mg(absval[x], absval[y]) and touches nothing else (which is
  # what the merge contracts above establish for the shipped metrics); x.add(b) sets absval[x] := mg(absval[x], stat(b)).
  BASE = 'ml_metrics/_src/aggregates/base.py'
  mg = z3.Function('merged_value', Obj, Obj, Obj)
  fold = z3.Function('fold_upto', z3.IntSort(), Obj)        # ghost: value of the left fold of the first i states

  def _absval(it):
    if '__absval__' not in it.ghost:
      it.ghost['__absval__'] = [z3.Array(it.path.fresh_name('absval'), Obj, Obj)]
    return it.ghost['__absval__']

  def _merge(it, v, a, k):
    h = _absval(it)
    x, y = v.t, it.to_obj(a[0])
    h[0] = z3.Store(h[0], x, mg(z3.Select(h[0], x), z3.Select(h[0], y)))
    return NONE
  R.opaque_methods['merge'] = _merge

  @R.spec
  def value_now(it, a, k):
    return VOpaque(z3.Select(_absval(it)[0], it.to_obj(a[0])))

  @R.spec
  def value_at_entry(it, a, k):
    return VOpaque(z3.Select(it.ghost['__absval0__'], it.to_obj(a[0])))

  @R.spec
  def folded(it, a, k):
    return VOpaque(fold(it.to_int(a[0])))

  def _fold_setup(it, env):
    h = _absval(it)
    it.ghost['__absval0__'] = h[0]
    src = env['states'].src
    i, j = z3.Int(it.path.fresh_name('i')), z3.Int(it.path.fresh_name('j'))
    # definition of the ghost fold (definitional extension) over the values the states have at entry
    it.assume(fold(1) == z3.Select(h[0], z3.Select(src.arr, 0)))
    it.assume(z3.ForAll([i], z3.Implies(i >= 1, fold(i + 1) == mg(fold(i), z3.Select(h[0], z3.Select(src.arr, i))))))
    # the states are distinct objects
    it.assume(z3.ForAll([i, j], z3.Implies(z3.And(0 <= i, i < j, j < src.n), z3.Select(src.arr, i) != z3.Select(src.arr, j))))
    env['states'].fails = None

  stat = z3.Function('batch_statistics', Obj, Obj)          # ghost: the sufficient statistics of one batch

  def _add(it, v, a, k):
    h = _absval(it)
    h[0] = z3.Store(h[0], v.t, mg(z3.Select(h[0], v.t), stat(it.to_obj(a[0]))))
    return VOpaque(it.fresh_obj('batch_output'))
  R.opaque_methods['add'] = _add

  def _new(it, v, a, k):
    h = _absval(it)
    r = it.fresh_obj('batch_result')
    it.assume(r != v.t)
    h[0] = z3.Store(h[0], r, stat(it.to_obj(a[0])))
    return VOpaque(r)
  R.opaque_methods['new'] = _new

  @R.spec
  def statistics_of(it, a, k):
    return VOpaque(stat(it.to_obj(a[0])))

  @R.spec
  def merged(it, a, k):
    return VOpaque(mg(it.to_obj(a[0]), it.to_obj(a[1])))

  def _entry_values(it, env):
    it.ghost['__absval0__'] = _absval(it)[0]

  R.add(Contract(
      f'{BASE}::MergeableMetricAggFn.update_state', PROPS, types=dict(self='MergeableMetricAggFn', state='obj', args='tuple[obj]'), ret='obj',
      setup=_entry_values,
      ensures=['result is state', 'value_now(state) is merged(value_at_entry(state), statistics_of(args[0]))'],
      bounded='bounded_partition', note='updating with a batch = merging the statistics of that batch into the state (in place)'))
  R.add(Contract(
      f'{BASE}::CallableMetric.add', PROPS, types=dict(self='obj', args='tuple[obj]'), ret='obj', setup=_entry_values,
      ensures=['value_now(self) is merged(value_at_entry(self), statistics_of(args[0]))',
               # the per-batch value handed back is the statistic of this batch alone: it does not depend on what was accumulated
               'value_now(result) is statistics_of(args[0])', 'result is not self'],
      bounded='bounded_row_locality', note='default add: new(batch) then merge - the homomorphism the batching invariance rests on'))

  R.cls('MergeableMetricAggFn', dict(metric_maker='obj'))
  R.add(Contract(
      f'{BASE}::MergeableMetricAggFn.merge_states', PROPS, types=dict(self='MergeableMetricAggFn', states='iter[obj]'), ret='obj', setup=_fold_setup,
      requires=['states.pos == 0', 'len(states.src) >= 1'], modifies=['states'],
      ensures=[
          # the first state is returned and holds the left fold of all the states ...
          'result is states.src[0]', 'value_now(result) is folded(len(states.src))',
          # ... and ONLY the first state is modified: every other operand keeps its value
          'forall(lambda j: value_now(states.src[j]) is value_at_entry(states.src[j]), 1, len(states.src))'],
      loops={0: dict(invariant=['result is states.src[0]', 'idx_state >= 1', 'value_now(result) is folded(idx_state)',
                                'forall(lambda j: value_now(states.src[j]) is value_at_entry(states.src[j]), 1, len(states.src))'])},
      bounded='bounded_merge_states',
      note='merge_states = left fold with merge; with the additive merge contracts the fold is order- and bracketing-independent (lemma)'))

  # MinMaxAndCount: the count adds up; min / max combine by min / max and an undefined (NaN) side stays undefined,
  # exactly as `add` treats a NaN in the data - so that one accumulator and merged shards agree
  R.cls('MinMaxAndCount', dict(_count='rreal', _min='real', _max='real', axis='none', batch_score_fn='none'))
  R.add(Contract(
      f'{RS}::MinMaxAndCount.merge', PROPS, types=dict(self='MinMaxAndCount', other='MinMaxAndCount'), ret='obj?',
      modifies=['self._count', 'self._min', 'self._max'],
      ensures=['self._count == old(self._count) + other._count',
               'isnan(self._min) == (isnan(old(self._min)) or isnan(other._min))',
               'implies(not isnan(self._min), val(self._min) == min(val(old(self._min)), val(other._min)))',
               'isnan(self._max) == (isnan(old(self._max)) or isnan(other._max))',
               'implies(not isnan(self._max), val(self._max) == max(val(old(self._max)), val(other._max)))'],
      bounded='bounded_partition'))

  # frequency states (TopKWordNGrams / PatternFrequency): merging ADDS the count of every n-gram / pattern - the long tail
  # included, an n-gram outside today's top k can be on top after the next merge - and leaves the operand alone
  R.cls('FrequencyState', dict(counter='counter[obj]', count='int'))
  R.cls('TopKWordNGrams', dict(k='int', n='int', use_first_ngram_only='bool', count_duplicate='bool', _state='FrequencyState'))
  R.cls('PatternFrequency', dict(patterns='obj', count_duplicate='bool', _state='FrequencyState'))

  @R.spec
  def count_of(it, a, k):       # collections.Counter: a key that is not stored counts 0
    m, key = a[0], it.to_obj(a[1])
    return VInt(z3.If(z3.Select(m.has, key), z3.Select(m.val, key), z3.IntVal(0)))

  @R.spec
  def size_of(it, a, k):        # number of distinct keys of a counter
    return VInt(a[0].size)

  TX = 'ml_metrics/_src/aggregates/text.py'
  ADDS = lambda s, o: [f"forall(lambda g: count_of({s}.counter, g) == old(count_of({s}.counter, g)) + count_of({o}.counter, g), 'obj')",
                       f'{s}.count == old({s}.count) + {o}.count',
                       f"forall(lambda g: count_of({o}.counter, g) == old(count_of({o}.counter, g)), 'obj')", f'{o}.count == old({o}.count)',
                       # distinct keys: at least those of the larger side, at most those of both
                       f'size_of({s}.counter) >= old(size_of({s}.counter)) and size_of({s}.counter) >= size_of({o}.counter)'
                       f' and size_of({s}.counter) <= old(size_of({s}.counter)) + size_of({o}.counter)']
  R.add(Contract(f'{AU}::FrequencyState.merge', PROPS, types=dict(self='FrequencyState', other='FrequencyState'),
                 modifies=['self.counter', 'self.count'], ensures=ADDS('self', 'other'), bounded='bounded_algebra',
                 note='A2: collections.Counter.update adds key by key'))
  for cls in ('TopKWordNGrams', 'PatternFrequency'):
    R.add(Contract(f'{TX}::{cls}.merge', PROPS, types=dict(self=cls, other=cls),
                   requires=['self.k > 0 and other.k == self.k'] if cls == 'TopKWordNGrams' else [],      # __post_init__ rejects k <= 0
                   modifies=['self._state.counter', 'self._state.count'], ensures=ADDS('self._state', 'other._state'), bounded='bounded_algebra',
                   replay='replay_frequency_merge' if cls == 'TopKWordNGrams' else None,
                   witness=dict(k='self.k', distinct_self='size_of(self._state.counter)', distinct_other='size_of(other._state.counter)') if cls == 'TopKWordNGrams' else {},
                   note='the merged state keeps the count of EVERY n-gram / pattern (no pruning to the current top k)'))

  R.cls('Counter', dict(_counter='counter[obj]'))
  R.add(Contract(f'{RS}::Counter.merge', PROPS, types=dict(self='Counter', other='Counter'), ret='obj?', modifies=['self._counter'],
                 ensures=["forall(lambda g: count_of(self._counter, g) == old(count_of(self._counter, g)) + count_of(other._counter, g), 'obj')",
                          "forall(lambda g: count_of(other._counter, g) == old(count_of(other._counter, g)), 'obj')"],
                 bounded='bounded_algebra'))

  # ThresholdedRetrieval: the value read for a metric is a function of the CURRENT counts, whatever was read before
  # (the state may already have been read in any earlier state: memoised getters are modelled, see memoised_get)
  RT = 'ml_metrics/_src/aggregates/retrieval.py'
  R.cls('_ThresholdedConfusionMatrix', dict(thresholds='rreal', tp_trues='rreal', tp_preds='rreal', p_trues='rreal', p_preds='rreal'))
  R.cls('RetrievalMetricAtThreshold', dict(metric='str', threshold='none'))
  for mname, spec in (('precision', 'sdiv(self.tp_preds, self.p_preds)'), ('recall', 'sdiv(self.tp_trues, self.p_trues)'),
                      ('f1_score', 'sdiv(2 * sdiv(self.tp_preds, self.p_preds) * sdiv(self.tp_trues, self.p_trues), sdiv(self.tp_preds, self.p_preds) + sdiv(self.tp_trues, self.p_trues))')):
    def _metric(it, env, mname=mname):
      env['metric'].f['metric'] = VStr(mname)
    R.add(Contract(
        f'{RT}::_ThresholdedConfusionMatrix.get_metric', PROPS, variant=mname, types=dict(self='_ThresholdedConfusionMatrix', metric='RetrievalMetricAtThreshold'),
        ret='rreal', setup=_metric, modifies=[], ensures=[f'result == {spec}'],
        bounded='bounded_algebra', replay='replay_result_after_update', witness=dict(metric=f"'{mname}'"),
        note='reading a result does not disturb subsequent updates: the value reflects the counts at the time of the read'))

  # UnboundedSampler (two input columns): merge appends the operand's samples column by column; the operand's lists are
  # neither written nor shared (merging into a fresh sampler must not adopt them: later adds would leak into the operand)
  R.cls('UnboundedSampler', dict(_samples='tuple[]', _multi_input='bool'))
  def _sampler(self_cols, other_cols):
    def setup(it, env):
      env['self'].f['_samples'] = it.fresh('tuple[' + ','.join(['list[obj]'] * self_cols) + ']', 'self._samples') if self_cols else VTuple([])
      env['other'].f['_samples'] = it.fresh('tuple[' + ','.join(['list[obj]'] * other_cols) + ']', 'other._samples') if other_cols else VTuple([])
      it.ghost['o0'] = env['other'].f['_samples']
    return setup
  APP = lambda c: (f'len(self._samples[{c}]) == len(old(self._samples[{c}])) + len(other._samples[{c}])'
                   f' and forall(lambda j: self._samples[{c}][j] is old(self._samples[{c}])[j], 0, len(old(self._samples[{c}])))'
                   f' and forall(lambda j: self._samples[{c}][len(old(self._samples[{c}])) + j] is other._samples[{c}][j], 0, len(other._samples[{c}]))')
  SAME = lambda c: (f'len(other._samples[{c}]) == len(old(other._samples[{c}]))'
                    f' and forall(lambda j: other._samples[{c}][j] is old(other._samples[{c}])[j], 0, len(other._samples[{c}]))')
  R.add(Contract(
      f'{RS}::UnboundedSampler.merge', PROPS, variant='both-non-empty', types=dict(self='UnboundedSampler', other='UnboundedSampler'), ret='obj?',
      setup=_sampler(2, 2), modifies=['self._samples'],
      ensures=[APP(0), APP(1), SAME(0), SAME(1)], bounded='bounded_algebra'))
  R.add(Contract(
      f'{RS}::UnboundedSampler.merge', PROPS, variant='into-a-fresh-sampler', types=dict(self='UnboundedSampler', other='UnboundedSampler'), ret='obj?',
      setup=_sampler(0, 2), modifies=['self._samples', 'self._multi_input'],
      ensures=['len(self._samples) == 2', SAME(0), SAME(1),
               'len(self._samples[0]) == len(other._samples[0]) and len(self._samples[1]) == len(other._samples[1])',
               'forall(lambda j: self._samples[0][j] is other._samples[0][j], 0, len(other._samples[0]))',
               'forall(lambda j: self._samples[1][j] is other._samples[1][j], 0, len(other._samples[1]))',
               # no sharing: the receiver got its own lists
               'self._samples[0] is not other._samples[0] and self._samples[1] is not other._samples[1]',
               'self._multi_input == other._multi_input'],
      bounded='bounded_algebra'))
  R.add(Contract(
      f'{RS}::UnboundedSampler.merge', PROPS, variant='an-empty-sampler', types=dict(self='UnboundedSampler', other='UnboundedSampler'), ret='obj?',
      setup=_sampler(2, 0), modifies=[],
      ensures=['len(self._samples[0]) == len(old(self._samples[0])) and len(self._samples[1]) == len(old(self._samples[1]))'],
      bounded='bounded_algebra', note='merging an empty sampler is a no-op (D17)'))

  # ValueAccumulator without a concat_fn: columns are concatenated into NEW lists (neither operand's list is written);
  # an empty receiver adopts the operand's columns, an empty operand changes nothing
  R.cls('ValueAccumulator', dict(_data='tuple[]', concat_fn='obj', metric_fns='obj'))
  def _acc(self_cols, other_cols):
    def setup(it, env):
      env['self'].f['_data'] = it.fresh('tuple[' + ','.join(['list[obj]'] * self_cols) + ']', 'self._data') if self_cols else VTuple([])
      env['other'].f['_data'] = it.fresh('tuple[' + ','.join(['list[obj]'] * other_cols) + ']', 'other._data') if other_cols else VTuple([])
      env['self'].f['concat_fn'] = NONE
      it.ghost['s0'] = VTuple(list(env['self'].f['_data'].items))
      it.ghost['o0'] = VTuple(list(env['other'].f['_data'].items))
    return setup
  CAT = lambda c: (f'len(self._data[{c}]) == len(s0[{c}]) + len(o0[{c}])'
                   f' and forall(lambda j: self._data[{c}][j] is s0[{c}][j], 0, len(s0[{c}]))'
                   f' and forall(lambda j: self._data[{c}][len(s0[{c}]) + j] is o0[{c}][j], 0, len(o0[{c}]))')
  KEPT = lambda who, g, c: (f'{who}[{c}] is {g}[{c}] and len({g}[{c}]) == len(old({g}[{c}]))'
                            f' and forall(lambda j: {g}[{c}][j] is old({g}[{c}])[j], 0, len({g}[{c}]))')
  R.add(Contract(
      f'{RS}::ValueAccumulator.merge', PROPS, variant='both-non-empty', types=dict(self='ValueAccumulator', other='ValueAccumulator'),
      setup=_acc(2, 2), modifies=['self._data'],
      ensures=['result is None', 'len(self._data) == 2', CAT(0), CAT(1),
               KEPT('other._data', 'o0', 0), KEPT('other._data', 'o0', 1),
               # the receiver's old column lists are not written either (another accumulator may have adopted them)
               'len(s0[0]) == len(old(s0[0])) and len(s0[1]) == len(old(s0[1]))',
               'self._data[0] is not o0[0] and self._data[1] is not o0[1]'],
      bounded='bounded_algebra'))
  R.add(Contract(
      f'{RS}::ValueAccumulator.merge', PROPS, variant='into-a-fresh-accumulator', types=dict(self='ValueAccumulator', other='ValueAccumulator'),
      setup=_acc(0, 2), modifies=['self._data'],
      ensures=['result is None', 'len(self._data) == 2',
               'len(self._data[0]) == len(o0[0]) and forall(lambda j: self._data[0][j] is o0[0][j], 0, len(o0[0]))',
               'len(self._data[1]) == len(o0[1]) and forall(lambda j: self._data[1][j] is o0[1][j], 0, len(o0[1]))',
               KEPT('other._data', 'o0', 0), KEPT('other._data', 'o0', 1)],
      bounded='bounded_algebra'))
  R.add(Contract(
      f'{RS}::ValueAccumulator.merge', PROPS, variant='an-empty-accumulator', types=dict(self='ValueAccumulator', other='ValueAccumulator'),
      setup=_acc(2, 0), modifies=[],
      ensures=['result is None', KEPT('self._data', 's0', 0), KEPT('self._data', 's0', 1)],
      bounded='bounded_algebra'))

  R.bounded_checks['C01'] = [
      ('bounded_partition', 'every shipped metric: all shard/batch compositions (incl. empty shards) vs one batch'),
      ('bounded_row_locality', 'per-example values returned by add() do not depend on batch-mates (TopKRetrieval)'),
  ]
  R.bounded_checks['C11'] = [
      ('bounded_algebra', 'every shipped metric: associativity, commutativity, neutral element, operand intact, no leak, repeatable result'),
      ('bounded_merge_states', 'AggregateFn.merge_states over 2..5 states modifies only its first state'),
  ]
  for p_ in PROPS:
    R.trusted[p_] = ['A1 floats are reals with a NaN flag', 'A3 pointwise view; count/sum/sum-of-squares of the non-NaN entries are additive under row concatenation',
                     'A3 np.all/np.any over the other elements of an array is an unknown Boolean', 'A7 pyvc engine, z3, cvc5',
                     'library-backed accumulators (np.histogram, collections.Counter, list concatenation) only bounded']

  # ---- algebra over the abstraction (pure arithmetic lemmas) --------------------------------------------
  t3 = dict(n1='rreal', s1='rreal', n2='rreal', s2='rreal', n3='rreal', s3='rreal')
  R.lemma('sufficient-statistics-merge-is-associative-and-commutative', 'C11', t3, [],
          ['(n1 + n2) + n3 == n1 + (n2 + n3) and (s1 + s2) + s3 == s1 + (s2 + s3)', 'n1 + n2 == n2 + n1 and s1 + s2 == s2 + s1',
           'n1 + 0 == n1 and 0 + s1 == s1'],
          note='with the merge contracts: every bracketing/order of merges yields the same (n, S, Q); (0, 0, 0) (a fresh state) is neutral')
  R.lemma('mean-and-variance-are-functions-of-the-statistics', 'C01',
          dict(n='rreal', m1='rreal', m2='rreal', v1='rreal', v2='rreal'),
          ['n > 0', 'total_of(n, m1) == total_of(n, m2)', 'sumsq_of(n, m1, v1) == sumsq_of(n, m2, v2)'],
          ['m1 == m2', 'v1 == v2'],
          note='equal statistics => equal result: batching/sharding cannot change mean or variance')
  R.lemma('rebracketing-a-concatenation-keeps-the-fold', 'C01',
          dict(a='rreal', b='rreal', c='rreal', d='rreal'), [],
          ['((a + b) + c) + d == (a + (b + c)) + d', '((a + b) + (c + d)) == (((a + b) + c) + d)'],
          note='fold meta-lemma instance: shards-of-batches vs batches, for an additive statistic')
