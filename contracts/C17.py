"""C17 - Lazy expressions / bounded LRU cache (contracts on func_utils.LruCache)."""
import z3
from pyvc.contracts import Contract
from pyvc.values import *   # pylint: disable=wildcard-import

FU = 'ml_metrics/_src/utils/func_utils.py'
P = 'C17'

# Abstract view of the cache: presence, value and a logical last-use stamp per
# key ("least recently used" = the present key of minimal stamp); OrderedDict
# order is modelled by those stamps (A2).
WF = ['self.currsize == len(self.data)', 'self.currsize >= 0', 'lru_wf(self.data)']


def register(R):
  R.cls('LruCache', dict(maxsize='int', currsize='int', hits='int', misses='int', data='omap[obj,obj]'))

  @R.spec
  def lru_wf(it, a, k):
    m = a[0]
    i = z3.Const(it.path.fresh_name('i'), Obj)
    j = z3.Const(it.path.fresh_name('j'), Obj)
    return VBool(z3.And(
        z3.ForAll([i], z3.Implies(z3.Select(m.has, i), z3.Select(m.stamp, i) < m.clock)),
        z3.ForAll([i, j], z3.Implies(z3.And(z3.Select(m.has, i), z3.Select(m.has, j), i != j),
                                    z3.Select(m.stamp, i) != z3.Select(m.stamp, j)))))

  @R.spec
  def stamp(it, a, k):
    return VInt(z3.Select(a[0].stamp, it.to_obj(a[1])))

  @R.spec
  def is_lru(it, a, k):
    '''key is the least recently used entry of map m.'''
    m, key = a
    kk = it.to_obj(key)
    j = z3.Const(it.path.fresh_name('j'), Obj)
    return VBool(z3.And(z3.Select(m.has, kk),
                        z3.ForAll([j], z3.Implies(z3.Select(m.has, j), z3.Select(m.stamp, kk) <= z3.Select(m.stamp, j)))))

  @R.spec
  def value_of(it, a, k):
    return VOpaque(z3.Select(a[0].val, it.to_obj(a[1])))

  t = dict(self='LruCache')
  R.add(Contract(
      f'{FU}::LruCache.__getitem__', P, types=dict(t, key='obj'), ret='obj',
      modifies=['self.hits', 'self.misses', 'self.data'],
      requires=WF,
      raises={'KeyError': 'key not in self.data'},
      ensures=WF + [
          'result is old(value_of(self.data, key))',
          'self.hits == old(self.hits) + 1 and self.misses == old(self.misses)',
          # a hit makes the key the most recently used; nothing else changes place, value or presence
          "forall(lambda k: implies(k in self.data and k is not key, stamp(self.data, key) > stamp(self.data, k)), 'obj')",
          "forall(lambda k: (k in self.data) == (k in old(self.data)), 'obj')",
          "forall(lambda k: implies(k in self.data, value_of(self.data, k) is old(value_of(self.data, k))), 'obj')",
          "forall(lambda k: implies(k is not key, stamp(self.data, k) == old(stamp(self.data, k))), 'obj')",
      ],
      raises_ensures={'KeyError': [
          'self.misses == old(self.misses) + 1 and self.hits == old(self.hits)',
          "forall(lambda k: (k in self.data) == (k in old(self.data)), 'obj')",
          "forall(lambda k: stamp(self.data, k) == old(stamp(self.data, k)), 'obj')",
      ]},
      bounded='bounded_lru'))
  R.add(Contract(
      f'{FU}::LruCache.__setitem__', P, types=dict(t, key='obj', value='obj'),
      modifies=['self.currsize', 'self.data'],
      requires=WF + ['self.maxsize >= 1', 'self.currsize <= self.maxsize'],
      ensures=WF + [
          'self.currsize <= self.maxsize',
          'key in self.data and value_of(self.data, key) is value',
          # nothing is invented
          "forall(lambda k: implies(k is not key and k not in old(self.data), k not in self.data), 'obj')",
          # only the least recently used entry of the old cache can be evicted, never the new key
          "forall(lambda k: implies(k is not key and k in old(self.data) and not old(is_lru(self.data, k)), k in self.data), 'obj')",
          # and it is evicted exactly when a new key arrives at a full cache
          "forall(lambda k: implies(k is not key and old(is_lru(self.data, k)),"
          " (k in self.data) == (old(key in self.data) or old(self.currsize) < self.maxsize)), 'obj')",
          "forall(lambda k: implies(k in self.data and k is not key, value_of(self.data, k) is old(value_of(self.data, k))"
          " and stamp(self.data, k) == old(stamp(self.data, k))), 'obj')",
          # a new key becomes the most recent; an existing key keeps its place
          "implies(not old(key in self.data), forall(lambda k: implies(k in self.data and k is not key,"
          " stamp(self.data, key) > stamp(self.data, k)), 'obj'))",
          "implies(old(key in self.data), stamp(self.data, key) == old(stamp(self.data, key)))",
          'self.currsize == old(self.currsize) + ite(old(key in self.data) or old(self.currsize) >= self.maxsize, 0, 1)',
      ],
      bounded='bounded_lru'))
  R.add(Contract(
      f'{FU}::LruCache.cache_insert', P, types=dict(t, key='obj', value='obj'),
      modifies=['self.currsize', 'self.data'],
      requires=WF + ['self.maxsize >= 1', 'self.currsize <= self.maxsize'],
      ensures=['key in self.data and value_of(self.data, key) is value', 'self.currsize <= self.maxsize'],
      bounded='bounded_lru'))
  R.add(Contract(
      f'{FU}::LruCache.__contains__', P, types=dict(t, key='obj'), ret='bool',
      ensures=['result == (key in self.data)'], bounded='bounded_lru'))
  R.add(Contract(
      f'{FU}::LruCache.__len__', P, types=t, ret='int', ensures=['result == self.currsize'], bounded='bounded_lru'))
  R.add(Contract(
      f'{FU}::LruCache.cache_clear', P, types=t, modifies=['self.currsize', 'self.hits', 'self.misses', 'self.data'],
      ensures=["forall(lambda k: k not in self.data, 'obj')", 'self.currsize == 0 and self.hits == 0 and self.misses == 0',
               'len(self.data) == 0'],
      bounded='bounded_lru'))

  # ---- the caching wrapper of result_ (closure of _maybe_lru_cache: free variables lazy_obj_cache, fn) ----
  LF = 'ml_metrics/_src/chainables/lazy_fns.py'
  R.cls('LazyObject', dict(value='obj', _cache_result='bool', _lazy_result='bool', _id='int'), frozen=True)
  R.cls('LazyFn', dict(value='obj', _cache_result='bool', _lazy_result='bool', _id='int', args='obj', kwargs='obj'), frozen=True)

  @R.spec
  def app(it, a, k):              # the value the wrapped (uninterpreted) function returns for x
    from pyvc.calls import opaque_call
    f, x = a
    fn_ = opaque_call.get(1)
    if fn_ is None:
      fn_ = z3.Function('apply1', Obj, Obj, Obj)
      opaque_call[1] = fn_
    return VOpaque(fn_(it.to_obj(f), it.to_obj(x)))

  @R.spec
  def fn_calls(it, a, k):         # how often the wrapped function was evaluated during this call
    return VInt(sum(1 for e in it.events if e[0] == 'callfn'))

  # two traced calls are the same cache key iff they are the same object (id) or the same function applied to
  # the same positional AND keyword arguments - otherwise a cached call could return another call's result
  R.add(Contract(f'{LF}::LazyFn.__eq__', P, types=dict(self='LazyFn', other='LazyFn'), ret='bool',
                 ensures=['result == (self._id == other._id or (self.value is other.value and self.args is other.args'
                          ' and self.kwargs is other.kwargs))'],
                 bounded='bounded_lazy_eval', note='values/args/kwargs are opaque here: `==` on them is identity of the opaque terms'))
  R.add(Contract(f'{LF}::LazyObject.__eq__', P, types=dict(self='LazyObject', other='LazyObject'), ret='bool',
                 when=lambda it, a, k: isinstance(a[1], VObj),
                 ensures=['result == (self._id == other._id or (not self._cache_result and not other._cache_result and self.value is other.value))'],
                 bounded='bounded_lazy_eval'))

  _prev_hook = R.isinstance_hook
  R.isinstance_hook = lambda it, v, cname: (z3.BoolVal(False) if isinstance(v, VOpaque) and cname in ('LazyObject', 'LazyFn')
                                            else (_prev_hook(it, v, cname) if _prev_hook else None))      # a plain value is not a lazy object
  R.add(Contract(f'{LF}::LazyObject.__eq__', P, variant='plain-operand', types=dict(self='LazyObject', other='obj'), ret='bool',
                 when=lambda it, a, k: isinstance(a[1], VOpaque), requires=['other is not self'],      # a plain value is not this lazy object
                 ensures=['result == False'], bounded='bounded_lazy_eval',
                 note='a lazy object never equals a plain value - and comparing them does not raise (D26: a hash collision in the result cache made it)'))

  CW = ['lazy_obj_cache.currsize == len(lazy_obj_cache.data)', 'lazy_obj_cache.currsize >= 0', 'lru_wf(lazy_obj_cache.data)',
        'lazy_obj_cache.maxsize >= 1', 'lazy_obj_cache.currsize <= lazy_obj_cache.maxsize']
  for cls_, variant in (('LazyFn', 'traced-call'), ('LazyObject', 'held-object')):
    missing = {'LazyObjectMissingError': 'x._cache_result and x not in lazy_obj_cache.data'} if cls_ == 'LazyObject' else {}
    R.add(Contract(
        f'{LF}::_maybe_lru_cache.decorator.wrapped_fn', P, variant=variant,
        types=dict(x=cls_), ret='obj', ghost=dict(lazy_obj_cache='LruCache', fn='obj'),
        requires=CW,
        raises=missing,
        ensures=[
            # a cached call that hits returns the IDENTICAL stored object without evaluating again
            'implies(x._cache_result and old(x in lazy_obj_cache.data), result is old(value_of(lazy_obj_cache.data, x)) and fn_calls() == 0)',
            # a cached call that misses evaluates exactly once and stores that result
            'implies(x._cache_result and not old(x in lazy_obj_cache.data), fn_calls() == 1 and result is app(fn, x)'
            ' and x in lazy_obj_cache.data and value_of(lazy_obj_cache.data, x) is result)',
            # without caching every materialisation evaluates afresh and the cache is not touched
            'implies(not x._cache_result, fn_calls() == 1 and result is app(fn, x)'
            " and forall(lambda k: (k in lazy_obj_cache.data) == old(k in lazy_obj_cache.data), 'obj'))",
        ],
        bounded='bounded_lazy_eval',
        note='dereferencing a held object that is no longer in the cache raises the dedicated missing-object error, never a stale value'))

  # ---- the evaluation step: a traced call evaluates its function once on its evaluated arguments --------------------
  TY = 'ml_metrics/_src/types.py'
  from pyvc.builtins_ import callable_fn
  from pyvc.calls import opaque_call

  def applied(it, a, k):
    '''what the (uninterpreted) callable f returns for these positional arguments'''
    args = [it.to_obj(x) for x in a]
    key = len(args) - 1
    fn_ = opaque_call.get(key)
    if fn_ is None:
      fn_ = z3.Function(f'apply{key}', *([Obj] * (key + 2)))
      opaque_call[key] = fn_
    return VOpaque(fn_(*args))
  R.spec(applied)

  @R.spec
  def nth_result(it, a, k):
    '''result of the n-th call (0-based) of the named contracted function on this path'''
    name, n = a[0].s, z3.simplify(it.to_int(a[1])).as_long()
    hits = [r for nme, r in it.call_log if nme.endswith(name)]
    return hits[n]

  @R.spec
  def is_lazy(it, a, k):
    v = a[0]
    return VBool(isinstance(v, VObj) and v.cls in ('LazyFn', 'LazyObject'))

  @R.spec
  def kw(it, a, k):
    return VStr('kw:' + a[0].s)

  # ASSUMED: the only Resolvable values are LazyObject / LazyFn; no registered maker applies to a plain value
  R.add(Contract(f'{TY}::is_resolvable', 'trusted', types=dict(obj='obj'), ret='bool', ensures=['result == is_lazy(obj)']))
  R.cls('_Makers', dict(data='obj'))
  R.add(Contract(f'{LF}::_Makers.__getitem__', 'trusted', types=dict(self='_Makers', type_='obj'), ret='none'))
  # the generic statement about evaluating any traced call (the variants below are what is proved about it)
  R.add(Contract(f'{LF}::LazyFn.result_', 'trusted', variant='any', types=dict(self='LazyFn'), ret='obj', inline=False, canary=False,
                 requires=['not self._cache_result'], may_raise=['TypeError', 'ValueError'], note='call-site form: some object, one evaluation'))

  def _lazy_args(*kinds, kwargs=(), same=False):
    def setup(it, env):
      slf = env['self']
      items = [it.fresh('LazyFn' if kd == 'lazy' else 'obj', f'arg{j}') for j, kd in enumerate(kinds)]
      if same:
        items[1] = items[0]
      slf.f['args'] = VTuple(items)
      slf.f['kwargs'] = VTuple([VTuple([VStr(n), it.fresh('LazyFn' if kd == 'lazy' else 'obj', f'kw_{n}')]) for n, kd in kwargs])
      for x in items + [p.items[1] for p in slf.f['kwargs'].items]:
        if isinstance(x, VObj):
          it.assume(z3.Not(x.f['_cache_result'].t))
      it.assume(callable_fn(it.to_obj(slf.f['value'])))
    return setup

  R.add(Contract(f'{LF}::_maybe_make', P, variant='plain', types=dict(maybe_lazy='obj'), ret='obj',
                 when=lambda it, a, k: isinstance(a[0], VOpaque), ensures=['result is maybe_lazy', "ncalls('LazyFn.result_') == 0"],
                 bounded='bounded_lazy_eval', note='a plain value is itself'))
  R.add(Contract(f'{LF}::_maybe_make', P, variant='lazy', types=dict(maybe_lazy='LazyFn'), ret='obj',
                 when=lambda it, a, k: isinstance(a[0], VObj), requires=['not maybe_lazy._cache_result'],
                 may_raise=['TypeError', 'ValueError'],
                 ensures=["ncalls('LazyFn.result_') == 1", "result is last_result('LazyFn.result_')"],
                 bounded='bounded_lazy_eval', note='a traced call is evaluated, exactly once'))
  never = lambda it, a, k: False
  R.add(Contract(
      f'{LF}::LazyFn.result_', P, variant='plain-and-lazy-argument', types=dict(self='LazyFn'), ret='obj', when=never,
      setup=_lazy_args('plain', 'lazy'), requires=['not self._cache_result', 'not self._lazy_result', 'self.value is not None'],
      may_raise=['TypeError', 'ValueError'],
      # lazy == eager: the function is applied to the plain argument as it is and to the VALUE of the traced argument
      # (_maybe_make is called for: the function, each argument in order, the result)
      ensures=["ncalls('_maybe_make') == 4", "result is applied(self.value, self.args[0], nth_result('_maybe_make', 2))"],
      bounded='bounded_lazy_eval'))
  R.add(Contract(
      f'{LF}::LazyFn.result_', P, variant='same-traced-argument-twice', types=dict(self='LazyFn'), ret='obj', when=never,
      setup=_lazy_args('lazy', 'lazy', same=True), requires=['not self._cache_result', 'not self._lazy_result', 'self.value is not None'],
      may_raise=['TypeError', 'ValueError'],
      # the same sub-expression passed twice is evaluated twice (afresh each time), left to right
      ensures=["ncalls('_maybe_make') == 4",
               "result is applied(self.value, nth_result('_maybe_make', 1), nth_result('_maybe_make', 2))"],
      bounded='bounded_lazy_eval'))
  R.add(Contract(
      f'{LF}::LazyFn.result_', P, variant='keyword-argument', types=dict(self='LazyFn'), ret='obj', when=never,
      setup=_lazy_args('plain', kwargs=(('b', 'lazy'),)), requires=['not self._cache_result', 'not self._lazy_result', 'self.value is not None'],
      may_raise=['TypeError', 'ValueError'],
      # keyword arguments are evaluated too and passed under their own names
      ensures=["ncalls('_maybe_make') == 4", "result is applied(self.value, self.args[0], kw('b'), nth_result('_maybe_make', 2))"],
      bounded='bounded_lazy_eval'))

  R.bounded_checks[P] = [
      ('bounded_lru', 'LruCache get/set/clear histories vs reference LRU (small scope)'),
      ('bounded_lazy_eval', 'traced expression trees evaluate to the eager value, also after pickling; cache identity; missing-object error'),
  ]
  R.trusted[P] = ['A2 collections.OrderedDict modelled by per-key logical time stamps (insert / move_to_end = fresh stamp, first key = minimal stamp)',
                  'A2 pickling round trip (cloudpickle/pickle) trusted; lazy_fns evaluation: one step under contract (uninterpreted callables are deterministic functions of their arguments), '
                  'ASSUMED is_resolvable <=> LazyObject/LazyFn and no registered maker applies to plain values; deeper nesting by the recursion contract, pickled expressions bounded only',
                  'A4 sequential semantics', 'A7 pyvc engine, z3, cvc5']
