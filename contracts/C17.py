"""C17 - Lazy expressions / bounded LRU cache (contracts on func_utils.LruCache)."""
import z3
from pyvc.contracts import Contract
from pyvc.values import *   # pylint: disable=wildcard-import

FU = 'ml_metrics/_src/utils/func_utils.py'
P = 'C17'

# Abstract view of the cache: presence, value and a logical last-use stamp per
# key ("least recently used" = the present key of minimal stamp); OrderedDict
# order is modelled by those stamps (A2).
WF = ['self.currsize == len(self.data)', 'self.currsize >= 0', 'lru_wf(self.data)']


def register(R):
  R.cls('LruCache', dict(maxsize='int', currsize='int', hits='int', misses='int', data='omap[obj,obj]'))

  @R.spec
  def lru_wf(it, a, k):
    m = a[0]
    i = z3.Const(it.path.fresh_name('i'), Obj)
    j = z3.Const(it.path.fresh_name('j'), Obj)
    return VBool(z3.And(
        z3.ForAll([i], z3.Implies(z3.Select(m.has, i), z3.Select(m.stamp, i) < m.clock)),
        z3.ForAll([i, j], z3.Implies(z3.And(z3.Select(m.has, i), z3.Select(m.has, j), i != j),
                                    z3.Select(m.stamp, i) != z3.Select(m.stamp, j)))))

  @R.spec
  def stamp(it, a, k):
    return VInt(z3.Select(a[0].stamp, it.to_obj(a[1])))

  @R.spec
  def is_lru(it, a, k):
    '''key is the least recently used entry of map m.'''
    m, key = a
    kk = it.to_obj(key)
    j = z3.Const(it.path.fresh_name('j'), Obj)
    return VBool(z3.And(z3.Select(m.has, kk),
                        z3.ForAll([j], z3.Implies(z3.Select(m.has, j), z3.Select(m.stamp, kk) <= z3.Select(m.stamp, j)))))

  @R.spec
  def value_of(it, a, k):
    return VOpaque(z3.Select(a[0].val, it.to_obj(a[1])))

  t = dict(self='LruCache')
  R.add(Contract(
      f'{FU}::LruCache.__getitem__', P, types=dict(t, key='obj'), ret='obj',
      modifies=['self.hits', 'self.misses', 'self.data'],
      requires=WF,
      raises={'KeyError': 'key not in self.data'},
      ensures=WF + [
          'result is old(value_of(self.data, key))',
          'self.hits == old(self.hits) + 1 and self.misses == old(self.misses)',
          # a hit makes the key the most recently used; nothing else changes place, value or presence
          "forall(lambda k: implies(k in self.data and k is not key, stamp(self.data, key) > stamp(self.data, k)), 'obj')",
          "forall(lambda k: (k in self.data) == (k in old(self.data)), 'obj')",
          "forall(lambda k: implies(k in self.data, value_of(self.data, k) is old(value_of(self.data, k))), 'obj')",
          "forall(lambda k: implies(k is not key, stamp(self.data, k) == old(stamp(self.data, k))), 'obj')",
      ],
      raises_ensures={'KeyError': [
          'self.misses == old(self.misses) + 1 and self.hits == old(self.hits)',
          "forall(lambda k: (k in self.data) == (k in old(self.data)), 'obj')",
          "forall(lambda k: stamp(self.data, k) == old(stamp(self.data, k)), 'obj')",
      ]},
      bounded='bounded_lru'))
  R.add(Contract(
      f'{FU}::LruCache.__setitem__', P, types=dict(t, key='obj', value='obj'),
      modifies=['self.currsize', 'self.data'],
      requires=WF + ['self.maxsize >= 1', 'self.currsize <= self.maxsize'],
      ensures=WF + [
          'self.currsize <= self.maxsize',
          'key in self.data and value_of(self.data, key) is value',
          # nothing is invented
          "forall(lambda k: implies(k is not key and k not in old(self.data), k not in self.data), 'obj')",
          # only the least recently used entry of the old cache can be evicted, never the new key
          "forall(lambda k: implies(k is not key and k in old(self.data) and not old(is_lru(self.data, k)), k in self.data), 'obj')",
          # and it is evicted exactly when a new key arrives at a full cache
          "forall(lambda k: implies(k is not key and old(is_lru(self.data, k)),"
          " (k in self.data) == (old(key in self.data) or old(self.currsize) < self.maxsize)), 'obj')",
          "forall(lambda k: implies(k in self.data and k is not key, value_of(self.data, k) is old(value_of(self.data, k))"
          " and stamp(self.data, k) == old(stamp(self.data, k))), 'obj')",
          # a new key becomes the most recent; an existing key keeps its place
          "implies(not old(key in self.data), forall(lambda k: implies(k in self.data and k is not key,"
          " stamp(self.data, key) > stamp(self.data, k)), 'obj'))",
          "implies(old(key in self.data), stamp(self.data, key) == old(stamp(self.data, key)))",
          'self.currsize == old(self.currsize) + ite(old(key in self.data) or old(self.currsize) >= self.maxsize, 0, 1)',
      ],
      bounded='bounded_lru'))
  R.add(Contract(
      f'{FU}::LruCache.cache_insert', P, types=dict(t, key='obj', value='obj'),
      modifies=['self.currsize', 'self.data'],
      requires=WF + ['self.maxsize >= 1', 'self.currsize <= self.maxsize'],
      ensures=['key in self.data and value_of(self.data, key) is value', 'self.currsize <= self.maxsize'],
      bounded='bounded_lru'))
  R.add(Contract(
      f'{FU}::LruCache.__contains__', P, types=dict(t, key='obj'), ret='bool',
      ensures=['result == (key in self.data)'], bounded='bounded_lru'))
  R.add(Contract(
      f'{FU}::LruCache.__len__', P, types=t, ret='int', ensures=['result == self.currsize'], bounded='bounded_lru'))
  R.add(Contract(
      f'{FU}::LruCache.cache_clear', P, types=t, modifies=['self.currsize', 'self.hits', 'self.misses', 'self.data'],
      ensures=["forall(lambda k: k not in self.data, 'obj')", 'self.currsize == 0 and self.hits == 0 and self.misses == 0',
               'len(self.data) == 0'],
      bounded='bounded_lru'))

  R.bounded_checks[P] = [
      ('bounded_lru', 'LruCache get/set/clear histories vs reference LRU (small scope)'),
      ('bounded_lazy_eval', 'traced expression trees evaluate to the eager value, also after pickling; cache identity; missing-object error'),
  ]
  R.trusted[P] = ['A2 collections.OrderedDict modelled by per-key logical time stamps (insert / move_to_end = fresh stamp, first key = minimal stamp)',
                  'A2 pickling round trip (cloudpickle/pickle) trusted; lazy_fns evaluation recursion only bounded',
                  'A4 sequential semantics', 'A7 pyvc engine, z3, cvc5']
