"""_RangeIterator.__next__ contract shared by C09 (read-ahead stays inside the slice) and C12 (skip granularity)."""
import z3
from pyvc.contracts import Contract
from pyvc.values import *   # pylint: disable=wildcard-import

ITER = 'ml_metrics/_src/utils/iter_utils.py'

bad_fn = z3.Function('bad_element', z3.IntSort(), z3.BoolSort())
sfail_fn = z3.Function('slice_read_fails', z3.IntSort(), z3.IntSort(), z3.BoolSort())


def _setup_reads(it, env):
  it.ghost['__read_fails__'] = lambda t, i: bad_fn(i)
  it.ghost['__slice_fails__'] = lambda t, lo, hi: sfail_fn(lo, hi)



def register(R, props, bounded):
  R.opaque_item_error = 'ValueError'
  # ---- _RangeIterator: read-ahead with exponential fallback; a failing single read skips one index
  R.cls('_RangeIterator', dict(data='sized', stop='int', start='int', i='int', _batch_size='int', _cache='deque[obj]'))
  RI_INV = ['0 <= self.i', 'self.i <= self.stop', 'self.stop <= len(self.data)', 'self._batch_size >= 1',
            'len(self._cache) <= self.i',
            'forall(lambda j: self._cache[j] is item(self.data, self.i - len(self._cache) + j), 0, len(self._cache))']

  @R.spec
  def item(it, a, k):
    from pyvc.values import item_of
    return VOpaque(item_of(a[0].t, it.to_int(a[1])))

  @R.spec
  def bad(it, a, k):
    return VBool(bad_fn(it.to_int(a[0])))

  R.add(Contract(
      f'{ITER}::_RangeIterator.__next__', props, types=dict(self='_RangeIterator'), ret='obj', setup=_setup_reads,
      modifies=['self.i', 'self._batch_size', 'self._cache'],
      requires=RI_INV,
      ensures=RI_INV + [
          # the element delivered is the one at the first undelivered position, which advances by exactly one:
          # nothing is skipped, nothing repeated, the read-ahead never crosses `stop`
          'result is item(self.data, old(self.i - len(self._cache)))',
          'self.i - len(self._cache) == old(self.i - len(self._cache)) + 1'],
      raises={'StopIteration': 'old(len(self._cache)) == 0 and old(self.i) >= self.stop'},
      raises_ensures={'ValueError': RI_INV + [
          # only a failing single-element read raises; it skips exactly that index and loses nothing
          'old(len(self._cache)) == 0 and len(self._cache) == 0', 'self.i == old(self.i) + 1', 'bad(old(self.i))',
          'self._batch_size == 1']},
      loops={0: dict(invariant=RI_INV + [
          # the first undelivered position does not move while the read-ahead is refilled
          'self.i - len(self._cache) == old(self.i - len(self._cache))',
          'implies(old(len(self._cache)) > 0, self.i == old(self.i) and len(self._cache) == old(len(self._cache))'
          ' and forall(lambda j: self._cache[j] is old(self._cache)[j], 0, len(self._cache)))',
          'self._batch_size <= old(self._batch_size)'],
                     decreases='self._batch_size + ite(len(self._cache) == 0, 1, 0)')},
      bounded=bounded,
      note='reads of user data may fail: a single read fails iff the element is bad; a slice read may fail for any reason (A6)'))

