"""C20 - Worker liveness and ownership bookkeeping (contracts)."""
import z3
from pyvc.contracts import Contract
from pyvc.values import *   # pylint: disable=wildcard-import

CU = 'ml_metrics/_src/utils/courier_utils.py'
CW = 'ml_metrics/_src/chainables/courier_worker.py'
P = 'C20'


def _guard_data(it, env):
  reg = env['self']
  reg.f['data'].guard = reg.f['_lock']


def _worker_ghost(it, w):
  """ghost: whether the worker's ownership lock is free (other pools/threads may hold it)."""
  lk = w.f['_lock']
  it.ghost[f'{lk.name}.free'] = VBool(it.fresh_bool(f'{lk.name}.free'))


def _setup_worker(it, env):
  _worker_ghost(it, env['self'])
  _monitor(it, env['self'])


def _monitor(it, w):
  # ownership state of a worker (_worker_pool and the worker lock) is guarded by its state lock: "acquire / release under
  # the state lock" - a change outside it lets another pool observe (and act on) a half-updated ownership
  it.__dict__.setdefault('monitors', []).append((w, {'_worker_pool'}, [w.f['_lock']], w.f['_states_lock']))


def _setup_pool(it, env):
  pool = env['self']
  ws = [it.fresh('Worker', f'w{i}') for i in range(2)]
  for w in ws:
    _worker_ghost(it, w)
    _monitor(it, w)
  pool.f['_workers'] = VList(ws)
  env['w0'], env['w1'] = ws
  if 'workers' in env:
    # the explicit argument is a (possibly empty) sub-list of the pool's workers
    pass


INV = 'self._lock.locked() == (self._worker_pool is not None)'


def register(R):
  R.cls('WorkerRegistry', dict(data='map[obj,rreal?]', _lock='lock'))
  R.cls('Worker', dict(_lock='lock', _states_lock='rlock', _worker_pool='obj?', address='obj', g_capacity='bool', g_alive='bool'))
  R.cls('WorkerPool', dict(), lazy=())

  @R.spec
  def same_map(it, a, k):
    x, y = a
    return VBool(z3.And(x.has == y.has, x.val == y.val, x.none == y.none))

  @R.spec
  def same_map_except(it, a, k):
    x, y, key = a
    kk = it.to_obj(key)
    return VBool(z3.And(x.has == z3.Store(y.has, kk, z3.Select(x.has, kk)),
                        x.val == z3.Store(y.val, kk, z3.Select(x.val, kk)),
                        x.none == z3.Store(y.none, kk, z3.Select(x.none, kk))))

  @R.spec
  def dead(it, a, k):         # the worker was declared dead (None marker)
    m, key = a
    kk = it.to_obj(key)
    return VBool(z3.And(z3.Select(m.has, kk), z3.Select(m.none, kk)))

  @R.spec
  def beat(it, a, k):         # last recorded heartbeat (0 when unknown or dead)
    m, key = a
    kk = it.to_obj(key)
    return VReal(z3.If(z3.And(z3.Select(m.has, kk), z3.Not(z3.Select(m.none, kk))), z3.Select(m.val, kk), z3.RealVal(0)), False)

  reg_types = dict(self='WorkerRegistry')
  R.add(Contract(
      f'{CU}::WorkerRegistry.get', P, types=dict(reg_types, key='obj', default='rreal'), ret='rreal',
      setup=_guard_data,
      ensures=['implies(dead(self.data, key), result == 0)',
               'implies(key in self.data and not dead(self.data, key), result == beat(self.data, key))',
               'implies(key not in self.data, result == default)',
               'same_map(self.data, old(self.data))'],
      replay=None, bounded='bounded_registry',
      note='a dead or unknown worker reads as heartbeat 0 (default); reading never changes the registry'))
  R.add(Contract(
      f'{CU}::WorkerRegistry.refresh', P, modifies=['self.data'], types=dict(reg_types, address='obj', time_='rreal'),
      setup=_guard_data,
      ensures=[
          # a dead worker stays dead, whatever late heartbeat arrives
          'implies(old(dead(self.data, address)), same_map(self.data, old(self.data)))',
          # heartbeats never move backwards
          'implies(not old(dead(self.data, address)), beat(self.data, address) == max(old(beat(self.data, address)), time_)'
          ' and address in self.data and not dead(self.data, address))',
          'same_map_except(self.data, old(self.data), address)',
      ],
      requires=['implies(address in self.data and not dead(self.data, address), beat(self.data, address) >= 0)', 'time_ >= 0'],
      bounded='bounded_registry'))
  R.add(Contract(
      f'{CU}::WorkerRegistry.register', P, modifies=['self.data'], types=dict(reg_types, address='obj', time_='rreal'),
      setup=_guard_data,
      ensures=['address in self.data and not dead(self.data, address) and beat(self.data, address) == time_',
               'same_map_except(self.data, old(self.data), address)'],
      requires=['time_ > 0'],
      bounded='bounded_registry'))
  R.add(Contract(
      f'{CU}::WorkerRegistry.unregister', P, modifies=['self.data'], types=dict(reg_types, address='obj'),
      setup=_guard_data,
      ensures=['dead(self.data, address)', 'same_map_except(self.data, old(self.data), address)'],
      bounded='bounded_registry'))
  R.add(Contract(
      f'{CU}::WorkerRegistry.__setitem__', P, types=dict(reg_types, key='obj', item='obj'),
      raises={'TypeError': 'True'}, ensures=[],
      note='direct assignment is rejected: only register/refresh/unregister mutate the registry'))

  # ---- Worker ownership monitor -------------------------------------------------------------
  wt = dict(self='Worker')
  R.add(Contract(
      f'{CW}::Worker.is_available', P, types=dict(wt, worker_pool='obj?'), ret='bool', setup=_setup_worker,
      ensures=['result == ((not self._lock.locked()) or (self._worker_pool is worker_pool))',
               'self._worker_pool is old(self._worker_pool)', 'self._lock.locked() == old(self._lock.locked())'],
      bounded='bounded_ownership'))
  R.add(Contract(
      f'{CW}::Worker.is_locked', P, types=dict(wt, worker_pool='obj?'), ret='bool', setup=_setup_worker,
      ensures=['result == (self._lock.locked() and (worker_pool is None or not truthy(worker_pool) or self._worker_pool is worker_pool))',
               'self._worker_pool is old(self._worker_pool)'],
      bounded='bounded_ownership'))
  R.add(Contract(
      f'{CW}::Worker.acquire_by', P, types=dict(wt, worker_pool='obj', blocking='bool'), ret='bool', setup=_setup_worker,
      modifies=['self._worker_pool', 'lock:self._lock'],
      requires=[INV],
      ensures=[INV,
               'result == (self._worker_pool is worker_pool)',
               # at most one owner: somebody else's worker is never taken over
               'implies(old(self._worker_pool) is not None and old(self._worker_pool) is not worker_pool,'
               ' self._worker_pool is old(self._worker_pool))',
               'implies(old(self._worker_pool) is None, self._worker_pool is worker_pool)'],
      bounded='bounded_ownership'))
  R.add(Contract(
      f'{CW}::Worker.release', P, types=wt, setup=_setup_worker,
      modifies=['self._worker_pool', 'lock:self._lock'],
      ensures=['self._worker_pool is None', 'not self._lock.locked()'],
      bounded='bounded_ownership'))
  # release_all over a pool of two workers in arbitrary ownership states (the loop is
  # unrolled: bounded in the NUMBER of workers only, symbolic in everything else)
  R.add(Contract(
      f'{CW}::WorkerPool.release_all', P, types=dict(self='WorkerPool', workers='tuple[]'), setup=_setup_pool,
      modifies=['w0._worker_pool', 'lock:w0._lock', 'w1._worker_pool', 'lock:w1._lock'],
      requires=['w0._lock.locked() == (w0._worker_pool is not None)', 'w1._lock.locked() == (w1._worker_pool is not None)'],
      ensures=[
          # a pool can only release workers it owns or that are free
          'implies(old(w0._worker_pool) is not None and old(w0._worker_pool) is not self,'
          ' w0._worker_pool is old(w0._worker_pool) and w0._lock.locked())',
          'implies(old(w1._worker_pool) is not None and old(w1._worker_pool) is not self,'
          ' w1._worker_pool is old(w1._worker_pool) and w1._lock.locked())',
          # and afterwards none of its own workers remains acquired
          'w0._worker_pool is not self and w1._worker_pool is not self',
          'implies(old(w0._worker_pool) is self, not w0._lock.locked())',
      ],
      bounded='bounded_ownership',
      note='bounded: pool of exactly two workers (loop unrolled), all ownership states symbolic'))

  # liveness / capacity of a client: ASSUMED contracts (they query the transport), pure w.r.t. ownership
  R.add(Contract(f'{CU}::CourierClient.has_capacity', 'trusted', types=dict(self='Worker'), ret='bool',
                 ensures=['result == self.g_capacity'],
                 note='ASSUMED: does not touch ownership state; stable during one call of next_idle_worker (ghost g_capacity)'))
  R.add(Contract(f'{CU}::CourierClient.is_alive', 'trusted', types=dict(self='Worker'), ret='bool',
                 ensures=['result == self.g_alive'],
                 note='ASSUMED: does not touch ownership state; stable during one call of next_idle_worker (ghost g_alive)'))
  WINV = ['w0._lock.locked() == (w0._worker_pool is not None)', 'w1._lock.locked() == (w1._worker_pool is not None)']
  for acquire in (True, False):
    R.add(Contract(
        f'{CW}::WorkerPool.next_idle_worker', P, variant='maybe-acquire' if acquire else 'no-acquire',
        types=dict(self='WorkerPool', workers='none', maybe_acquire=f'const:{acquire}'), ret='Worker?', setup=_setup_pool,
        modifies=['w0._worker_pool', 'lock:w0._lock', 'w1._worker_pool', 'lock:w1._lock'],
        requires=WINV,
        ensures=WINV + [
            # the worker handed out is owned by this pool ...
            'implies(result is w0, w0._worker_pool is self)', 'implies(result is w1, w1._worker_pool is self)',
            # ... and it is the ONLY worker this call may have newly acquired: an unusable worker is not kept
            'implies(result is not w0 and old(w0._worker_pool) is not self, w0._worker_pool is old(w0._worker_pool))',
            'implies(result is not w1 and old(w1._worker_pool) is not self, w1._worker_pool is old(w1._worker_pool))',
            # nobody else's worker is ever taken over
            'implies(old(w0._worker_pool) is not None and old(w0._worker_pool) is not self, w0._worker_pool is old(w0._worker_pool))',
            'implies(old(w1._worker_pool) is not None and old(w1._worker_pool) is not self, w1._worker_pool is old(w1._worker_pool))',
            # only a usable worker is handed out
            'implies(result is w0, w0.g_capacity and w0.g_alive)', 'implies(result is w1, w1.g_capacity and w1.g_alive)',
            # completeness: a usable worker this pool already owns is always found
            'implies(result is None, not (old(w0._worker_pool) is self and w0.g_capacity and w0.g_alive))',
            'implies(result is None, not (old(w1._worker_pool) is self and w1.g_capacity and w1.g_alive))',
        ] + ([
            # ... and with maybe_acquire also a usable worker nobody owns
            'implies(result is None, not (old(w0._worker_pool) is None and w0.g_capacity and w0.g_alive))',
            'implies(result is None, not (old(w1._worker_pool) is None and w1.g_capacity and w1.g_alive))',
        ] if acquire else ['w0._worker_pool is old(w0._worker_pool) and w1._worker_pool is old(w1._worker_pool)']),
        bounded='bounded_release',
        note='bounded: pool of exactly two workers (loops unrolled), ownership/liveness/capacity symbolic'))

  # ---- WorkerPool.run: the worker taken for a task is given back on every exit ---------------------------------------
  def _setup_run(it, env):
    _setup_pool(it, env)
    it.ghost['w0'], it.ghost['w1'] = env['w0'], env['w1']
    for w in (env['w0'], env['w1']):
      it.assume(it.spec(INV, {'self': w}))

  def _result_may_fail(it, v, a, k):          # future.result(): the value, or the task's failure
    if it.branch(it.fresh_bool('task_failed')):
      raise_exc = VExc('UserError', [], sym=it.fresh_obj('task_error'))
      from pyvc.interp import PyRaise
      raise PyRaise(raise_exc)
    return VOpaque(it.fresh_obj('task_result'))
  R.opaque_methods['result'] = _result_may_fail
  R.opaque_methods['set'] = lambda it, v, a, k: VOpaque(it.fresh_obj('task'))

  # ASSUMED: waiting for the pool, wrapping the task and submitting it do not touch worker ownership
  R.add(Contract(f'{CW}::WorkerPool.wait_until_alive', 'trusted', types=dict(self='WorkerPool', deadline_secs='int', minimum_num_workers='int'),
                 may_raise=['ValueError']))
  R.add(Contract(f'{CU}::Task.maybe_as_task', 'trusted', types=dict(cls='obj', task='obj'), ret='obj'))
  R.add(Contract(f'{CU}::CourierClient.submit', 'trusted', types=dict(self='Worker', task='obj'), ret='obj', may_raise=['UserError']))
  R.add(Contract(
      f'{CW}::WorkerPool.run', P, types=dict(self='WorkerPool', task='obj'), ret='obj', setup=_setup_run,
      modifies=['w0._worker_pool', 'lock:w0._lock', 'w1._worker_pool', 'lock:w1._lock'],
      # stated over the ownership state, not over how often release() runs (a second, idempotent release is harmless)
      ensures=["ncalls('Worker.release') >= 1", "local('worker')._worker_pool is None"],
      raises_ensures={
          # the task (or its submission) failed: the worker is given back all the same
          'UserError': ["ncalls('Worker.release') >= 1", "local('worker')._worker_pool is None"],
          # no worker became available (or the pool never came up)
          'ValueError': ['True']},
      loops={0: dict(invariant=["ncalls('Worker.release') == 0"], retype={'worker': 'Worker?'})},
      bounded='bounded_release',
      note='the acquired worker is given back on the normal and on the failing exit (D9 was the missing finally)'))

  # ---- WorkerPool.call_and_wait: whatever was acquired for the broadcast is released on every exit ------------------
  R.add(Contract(f'{CW}::WorkerPool._acquire_all', 'trusted', types=dict(self='WorkerPool', workers='none', num_workers='int', blocking='bool'),
                 ret='obj', modifies=['w0._worker_pool', 'lock:w0._lock', 'w1._worker_pool', 'lock:w1._lock'],
                 ensures=['w0._lock.locked() == (w0._worker_pool is not None)', 'w1._lock.locked() == (w1._worker_pool is not None)'],
                 note='ASSUMED here (its ownership behaviour is exercised by bounded_ownership): keeps the worker invariant'))
  R.add(Contract(f'{CU}::CourierClient.call', 'trusted', types=dict(self='Worker', args='tuple[]', courier_method='obj'), ret='obj?',
                 may_raise=['UserError']))
  R.add(Contract(f'{CW}::get_results', 'trusted', types=dict(states='obj', timeout='none'), ret='obj', may_raise=['UserError', 'TimeoutError']))
  R.add(Contract(
      f'{CW}::WorkerPool.call_and_wait', P, types=dict(self='WorkerPool', args='tuple[]', courier_method="const:'maybe_make'"), ret='obj',
      setup=_setup_run, modifies=['w0._worker_pool', 'lock:w0._lock', 'w1._worker_pool', 'lock:w1._lock'],
      may_raise=['UserError', 'TimeoutError'],
      # on the normal AND on every failing exit the pool has released its workers, exactly once
      always=["ncalls('WorkerPool.release_all') >= 1", 'w0._worker_pool is not self and w1._worker_pool is not self'],
      bounded='bounded_release'))

  R.bounded_checks[P] = [
      ('bounded_registry', 'register/refresh/unregister histories vs reference registry'),
      ('liveness_after_death', 'late heartbeat / pending completion after a worker was declared dead (CourierClient.is_alive)'),
      ('bounded_ownership', 'acquire/release histories of two pools over two shared workers vs reference owner map'),
      ('bounded_release', 'run / call_and_wait / as_completed on ok/failing/dead workers: nothing stays acquired (fake transport)'),
  ]
  R.trusted[P] = [
      'A2 dict/UserDict, threading.Lock semantics', 'A4 sequential semantics; a lock other owners may hold is a symbolic ghost bit',
      'A5 time.time() non-decreasing; a blocking acquire of a held lock does not return',
      'A7 pyvc engine, z3, cvc5', 'A8 fake in-process courier transport for the native stand-ins',
      'distinct heap objects have distinct identities',
  ]
