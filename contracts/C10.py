"""C10 - Checkpoint and resume continue exactly where iteration stopped (contracts)."""
import importlib.util, os
import z3
from pyvc.contracts import Contract
from pyvc.values import *   # pylint: disable=wildcard-import

_here = os.path.dirname(__file__)
_spec = importlib.util.spec_from_file_location('c09', os.path.join(_here, 'C09.py'))
c09 = importlib.util.module_from_spec(_spec); _spec.loader.exec_module(c09)
io_common = c09.io_common
IO = io_common.IO
P = 'C10'

# class invariant of a source obtained by shard* from a root (proved in C09)
SRC_INV = ['len({c}.data) == root_len', '{c}._start == {c}._shard_state.g_start', 'src_end({c}) == {c}._shard_state.g_end',
           '{c}._shard_state.g_ok']


def inv(c):
  return [x.format(c=c) for x in SRC_INV]


def _bind_state_result(it, env, old):
  # the recorded state keeps the parent chain of the config's state (object identity)
  res = env['result']
  cfg_state = it.getfield(it.getfield(env['self'], 'config'), '_shard_state')
  res.f['parent'] = it.getfield(cfg_state, 'parent')
  io_common._unfold_state(it, res)
  return None


def _no_faults(it, env):
  env['self'].f['_it'].fails = None


def register(R):
  c09.register(R)       # callee contracts (shard, from_state, DataIterator.__next__ ...) and spec functions
  R.bounded_checks.pop('C09', None)
  R.cls('SequenceIterator', dict(config='SequenceDataSource', _index='int', _it='iter[obj]'))

  R.add(Contract(
      f'{IO}::SequenceIterator.state', P, types=dict(self='SequenceIterator'), ret='ShardConfig',
      post_hook=_bind_state_result,
      ensures=['result.shard_index == self.config._shard_state.shard_index',
               'result.num_shards == self.config._shard_state.num_shards',
               # the offset is relative to the shard's own start: what was already consumed
               # plus the offset this config was itself restored with
               'result.start_index == self._index - self.config._start + self.config._shard_state.start_index',
               'result.parent is self.config._shard_state.parent'],
      bounded='bounded_resume_sources'))
  R.add(Contract(
      f'{IO}::SequenceIterator.__next__', P, types=dict(self='SequenceIterator'), ret='obj', setup=_no_faults,
      modifies=['self._index', 'self._it'],
      requires=['self._it.pos == self._index - self.config._start', 'self._index >= self.config._start'],
      ensures=['result is self._it.src[old(self._it.pos)]', 'self._index == old(self._index) + 1',
               'self._it.pos == self._index - self.config._start'],
      raises={'StopIteration': 'old(self._it.pos) >= len(self._it.src)'},
      bounded='bounded_resume_sources'))
  R.add(Contract(
      f'{IO}::SequenceIterator.from_state', P, types=dict(self='SequenceIterator', shard_state='ShardConfig'),
      ret='SequenceIterator',
      requires=['len(self.config.data) == root_len', 'shard_state.g_ok', 'not self.config.ignore_error'],
      ensures=['result._index == shard_state.g_start', 'result.config._start == shard_state.g_start',
               'src_end(result.config) == shard_state.g_end', 'result.config.data is self.config.data',
               'result._it.pos == 0'],
      bounded='bounded_resume_sources',
      note='a restored iterator starts exactly at the position its state denotes'))
  # the round trip, over the contracts of state / from_state only: for ANY reachable
  # iterator (also one that was itself restored), restoring from its state resumes at
  # the first element not yet delivered and ends where the original ends.
  R.lemma('sequence-iterator-resumes-where-it-stopped', P, dict(it='SequenceIterator'),
          inv('it.config') + ['it._index >= it.config._start'],
          ['it.config.from_state(it.state)._start == it._index',
           'src_end(it.config.from_state(it.state)) == src_end(it.config)',
           'it.config.from_state(it.state).data is it.config.data',
           # and the restored config again satisfies the invariant: any number of successive checkpoints
           'it.config.from_state(it.state)._start == it.state.g_start'],
          note='none repeated, none skipped: remaining(restored) = data[index:end] = remaining(original)')

  # ---- round-robin iterator over any iterable ---------------------------------------------------------
  R.add(Contract(
      f'{IO}::DataIterator.state', P, types=dict(self='DataIterator'), ret='ShardConfig',
      ensures=['result.shard_index == self.config._shard_state.shard_index',
               'result.num_shards == self.config._shard_state.num_shards',
               'result.start_index == max(self._index, self.config._shard_state.start_index)'],
      bounded='bounded_resume_sources',
      note='the resume position is the number of source elements already passed, never less than the start index'))
  R.add(Contract(
      f'{IO}::DataIterator.from_state', P, types=dict(self='DataIterator', shard_state='ShardConfig'), ret='DataIterator',
      raises={'ValueError': 'shard_state.num_shards < 1'},
      ensures=['result._index == 0', 'result.config._shard_state is shard_state', 'result.config.data is self.config.data',
               'result._it.pos == 0'],
      bounded='bounded_resume_sources'))

  # ---- the pipeline checkpoint is a snapshot: it shares no mutable object with the running iterator ----------------------
  TM = 'ml_metrics/_src/chainables/transform.py'
  ITER = 'ml_metrics/_src/utils/iter_utils.py'
  from pyvc.builtins_ import deepcopy_fn
  R.cls('_Runner4', dict(name='str'))
  R.cls('_RunnerIterator', dict(agg_state='map[obj,obj]', batch_index='int', _with_agg='bool', _with_result='bool', _runner='_Runner4', _data_sources='list[_RunnerIterator]'))
  R.cls('_IteratorState', dict(input_states='list[obj]', agg_state='map[obj,obj]'), frozen=True)
  # ASSUMED: the states of the data sources, collected by MultiplexIterator.state (one per source, in order)
  R.add(Contract(f'{ITER}::MultiplexIterator.state', 'trusted', types=dict(self='_RunnerIterator'), ret='list[obj]', may_raise=['TypeError']))

  @R.spec
  def copy_of(it, a, k):
    return VOpaque(deepcopy_fn(it.to_obj(a[0])))

  @R.spec
  def state_value(it, a, k):
    m, key = a
    return VOpaque(z3.Select(m.val, it.to_obj(key)))

  R.add(Contract(
      f'{TM}::_RunnerIterator.state', P, types=dict(self='_RunnerIterator'), ret='_IteratorState', may_raise=['TypeError'],
      ensures=[
          # same keys; every aggregation state in the checkpoint is a NEW object (a deep copy), never the live one
          "forall(lambda k: (k in result.agg_state) == (k in self.agg_state), 'obj')",
          "forall(lambda k: implies(k in self.agg_state, state_value(result.agg_state, k) is copy_of(state_value(self.agg_state, k))"
          " and state_value(result.agg_state, k) is not state_value(self.agg_state, k)), 'obj')",
          # the source states too
          "len(result.input_states) == len(last_result('MultiplexIterator.state'))",
          "forall(lambda j: result.input_states[j] is copy_of(last_result('MultiplexIterator.state')[j]), 0, len(result.input_states))"],
      bounded='bounded_resume_pipeline',
      note='updating the running iterator after the checkpoint cannot change the checkpoint (A2: copy.deepcopy makes new objects)'))

  # ---- one step of the pipeline iterator: the aggregate is updated with exactly the batch that is delivered ----------------
  upd = z3.Function('runner_update', Obj, Obj, Obj)       # (aggregation state map, batch) -> state map, abstractly

  @R.spec
  def updated_with(it, a, k):
    return VOpaque(upd(it.to_obj(a[0]), it.to_obj(a[1])))

  R.cls('_RunnerIterator2', dict(agg_state='obj', batch_index='int', _with_agg='bool', _with_result='bool', _runner='obj', _iterator='iter[obj]'))
  # ASSUMED here (proved under C05 / C02): MultiplexIterator.__next__ delivers the next element of the underlying iterator
  # or ends / fails with it; TransformRunner.update_state is a function of (state, batch)
  def _next_post(it, env2, old):
    return None
  R.add(Contract(f'{ITER}::MultiplexIterator.__next__', 'trusted', types=dict(self='_RunnerIterator2'), ret='obj',
                 modifies=['self._iterator'],
                 ensures=['result is self._iterator.src[old(self._iterator.pos)]', 'self._iterator.pos == old(self._iterator.pos) + 1'],
                 raises_ensures={'StopIteration': ['self._iterator.pos >= len(self._iterator.src)'], 'UserError': ['True']}))
  R.opaque_methods['update_state'] = lambda it, v, a, k: VOpaque(upd(it.to_obj(a[0]), it.to_obj(a[1])))
  R.add(Contract(
      f'{TM}::_RunnerIterator.__next__', P, types=dict(self='_RunnerIterator2'), ret='obj?',
      modifies=['self._iterator', 'self.batch_index', 'self.agg_state'],
      ensures=['self.batch_index == old(self.batch_index) + 1', 'self._iterator.pos == old(self._iterator.pos) + 1',
               # the aggregate absorbs exactly the delivered batch, once - or is left alone when aggregation is off
               'implies(self._with_agg, self.agg_state is updated_with(old(self.agg_state), self._iterator.src[old(self._iterator.pos)]))',
               'implies(not self._with_agg, self.agg_state is old(self.agg_state))',
               'implies(self._with_result, result is self._iterator.src[old(self._iterator.pos)])',
               'implies(not self._with_result, result is None)'],
      # at the end of the stream (or on a failure) nothing is counted and the aggregate is untouched
      raises_ensures={'StopIteration': ['self.batch_index == old(self.batch_index)', 'self.agg_state is old(self.agg_state)'],
                      'UserError': ['self.batch_index == old(self.batch_index)', 'self.agg_state is old(self.agg_state)']},
      bounded='bounded_resume_pipeline',
      note='with the checkpoint contract: the aggregate of a resumed run is the fold of update over exactly the batches delivered'))

  # ---- restoring: the new iterator gets COPIES of the captured accumulators (it updates them in place; the checkpoint must
  # stay usable for another restore), the recorded source states, and the same switches
  R.cls('_RunnerIterator3', dict(_runner='obj', _ignore_error='bool', _with_result='bool', _with_agg='bool'))
  R.add(Contract(f'{ITER}::MultiplexIterator.from_state', 'trusted', types=dict(self='_RunnerIterator3', states='list[obj]'), ret='obj',
                 may_raise=['TypeError'], note='ASSUMED: restores every data source from its state and builds cls(data_sources=..., **kwargs)'))
  R.add(Contract(
      f'{TM}::_RunnerIterator.from_state', P, types=dict(self='_RunnerIterator3', state='_IteratorState'), ret='obj', may_raise=['TypeError'],
      ensures=["result is last_result('MultiplexIterator.from_state')",
               "last_arg('MultiplexIterator.from_state', 'states') is state.input_states",
               # every accumulator handed to the restored iterator is a deep copy, never the captured object itself
               "forall(lambda k: (k in last_arg('MultiplexIterator.from_state', 'kwargs')['state']) == (k in state.agg_state), 'obj')",
               "forall(lambda k: implies(k in state.agg_state,"
               " state_value(last_arg('MultiplexIterator.from_state', 'kwargs')['state'], k) is copy_of(state_value(state.agg_state, k))"
               " and state_value(last_arg('MultiplexIterator.from_state', 'kwargs')['state'], k) is not state_value(state.agg_state, k)), 'obj')",
               "last_arg('MultiplexIterator.from_state', 'kwargs')['runner'] is self._runner",
               "last_arg('MultiplexIterator.from_state', 'kwargs')['ignore_error'] == self._ignore_error",
               "last_arg('MultiplexIterator.from_state', 'kwargs')['with_result'] == self._with_result",
               "last_arg('MultiplexIterator.from_state', 'kwargs')['with_agg_state'] == self._with_agg"],
      bounded='bounded_resume_pipeline',
      note='D32: a second restore from the same checkpoint (a retry) starts from the captured aggregates, not from the first restored run'))

  # ---- restoring a chain of two named transforms: the chain is made of the iterators that actually run ----------------------
  is_stage = z3.Function('is_runner_iterator', Obj, z3.BoolSort())
  _prev_isinstance = R.isinstance_hook
  R.isinstance_hook = lambda it, v, cname: (is_stage(v.t) if isinstance(v, VOpaque) and cname == '_RunnerIterator'
                                            else (_prev_isinstance(it, v, cname) if _prev_isinstance else None))

  @R.spec
  def is_runner_iterator(it, a, k):
    v = a[0]
    return VBool(True) if isinstance(v, VObj) and v.cls == '_RunnerIterator' else VBool(is_stage(it.to_obj(v)))

  R.cls('_ChainedRunnerIterator', dict(_iterators='list[]', _with_result='bool', _with_agg='bool', _with_agg_result='bool', _total='int',
                                       _single_batch='bool', _prev_ticker='real'))
  R.add(Contract(f'{TM}::_RunnerIterator.from_state', 'trusted', variant='stage-of-a-chain', when=lambda it, a, k: it.verifying.endswith('_ChainedRunnerIterator.from_state'),
                 types=dict(self='_RunnerIterator', state='obj'), ret='_RunnerIterator', may_raise=['TypeError'],
                 ensures=['len(result._data_sources) == 1', 'is_runner_iterator(result._data_sources[0])', 'result is not self'],
                 note='ASSUMED shape of a restored stage: one data source, its restored upstream (MultiplexIterator.from_state); proved content: see _RunnerIterator.from_state'))
  def _chain2(it, env):
    a, b = it.fresh('_RunnerIterator', 'stage_a'), it.fresh('_RunnerIterator', 'stage_b')
    a.f['_runner'].f['name'], b.f['_runner'].f['name'] = VStr('a'), VStr('b')
    env['self'].f['_iterators'] = VList([a, b])
    env['state'] = VDict({'a': it.fresh('obj', 'state_a'), 'b': it.fresh('obj', 'state_b')})
  R.add(Contract(
      f'{TM}::_ChainedRunnerIterator.from_state', P, variant='two-stages', types=dict(self='_ChainedRunnerIterator', state='obj'), ret='_ChainedRunnerIterator',
      setup=_chain2, may_raise=['TypeError'],
      ensures=['len(result._iterators) == 2',
               # the last stage is restored from ITS state, and the first stage of the new chain is the iterator that stage reads from
               "result._iterators[1] is last_result('_RunnerIterator.from_state')",
               "last_arg('_RunnerIterator.from_state', 'state') is state['b']",
               'result._iterators[0] is result._iterators[1]._data_sources[0]',
               # the restored chain keeps reporting (and returning) the aggregates exactly when the original did
               'truthy(result._with_agg) == truthy(self._with_agg)',
               'result._with_result == self._with_result', 'result._with_agg_result == self._with_agg_result'],
      bounded='bounded_resume_pipeline',
      note='D30 / D31: upstream aggregates of a restored chain; the final aggregate returned by the exhausted iterator'))

  R.bounded_checks[P] = [
      ('bounded_resume_sources', 'SequenceDataSource / ShardedIterable (sharded, nested): every cut, up to 3 successive checkpoints'),
      ('bounded_resume_pipeline', 'apply+aggregate pipelines (num_threads=0): restored run delivers the rest and the same final aggregate'),
  ]
  R.trusted[P] = list(R.trusted.get('C09', [])) + ['fault-free reading (ignore_error=False); threaded pipelines not decided']
