"""C09 - Sharding partitions a data source exactly (contracts)."""
import importlib.util, os
import z3
from pyvc.contracts import Contract
from pyvc.values import *   # pylint: disable=wildcard-import

_here = os.path.dirname(__file__)
_spec = importlib.util.spec_from_file_location('io_common', os.path.join(_here, 'io_common.py'))
io_common = importlib.util.module_from_spec(_spec); _spec.loader.exec_module(io_common)
IO, ITER = io_common.IO, io_common.ITER
P = 'C09'


def register(R):
  io_common.register(R)

  # ---- SequenceDataSource.shard ------------------------------------------------------
  R.add(Contract(
      f'{IO}::SequenceDataSource.shard', P,
      types=dict(self='SequenceDataSource', shard_index='int', num_shards='int', offset='int'),
      ret='SequenceDataSource',
      requires=['0 <= shard_index', 'implies(num_shards >= 1, shard_index < num_shards)'],
      raises={'ValueError': 'num_shards < 1'},
      ensures=[
          # taken from the property: shard i of k is the i-th part of an even split
          'result._start == part_start(src_start(self), src_end(self), shard_index, num_shards) + offset',
          'src_end(result) == part_start(src_start(self), src_end(self), shard_index, num_shards)'
          ' + part_len(src_start(self), src_end(self), shard_index, num_shards)',
          'result.data is self.data',
          'result.ignore_error == self.ignore_error',
          'result._shard_state.shard_index == shard_index and result._shard_state.num_shards == num_shards'
          ' and result._shard_state.start_index == offset',
          'result._shard_state.parent is self._shard_state',
      ],
      loops={0: dict(
          invariant=[
              '0 <= i <= shard_index + 1',
              'interval == (src_end(self) - src_start(self)) // num_shards',
              'remainder == (src_end(self) - src_start(self)) % num_shards',
              'start == part_start(src_start(self), src_end(self), ite(i <= shard_index, i, shard_index), num_shards)',
              'implies(i >= 1, adjusted_interval == part_len(src_start(self), src_end(self), i - 1, num_shards))',
          ])},
      witness=dict(start='src_start(self)', end='src_end(self)', shard_index='shard_index',
                   num_shards='num_shards', offset='offset'),
      replay='replay_shard', bounded='bounded_shard'))

  # ---- partition lemmas over the contract's spec functions only ---------------------------
  tys = dict(s='int', e='int', i='int', k='int')
  pre = ['s <= e', 'k >= 1', '0 <= i < k']
  R.lemma('partition-first-starts-at-source-start', P, dict(s='int', e='int', k='int'), ['s <= e', 'k >= 1'],
          ['part_start(s, e, 0, k) == s'])
  R.lemma('partition-contiguous', P, tys, pre,
          ['part_start(s, e, i, k) + part_len(s, e, i, k) == part_start(s, e, i + 1, k)'],
          note='shard i ends where shard i+1 starts: disjoint, ordered, nothing between')
  R.lemma('partition-last-ends-at-source-end', P, dict(s='int', e='int', k='int'), ['s <= e', 'k >= 1'],
          ['part_start(s, e, k, k) == e'],
          note='with contiguity: the k shards cover [s, e) exactly')
  R.lemma('partition-sizes-differ-by-at-most-one', P, dict(s='int', e='int', i='int', j='int', k='int'),
          ['s <= e', 'k >= 1', '0 <= i < k', '0 <= j < k'],
          ['part_len(s, e, i, k) - part_len(s, e, j, k) <= 1', 'part_len(s, e, i, k) >= 0',
           'implies(i <= j, part_len(s, e, i, k) >= part_len(s, e, j, k))'])
  R.bounded_checks[P] = [
      ('bounded_shard', 'whole-property native check of SequenceDataSource shards/nested shards/from_state (small scope)'),
      ('bounded_merged', 'MergedSequences iteration/index/slice vs list concatenation (small scope)'),
      ('bounded_range_iterator', '_RangeIterator read-ahead vs list slice (small scope)'),
      ('bounded_sharded_iterable', 'ShardedIterable round-robin shards, shards of shards, restore (small scope)'),
  ]
  R.trusted[P] = [
      'A2 bisect.bisect_left contract; dataclasses.replace = functional update + __post_init__',
      'A4 sequential semantics', 'A7 pyvc engine, z3, cvc5',
      'SequenceDataSource.data abstracted to a sized opaque object whose class is MergedSequences',
      'distinct parameters do not alias',
  ]
  R.lemma('partition-inside-source', P, tys, pre,
          ['s <= part_start(s, e, i, k)', 'part_start(s, e, i, k) + part_len(s, e, i, k) <= e'],
          note='nested shards stay inside their parent (shards of shards partition that shard)')
