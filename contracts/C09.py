"""C09 - Sharding partitions a data source exactly (contracts)."""
import importlib.util, os
import z3
from pyvc.contracts import Contract
from pyvc.values import *   # pylint: disable=wildcard-import

_here = os.path.dirname(__file__)
_spec = importlib.util.spec_from_file_location('io_common', os.path.join(_here, 'io_common.py'))
io_common = importlib.util.module_from_spec(_spec); _spec.loader.exec_module(io_common)
_spec2 = importlib.util.spec_from_file_location('rangeiter_common', os.path.join(_here, 'rangeiter_common.py'))
rangeiter_common = importlib.util.module_from_spec(_spec2); _spec2.loader.exec_module(rangeiter_common)
IO, ITER = io_common.IO, io_common.ITER
P = 'C09'


def _no_faults(it, env):
  # C09 is about fault-free reading (faults are C12): the source never raises.
  v = env['self'].f['_it']
  v.fails = None


def _bind_shard_result(it, env, old):
  # at a call site the fresh result's state has the receiver's state as parent
  # (object identity), and its ghost interval unfolds from that parent
  st = it.getfield(env['result'], '_shard_state')
  st.f['parent'] = it.getfield(env['self'], '_shard_state')
  io_common._unfold_state(it, st)
  return None


def register(R):
  io_common.register(R)
  rangeiter_common.register(R, ['C09', 'C12'], 'bounded_range_iterator')

  # ---- SequenceDataSource.shard ------------------------------------------------------
  R.add(Contract(
      f'{IO}::SequenceDataSource.shard', [P, 'C10', 'C12'],
      types=dict(self='SequenceDataSource', shard_index='int', num_shards='int', offset='int'),
      ret='SequenceDataSource',
      requires=['0 <= shard_index', 'implies(num_shards >= 1, shard_index < num_shards)'],
      raises={'ValueError': 'num_shards < 1'},
      ensures=[
          # the implemented even split (the first `remainder` shards get one element more): a refinement of the property, which
          # does not say WHICH shards are the larger ones - these two clauses carry the proofs, the next four are the property
          'impl: result._start == part_start(src_start(self), src_end(self), shard_index, num_shards) + offset',
          'impl: src_end(result) == part_start(src_start(self), src_end(self), shard_index, num_shards)'
          ' + part_len(src_start(self), src_end(self), shard_index, num_shards)',
          # property level: the shard lies inside the source, its size is the even share or one more, the first shard starts
          # where the source starts and the last ends where it ends (contiguity of neighbours: lemmas + bounded_shard)
          'implies(src_start(self) <= src_end(self), src_start(self) <= result._start - offset and src_end(result) <= src_end(self))',
          'implies(src_start(self) <= src_end(self), (src_end(self) - src_start(self)) // num_shards <= src_end(result) - (result._start - offset)'
          ' and src_end(result) - (result._start - offset) <= (src_end(self) - src_start(self)) // num_shards + 1)',
          'implies(shard_index == 0, result._start - offset == src_start(self))',
          'implies(shard_index == num_shards - 1, src_end(result) == src_end(self))',
          'result.data is self.data',
          'result.ignore_error == self.ignore_error',
          'result._shard_state.shard_index == shard_index and result._shard_state.num_shards == num_shards'
          ' and result._shard_state.start_index == offset',
          'result._shard_state.parent is self._shard_state',
      ],
      loops={0: dict(
          invariant=[
              '0 <= i <= shard_index + 1',
              'interval == (src_end(self) - src_start(self)) // num_shards',
              'remainder == (src_end(self) - src_start(self)) % num_shards',
              'start == part_start(src_start(self), src_end(self), ite(i <= shard_index, i, shard_index), num_shards)',
              'implies(i >= 1, adjusted_interval == part_len(src_start(self), src_end(self), i - 1, num_shards))',
          ])},
      witness=dict(start='src_start(self)', end='src_end(self)', shard_index='shard_index',
                   num_shards='num_shards', offset='offset'),
      post_hook=_bind_shard_result,
      replay='replay_shard', bounded='bounded_shard'))

  # ---- rebuilding a shard from its recorded state ------------------------------------------
  INV = ['self._start == self._shard_state.g_start', 'src_end(self) == self._shard_state.g_end']
  R.add(Contract(
      f'{IO}::SequenceDataSource.from_state', [P, 'C10', 'C12'],
      types=dict(self='SequenceDataSource', shard_state='ShardConfig'), ret='SequenceDataSource',
      requires=['len(self.data) == root_len', 'shard_state.g_ok'],
      ensures=['result._start == shard_state.g_start', 'src_end(result) == shard_state.g_end',
               'result.data is self.data', 'result.ignore_error == self.ignore_error'],
      bounded='bounded_shard',
      note='induction on the parent chain: the recursive call is replaced by this contract'))
  R.lemma('state-denotes-interval-is-preserved-by-shard', P,
          dict(x='SequenceDataSource', i='int', k='int', off='int'),
          ['len(x.data) == root_len', 'x._start == x._shard_state.g_start', 'src_end(x) == x._shard_state.g_end',
           '0 <= i < k'],
          ['x.shard(i, k, off)._start == x.shard(i, k, off)._shard_state.g_start',
           'src_end(x.shard(i, k, off)) == x.shard(i, k, off)._shard_state.g_end'],
          note='class invariant: a source obtained by shard* from a root has the interval its state denotes')
  R.lemma('rebuilding-from-recorded-state-gives-the-same-interval', P,
          dict(x='SequenceDataSource'),
          ['len(x.data) == root_len', 'x._start == x._shard_state.g_start', 'src_end(x) == x._shard_state.g_end',
           'x._shard_state.g_ok'],
          ['x.from_state(x.state)._start == x._start', 'src_end(x.from_state(x.state)) == src_end(x)',
           'x.from_state(x.state).data is x.data'],
          note='over the contracts of from_state/state only: round trip for every nesting depth')

  R.add(Contract(f'{IO}::SequenceDataSource.__len__', P, types=dict(self='SequenceDataSource'), ret='int',
                 ensures=['result == src_end(self) - src_start(self)'], note='reports its true length'))
  R.add(Contract(f'{IO}::SequenceDataSource.start', P, types=dict(self='SequenceDataSource'), ret='int',
                 ensures=['result == src_start(self)']))
  R.add(Contract(f'{IO}::SequenceDataSource.end', P, types=dict(self='SequenceDataSource'), ret='int',
                 ensures=['result == src_end(self)']))

  # ---- DataIterator.__next__ (round-robin shard of any iterable) ---------------------------
  # ghost: self._it reads the underlying iterable `src` at cursor `pos`; coupling
  # invariant cursor == self._index.
  R.cls('DataIterator', dict(config='ShardedIterable', _index='int', _it='iter[obj]'))
  R.add(Contract(
      f'{IO}::DataIterator.__next__', P,
      types=dict(self='DataIterator'), ret='obj', modifies=['self._index', 'self._it'],
      requires=['self._it.pos == self._index', 'self._index >= 0',
                'self.config._shard_state.num_shards >= 1',
                '0 <= self.config._shard_state.shard_index < self.config._shard_state.num_shards',
                ],
      setup=_no_faults,
      # the element delivered is the first one at or after max(index, start_index)
      # whose position is congruent to shard_index: nothing of the shard is skipped,
      # nothing outside it is delivered.
      ensures=[
          'self._index - 1 >= old(self._index) and self._index - 1 >= self.config._shard_state.start_index',
          '(self._index - 1) % self.config._shard_state.num_shards == self.config._shard_state.shard_index',
          'forall(lambda t: implies(t >= self.config._shard_state.start_index,'
          ' t % self.config._shard_state.num_shards != self.config._shard_state.shard_index), old(self._index), self._index - 1)',
          'result is self._it.src[self._index - 1]',
          'self._it.pos == self._index',
      ],
      raises_ensures={'StopIteration': [
          # exhaustion only when no element of the shard is left
          'forall(lambda t: implies(t >= self.config._shard_state.start_index and t >= old(self._index),'
          ' t % self.config._shard_state.num_shards != self.config._shard_state.shard_index), 0, len(self._it.src))',
      ]},
      loops={
          0: dict(invariant=['self._it.pos == self._index', 'self._index >= old(self._index)',
                             'self._index <= max(old(self._index), self.config._shard_state.start_index)']),
          1: dict(invariant=['self._it.pos == self._index', 'self._index >= old(self._index)',
                             'self._index >= self.config._shard_state.start_index',
                             'forall(lambda t: implies(t >= self.config._shard_state.start_index,'
                             ' t % self.config._shard_state.num_shards != self.config._shard_state.shard_index), old(self._index), self._index)']),
      },
      witness=dict(index='self._index', start_index='self.config._shard_state.start_index',
                   shard_index='self.config._shard_state.shard_index', num_shards='self.config._shard_state.num_shards',
                   n='len(self._it.src)'),
      bounded='bounded_sharded_iterable'))

  # ---- MergedSequences: indexing like the concatenation ----------------------------------------
  @R.spec
  def item(it, a, k):
    return VOpaque(item_of(it.to_obj(a[0]), it.to_int(a[1])))

  R.cls('MergedSequences', dict(_sequences='seq[obj]', _seq_idxs='seq[int]', _max_batch_size='int'))
  R.cls('_MergedSequenceIndex', dict(seq_idx='int', idx='int?'), frozen=True)
  # representation invariant: _seq_idxs are the prefix sums of the sub-sequence lengths
  MS_INV = ['len(self._seq_idxs) == len(self._sequences) + 1', 'self._seq_idxs[0] == 0',
            'forall(lambda t: self._seq_idxs[t + 1] - self._seq_idxs[t] == len(self._sequences[t])'
            ' and len(self._sequences[t]) >= 0, 0, len(self._sequences))',
            'forall(lambda a, b: implies(0 <= a and a <= b and b < len(self._seq_idxs), self._seq_idxs[a] <= self._seq_idxs[b]))']
  NORM = 'ite(index < 0, self._seq_idxs[len(self._sequences)] + index, index)'
  R.add(Contract(
      f'{ITER}::MergedSequences.__len__', P, types=dict(self='MergedSequences'), ret='int', requires=MS_INV,
      ensures=['result == self._seq_idxs[len(self._sequences)]'], bounded='bounded_merged'))
  R.add(Contract(
      f'{ITER}::MergedSequences._index', P, types=dict(self='MergedSequences', index='int'), ret='_MergedSequenceIndex',
      requires=MS_INV,
      ensures=[
          # before the beginning: an address that no sub-sequence has (the caller turns it into IndexError)
          f'implies({NORM} < 0, result.seq_idx == -1 and result.idx is not None and result.idx == {NORM} - self._seq_idxs[len(self._sequences)])',
          # inside the range: (sub-sequence, offset) addresses exactly that element of the concatenation
          f'implies(0 <= {NORM} and {NORM} < self._seq_idxs[len(self._sequences)], 0 <= result.seq_idx and result.seq_idx < len(self._sequences)'
          f' and result.idx is not None and self._seq_idxs[result.seq_idx] + result.idx == {NORM}'
          ' and 0 <= result.idx and result.idx < len(self._sequences[result.seq_idx]))',
          # one past the end (used as a slice stop)
          f'implies({NORM} == self._seq_idxs[len(self._sequences)], result.seq_idx == len(self._sequences) and result.idx == 0)',
          f'implies({NORM} > self._seq_idxs[len(self._sequences)], result.seq_idx == len(self._sequences) and result.idx is None)',
      ],
      loops={0: dict(invariant=['0 <= idx_seq and idx_seq < len(indices)', 'indices[idx_seq] == index',
                                'indices is self._seq_idxs'])},
      witness=dict(index='index'), bounded='bounded_merged'))

  L_ = 'self._seq_idxs[len(self._sequences)]'
  R.add(Contract(
      f'{ITER}::MergedSequences.__getitem__', P, variant='int', types=dict(self='MergedSequences', index='int'), ret='obj',
      requires=MS_INV,
      raises={'IndexError': f'not (-{L_} <= index and index < {L_})'},
      # element `index` of the concatenation: the element at offset index - P[s] of the unique
      # sub-sequence s whose span [P[s], P[s+1]) contains it (negative indices count from the end)
      ensures=[f'exists(lambda s: 0 <= s and s < len(self._sequences) and self._seq_idxs[s] <= {NORM} and {NORM} < self._seq_idxs[s + 1]'
               f' and result is item(self._sequences[s], {NORM} - self._seq_idxs[s]))'],
      witness=dict(index='index'), bounded='bounded_merged'))

  # ---- slicing the concatenation: a chain of readers that tile [start, stop) ---------------------------------------
  from pyvc.builtins_ import nparts_fn, part_fn
  rd_seq = z3.Function('reader_seq', Obj, z3.IntSort())       # ghost: which sub-sequence a reader reads
  rd_lo = z3.Function('reader_lo', Obj, z3.IntSort())         # ghost: from which offset
  rd_hi = z3.Function('reader_hi', Obj, z3.IntSort())         # ghost: up to which offset (exclusive)

  @R.spec
  def nreaders(it, a, k):
    '''number of readers chained in the result of slice(): 0 for an empty iterator'''
    v = a[0]
    if isinstance(v, VIter):
      return VInt(v.src.n - v.pos)
    return VInt(nparts_fn(it.to_obj(v)))

  @R.spec
  def reader(it, a, k):
    v = a[0]
    if isinstance(v, VIter):
      return VOpaque(z3.Const('no_reader', Obj))
    return VOpaque(part_fn(it.to_obj(v), it.to_int(a[1])))

  @R.spec
  def r_seq(it, a, k):
    return VInt(rd_seq(it.to_obj(a[0])))

  @R.spec
  def r_lo(it, a, k):
    return VInt(rd_lo(it.to_obj(a[0])))

  @R.spec
  def r_hi(it, a, k):
    return VInt(rd_hi(it.to_obj(a[0])))

  def _reader_post(it, env2, old):
    # a single reader is a chain of one part: itself
    r = env2['result'].t
    it.assume(nparts_fn(r) == 1)
    it.assume(part_fn(r, 0) == r)

  # ASSUMED (one-line constructor call): _index_slice(s, a, b) builds the reader of sub-sequence s over [a, b or its end);
  # what such a reader delivers is the contract of _RangeIterator.__next__ (proved).
  R.add(Contract(
      f'{ITER}::MergedSequences._index_slice', 'trusted', types=dict(self='MergedSequences', seq_idx='int', start='int', stop='int?'), ret='obj',
      requires=['0 <= seq_idx and seq_idx < len(self._sequences)'], post_hook=_reader_post,
      ensures=['r_seq(result) == seq_idx', 'r_lo(result) == start',
               'r_hi(result) == ite(stop is None, len(self._sequences[seq_idx]), stop)']))

  S_ = 'ite(lo_arg is None, 0, ite(lo_arg < 0, max(lo_arg + {L}, 0), min(lo_arg, {L})))'.format(L=L_)
  E_ = 'ite(hi_arg is None, {L}, ite(hi_arg < 0, max(hi_arg + {L}, 0), min(hi_arg, {L})))'.format(L=L_)
  G = lambda r, x: f'(self._seq_idxs[r_seq({r})] + {x})'       # position in the concatenation of offset x of the reader's sub-sequence

  def _slice_setup(it, env):
    env['slice_'] = VSlice(it.ghost['lo_arg'], it.ghost['hi_arg'], NONE)

  R.add(Contract(
      f'{ITER}::MergedSequences.slice', P, types=dict(self='MergedSequences', slice_='none'), ghost=dict(lo_arg='int?', hi_arg='int?'), setup=_slice_setup,
      site_ghost=dict(lo_arg=lambda it, env: env['slice_'].lo, hi_arg=lambda it, env: env['slice_'].hi),
      requires=MS_INV,
      ensures=[
          # nothing to deliver: no reader
          f'implies({S_} >= {E_}, nreaders(result) == 0)',
          f'implies({S_} < {E_}, nreaders(result) >= 1)',
          # the readers tile [start, stop) of the concatenation: the first begins at start, each one begins where the previous
          # one ended, the last ends at stop, and every reader stays inside its own sub-sequence
          f'implies({S_} < {E_}, {G("reader(result, 0)", "r_lo(reader(result, 0))")} == {S_})',
          f'implies({S_} < {E_}, {G("reader(result, nreaders(result) - 1)", "r_hi(reader(result, nreaders(result) - 1))")} == {E_})',
          f'forall(lambda t: {G("reader(result, t)", "r_hi(reader(result, t))")} == {G("reader(result, t + 1)", "r_lo(reader(result, t + 1))")}, 0, nreaders(result) - 1)',
          'forall(lambda t: 0 <= r_seq(reader(result, t)) and r_seq(reader(result, t)) < len(self._sequences) and 0 <= r_lo(reader(result, t))'
          ' and r_lo(reader(result, t)) <= r_hi(reader(result, t)) and r_hi(reader(result, t)) <= len(self._sequences[r_seq(reader(result, t))]), 0, nreaders(result))',
      ],
      loops={0: dict(invariant=[
          'start.seq_idx + 1 <= i_seq or i_seq == start.seq_idx + 1', 'len(sequences) == i_seq - start.seq_idx',
          'forall(lambda t: r_seq(sequences[t]) == start.seq_idx + t and r_hi(sequences[t]) == len(self._sequences[start.seq_idx + t])'
          ' and r_lo(sequences[t]) == ite(t == 0, start.idx, 0), 0, len(sequences))'])},
      witness=dict(start='lo_arg', stop='hi_arg', n='len(self._sequences)'), bounded='bounded_merged',
      note='slice / iteration of the merged sequence = a chain of readers that tile exactly [start, stop), in order, without gap or overlap'))

  R.add(Contract(
      f'{ITER}::MergedSequences.__iter__', P, types=dict(self='MergedSequences'), requires=MS_INV,
      ensures=[
          f'implies({L_} == 0, nreaders(result) == 0)',
          f'implies({L_} > 0, nreaders(result) >= 1 and {G("reader(result, 0)", "r_lo(reader(result, 0))")} == 0'
          f' and {G("reader(result, nreaders(result) - 1)", "r_hi(reader(result, nreaders(result) - 1))")} == {L_})',
          f'forall(lambda t: {G("reader(result, t)", "r_hi(reader(result, t))")} == {G("reader(result, t + 1)", "r_lo(reader(result, t + 1))")}, 0, nreaders(result) - 1)'],
      bounded='bounded_merged', note='iteration = the readers tile the whole concatenation [0, len)'))

  # ---- round-robin shards of any iterable: a shard of a shard is the composed residue class -------------------------
  R.add(Contract(
      f'{IO}::ShardedIterable.shard', P, types=dict(self='ShardedIterable', shard_index='int', num_shards='int'), ret='ShardedIterable',
      requires=['self._shard_state.num_shards >= 1', 'num_shards >= 1'],
      ensures=['result._shard_state.shard_index == self._shard_state.shard_index + self._shard_state.num_shards * shard_index',
               'result._shard_state.num_shards == self._shard_state.num_shards * num_shards',
               'result.data is self.data', 'result._shard_state.start_index == 0'],
      witness=dict(a='self._shard_state.shard_index', m='self._shard_state.num_shards', i='shard_index', n='num_shards'), replay='replay_sharded_iterable',
      bounded='bounded_sharded_iterable',
      note='shard i of n of the shard (a mod m) is the residue class (a + m*i mod m*n); the lemmas below show that this IS '
           '"every n-th element of the parent shard, starting with its i-th" (the D3 defect re-sharded the root instead)'))
  # Euclidean division is unique (the one non-linear fact; the composition lemmas below take instances of it as hypotheses)
  R.lemma('euclidean-division-is-unique', P, dict(x='int', d='int', q='int', r='int'),
          ['d > 0', 'x == d * q + r', '0 <= r', 'r < d'], ['x // d == q and x % d == r'])
  RR = dict(p='int', a='int', m='int', i='int', n='int')
  rr_pre = ['0 <= a', 'a < m', '0 <= i', 'i < n', 'p >= 0']
  uniq = lambda x, d, q, r: f'implies({d} > 0 and {x} == ({d}) * ({q}) + ({r}) and 0 <= ({r}) and ({r}) < ({d}), {x} % ({d}) == ({r}) and {x} // ({d}) == ({q}))'
  R.lemma('element-of-the-sub-shard-is-in-the-composed-residue-class', P, dict(RR, j='int'),
          rr_pre + ['p == a + m * j', 'j >= 0', 'j % n == i',                 # p is the j-th element of the parent shard and j = i (mod n)
                    uniq('p', 'm * n', 'j // n', 'a + m * i')],
          ['p % (m * n) == a + m * i'],
          note='hypothesis = instance of euclidean-division-is-unique')
  R.lemma('composed-residue-class-is-the-sub-shard', P, dict(RR, q='int'),
          rr_pre + ['q >= 0', 'p == (a + m * i) + (m * n) * q', uniq('p', 'm', 'i + n * q', 'a'), uniq('i + n * q', 'n', 'q', 'i')],
          ['p % m == a', '((p - a) // m) % n == i'],
          note='conversely: such a p lies in the parent shard and is its (i + n*q)-th element; hypotheses = instances of the uniqueness lemma')

  # ---- partition lemmas over the contract's spec functions only ---------------------------
  tys = dict(s='int', e='int', i='int', k='int')
  pre = ['s <= e', 'k >= 1', '0 <= i < k']
  R.lemma('partition-first-starts-at-source-start', P, dict(s='int', e='int', k='int'), ['s <= e', 'k >= 1'],
          ['part_start(s, e, 0, k) == s'])
  R.lemma('partition-contiguous', P, tys, pre,
          ['part_start(s, e, i, k) + part_len(s, e, i, k) == part_start(s, e, i + 1, k)'],
          note='shard i ends where shard i+1 starts: disjoint, ordered, nothing between')
  R.lemma('partition-last-ends-at-source-end', P, dict(s='int', e='int', k='int'), ['s <= e', 'k >= 1'],
          ['part_start(s, e, k, k) == e'],
          note='with contiguity: the k shards cover [s, e) exactly')
  R.lemma('partition-sizes-differ-by-at-most-one', P, dict(s='int', e='int', i='int', j='int', k='int'),
          ['s <= e', 'k >= 1', '0 <= i < k', '0 <= j < k'],
          ['part_len(s, e, i, k) - part_len(s, e, j, k) <= 1', 'part_len(s, e, i, k) >= 0',
           'implies(i <= j, part_len(s, e, i, k) >= part_len(s, e, j, k))'])
  R.bounded_checks[P] = [
      ('bounded_shard', 'whole-property native check of SequenceDataSource shards/nested shards/from_state (small scope)'),
      ('bounded_merged', 'MergedSequences iteration/index/slice vs list concatenation (small scope)'),
      ('bounded_range_iterator', '_RangeIterator read-ahead vs list slice (small scope)'),
      ('bounded_sharded_iterable', 'ShardedIterable round-robin shards, shards of shards, restore (small scope)'),
  ]
  R.trusted[P] = [
      'A2 bisect.bisect_left contract; dataclasses.replace = functional update + __post_init__',
      'A4 sequential semantics', 'A7 pyvc engine, z3, cvc5',
      'SequenceDataSource.data abstracted to a sized opaque object whose class is MergedSequences',
      'distinct parameters do not alias',
  ]
  R.lemma('partition-inside-source', P, tys, pre,
          ['s <= part_start(s, e, i, k)', 'part_start(s, e, i, k) + part_len(s, e, i, k) <= e'],
          note='nested shards stay inside their parent (shards of shards partition that shard)')
