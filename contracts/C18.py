"""C18 - Tree views obey get/set laws (no function is under contract yet: the copy-on-write recursion of
_set_by_path needs an ownership argument over a heap of nested containers that the engine does not have;
the property is decided by an exhaustive small-scope native stand-in, reported as bounded)."""
P = 'C18'


def register(R):
  R.bounded_checks[P] = [
      ('bounded_tree_laws', 'all trees of depth<=2 (3 thorough), width<=2 over dict/list/tuple/ndarray/leaf x all existing and fresh paths: get/set laws, frame, enumeration, apply'),
  ]
  R.trusted[P] = ['bounded: small-scope hypothesis (depth<=2/3, width<=2)', 'independent oracle: plain Python indexing and deep comparison']
