"""C18 - Tree views obey get/set laws and never mutate the viewed data.

Contracts on the real `tree._default_tree` and `TreeMapView._set_by_path` over the heap model of
pyvc/treeheap.py (assumption A9).  The read of a key path is the spec function `rd` (recursive definition
in z3); the copy-on-write argument is a dynamic-frame one: every call gets a ghost region S0 (closed set of
nodes that holds the tree and the value), writes only to nodes it allocated itself, and promises

  * frame:   every node allocated at entry has exactly the rows it had (the original is untouched at any depth),
  * region:  S0 + the nodes allocated by the call is closed and holds the result,
  * E1:      in EVERY heap that agrees with the final one on that region, reading the key path from the
             result is defined and yields the value (so later writes of the caller to its own fresh nodes
             cannot disturb it: this is what carries the induction through the recursion),
  * sharing: every other key of the copied node holds the very same child object as before.
"""
import z3
from pyvc.contracts import Contract
from pyvc.values import *   # pylint: disable=wildcard-import
from pyvc import treeheap as th
from pyvc.treeheap import VTree, VTKey, VKeyPath, VRegion

TR = 'ml_metrics/_src/chainables/tree.py'
P = 'C18'


def register(R):
  R.cls('TreeMapView', dict(data='tree', strict='bool', map_fn='none', key_paths='none'))

  def heap(it):
    h = it.cur_heap()
    return h['H'], h['alloc']

  def node(it, v):
    return it.as_tree(v)

  @R.spec
  def t_kind(it, a, k):
    return VInt(th.tkind(node(it, a[0])))

  @R.spec
  def t_alloc(it, a, k):
    return VBool(heap(it)[1][node(it, a[0])])

  @R.spec
  def is_self_key(it, a, k):
    return VBool(th.is_self(a[0].t))

  @R.spec
  def is_skip_key(it, a, k):
    return VBool(z3.And(th.kkind(a[0].t) == th.K_RESERVED, th.kval(a[0].t) == th.kval(th.SKIP_KEY)))

  @R.spec
  def head(it, a, k):
    '''first element of a key path (meaningful when it is not empty)'''
    return VTKey(a[0].arr[a[0].lo])

  @R.spec
  def plain_path(it, a, k):
    '''no Literal element, and SELF is the only Reserved element that occurs'''
    kp = a[0]
    j = z3.Int(it.path.fresh_name('j'))
    e = kp.arr[j]
    return VBool(z3.ForAll([j], z3.Implies(z3.And(kp.lo <= j, j < kp.hi), z3.And(
        th.kkind(e) != th.K_LITERAL, z3.Implies(th.kkind(e) == th.K_RESERVED, th.is_self(e))))))

  @R.spec
  def region_ok(it, a, k):
    '''S is a set of allocated nodes closed under children'''
    H, alloc = heap(it)
    S = a[0].mem
    o = z3.Const(it.path.fresh_name('o'), Obj)
    return VBool(z3.And(z3.ForAll([o], z3.Implies(S(o), alloc[o])), th.closed(S, H, it.path.fresh_name('c'))))

  @R.spec
  def in_region(it, a, k):
    return VBool(a[0].mem(node(it, a[1])))

  @R.spec
  def grown(it, a, k):
    '''S0 plus everything allocated since the pre-state'''
    _, alloc = heap(it)
    old_alloc = it.pre_alloc()
    return VRegion(lambda o, _s=a[0].mem: z3.Or(_s(o), z3.And(alloc[o], z3.Not(old_alloc[o]))))

  @R.spec
  def frame_ok(it, a, k):
    '''every node allocated in the pre-state is still allocated and has exactly the rows it had'''
    H, alloc = heap(it)
    old = it.pre_heap()
    o = z3.Const(it.path.fresh_name('o'), Obj)
    return VBool(z3.ForAll([o], z3.Implies(old['alloc'][o], z3.And(alloc[o], th.rows_equal(H, old['H'], o)))))

  @R.spec
  def is_new(it, a, k):
    '''allocated by this call'''
    _, alloc = heap(it)
    t = node(it, a[0])
    return VBool(z3.And(alloc[t], z3.Not(it.pre_alloc()[t])))

  @R.spec
  def reads_back(it, a, k):
    '''in every heap agreeing with the current one on region S: reading key path kp from node t is defined
    and yields v'''
    S, t, kp, v = a[0].mem, node(it, a[1]), a[2], node(it, a[3])
    H, _ = heap(it)
    G = z3.Const(it.path.fresh_name('G'), th.Heap)
    return VBool(z3.ForAll([G], z3.Implies(th.agree(G, H, S, it.path.fresh_name('o')), z3.And(
        th.rdok(G, t, kp.arr, kp.hi, kp.lo), th.rd(G, t, kp.arr, kp.hi, kp.lo) == v))))

  @R.spec
  def others_shared(it, a, k):
    '''node `new` has, under every key other than `key`, exactly the entry the (pre-state) node `orig` had:
    same presence and the very same child object'''
    new, orig, key = node(it, a[0]), node(it, a[1]), a[2].t
    H, _ = heap(it)
    H0 = it.pre_heap()['H']
    kv = z3.Const(it.path.fresh_name('kv'), th.KVal)
    i = z3.Int(it.path.fresh_name('i'))
    n0 = th.h_len(H0)[orig]
    idx = th.norm(th.kint(key), th.h_len(H)[new])
    return VBool(z3.And(
        z3.Implies(th.tkind(orig) == th.T_DICT, z3.ForAll([kv], z3.Implies(kv != th.kval(key), z3.And(
            th.h_has(H)[new][kv] == th.h_has(H0)[orig][kv], th.h_dch(H)[new][kv] == th.h_dch(H0)[orig][kv])))),
        z3.Implies(th.listlike(orig), z3.And(
            th.h_len(H)[new] >= n0, th.h_len(H)[new] <= n0 + 1,
            z3.ForAll([i], z3.Implies(z3.And(0 <= i, i < n0, i != idx), th.h_item(H)[new][i] == th.h_item(H0)[orig][i]))))))

  @R.spec
  def key_kind(it, a, k):
    '''0 plain, 1 Index, 2 Reserved, 3 Literal'''
    kp, j = a[0], it.to_int(a[1])
    return VInt(th.kkind(kp.arr[kp.lo + j]))

  @R.spec
  def key_is_self(it, a, k):
    kp, j = a[0], it.to_int(a[1])
    return VBool(th.is_self(kp.arr[kp.lo + j]))

  @R.spec
  def key_usable(it, a, k):
    '''hashable (usable as a dict key) and not an Index'''
    kp, j = a[0], it.to_int(a[1])
    e = kp.arr[kp.lo + j]
    return VBool(z3.And(th.khash(e), th.kkind(e) != th.K_INDEX))

  @R.spec
  def key_int(it, a, k):
    kp, j = a[0], it.to_int(a[1])
    return VInt(th.kint(kp.arr[kp.lo + j]))

  @R.spec
  def rd_at(it, a, k):
    '''what reading the rest kp[i:] of a key path from node t yields (i is an absolute position)'''
    H, _ = heap(it)
    return VTree(th.rd(H, node(it, a[0]), a[1].arr, a[1].hi, it.to_int(a[2])))

  @R.spec
  def rdok_at(it, a, k):
    H, _ = heap(it)
    return VBool(th.rdok(H, node(it, a[0]), a[1].arr, a[1].hi, it.to_int(a[2])))

  @R.spec
  def rd_path(it, a, k):
    H, _ = heap(it)
    return VTree(th.rd(H, node(it, a[0]), a[1].arr, a[1].hi, a[1].lo))

  @R.spec
  def rdok_path(it, a, k):
    H, _ = heap(it)
    return VBool(th.rdok(H, node(it, a[0]), a[1].arr, a[1].hi, a[1].lo))

  @R.spec
  def one_step_ok(it, a, k):
    '''a key path of length one whose key the root container accepts: a hashable key on a dict, an index inside (or
    one past the end of) a list, an index inside a tuple - such a set must not fail'''
    t, kp = node(it, a[0]), a[1]
    H, _ = heap(it)
    key = kp.arr[kp.lo]
    n = th.h_len(H)[t]
    i = th.kint(key)
    return VBool(z3.And(
        kp.hi - kp.lo == 1, th.kkind(key) != th.K_RESERVED,
        z3.Or(z3.And(th.tkind(t) == th.T_DICT, th.khash(key)),
              z3.And(th.tkind(t) == th.T_LIST, th.kisint(key), -n <= i, i <= n, n >= 0),
              z3.And(th.tkind(t) == th.T_TUPLE, th.kisint(key), -n <= i, i < n))))

  region = {'S0': lambda it, env: it.default_region()}
  WIT = {'path_len': 'len(key_path)', 'kind0': 'key_kind(key_path, 0)', 'self0': 'key_is_self(key_path, 0)', 'int0': 'key_int(key_path, 0)',
         'kind1': 'key_kind(key_path, 1)', 'self1': 'key_is_self(key_path, 1)', 'int1': 'key_int(key_path, 1)'}
  RAISES = ['KeyError', 'TypeError', 'ValueError', 'AssertionError', 'IndexError']

  R.add(Contract(
      f'{TR}::_default_tree', P, types=dict(key_path='keypath', value='tree'), ret='tree',
      ghost={'S0': 'region'}, site_ghost=region, modifies=['theap'], witness=WIT,
      requires=['region_ok(S0)', 'in_region(S0, value)'],
      # it fails only for a non-empty path that does not start with SELF (and then only for a non-zero index or an unusable key)
      raises_ensures={e: ['len(key_path) > 0 and not is_self_key(head(key_path))',
                          'not (len(key_path) == 1 and key_kind(key_path, 0) == 0 and key_usable(key_path, 0))'] for e in ('ValueError', 'TypeError')},
      ensures=[
          'frame_ok()',
          'region_ok(grown(S0))', 'in_region(grown(S0), result)',
          'implies(len(key_path) == 0 or is_self_key(head(key_path)), result is value)',
          'implies(len(key_path) > 0 and not is_self_key(head(key_path)), is_new(result))',
          'implies(plain_path(key_path), reads_back(grown(S0), result, key_path, value))',
      ],
      replay='replay_default_tree', bounded='bounded_tree_laws',
      note='a fresh chain of one-entry containers that reads back the value along the key path'))

  R.add(Contract(
      f'{TR}::TreeMapView._set_by_path', P,
      types=dict(self='TreeMapView', tree='tree', key_path='keypath', value='tree', in_place='bool'), ret='tree',
      ghost={'S0': 'region'}, site_ghost=region, modifies=['theap'], witness=dict(WIT, tree_kind='t_kind(tree)'),
      requires=['not in_place', 'region_ok(S0)', 'in_region(S0, tree)', 'in_region(S0, value)'],
      # no spurious failure: an empty / SELF path never fails, nor does a one-key path the root container accepts
      raises_ensures={e: ['len(key_path) > 0 and not is_self_key(head(key_path))', 'not old(one_step_ok(tree, key_path))'] for e in RAISES},
      ensures=[
          # the original is untouched at every depth
          'frame_ok()',
          'region_ok(grown(S0))', 'in_region(grown(S0), result)',
          # an empty path / SELF replaces the root by the value itself
          'implies(len(key_path) == 0 or is_self_key(head(key_path)), result is value)',
          # SKIP discards the value: on an empty tree nothing is inserted (D35: it used to become a key named SKIP)
          'implies(len(key_path) > 0 and is_skip_key(head(key_path)) and t_kind(tree) == 4, result is tree)',
          # a strict view never grows a missing branch (it raises instead)
          'not (self.strict and t_kind(tree) == 4 and len(key_path) > 0 and not is_self_key(head(key_path)))',
          # get after set
          'implies(plain_path(key_path), reads_back(grown(S0), result, key_path, value))',
          # every other entry of the copied root is the same object as before, and the root keeps its kind
          'implies(len(key_path) > 0 and plain_path(key_path) and not is_self_key(head(key_path)) and t_kind(tree) != 4,'
          ' is_new(result) and t_kind(result) == t_kind(tree) and others_shared(result, tree, head(key_path)))',
      ],
      replay='replay_set_by_path', bounded='bounded_tree_laws',
      note='copy-on-write along the path: writes only to nodes the call allocated'))

  # ---- reads ------------------------------------------------------------------------------------------
  READ_ERR = {e: ['not rdok_path(self.data, key)'] for e in ('KeyError', 'IndexError', 'TypeError')}
  R.add(Contract(
      f'{TR}::TreeMapView.__get', P, types=dict(self='TreeMapView', key='keypath'), ret='tree',
      loops={0: dict(invariant=['rd_at(data, key, idx_k) is rd_path(self.data, key)',
                                'rdok_at(data, key, idx_k) == rdok_path(self.data, key)'])},
      ensures=['result is rd_path(self.data, key)', 'rdok_path(self.data, key)'],
      raises_ensures=READ_ERR, witness=dict(path_len='len(key)', kind0='key_kind(key, 0)', self0='key_is_self(key, 0)', int0='key_int(key, 0)',
                                            kind1='key_kind(key, 1)', self1='key_is_self(key, 1)', int1='key_int(key, 1)', tree_kind='t_kind(self.data)'),
      bounded='bounded_tree_laws', replay='replay_get',
      note='the loop computes exactly the spec function rd: stop at SELF, a Literal yields its value, otherwise descend; it raises exactly when the path is not defined'))

  R.add(Contract(
      f'{TR}::TreeMapView.__getitem__', P, variant='single', types=dict(self='TreeMapView', keys='keypath'), ret='tree',
      when=lambda it, a, k: isinstance(a[1], VKeyPath),
      ensures=['result is rd_path(self.data, keys)', 'rdok_path(self.data, keys)'],
      raises_ensures={e: ['not rdok_path(self.data, keys)'] for e in ('KeyError', 'IndexError', 'TypeError')},
      bounded='bounded_tree_laws', note='a Key is one path, never a multi-key'))
  R.add(Contract(
      f'{TR}::TreeMapView.__getitem__', P, variant='multi', types=dict(self='TreeMapView', keys='tuple[keypath,keypath,keypath]'), ret='tuple[tree,tree,tree]',
      when=lambda it, a, k: isinstance(a[1], VTuple) and len(a[1].items) == 3,
      ensures=['result[0] is rd_path(self.data, keys[0])', 'result[1] is rd_path(self.data, keys[1])', 'result[2] is rd_path(self.data, keys[2])',
               'rdok_path(self.data, keys[0]) and rdok_path(self.data, keys[1]) and rdok_path(self.data, keys[2])'],
      raises_ensures={e: ['not (rdok_path(self.data, keys[0]) and rdok_path(self.data, keys[1]) and rdok_path(self.data, keys[2]))']
                      for e in ('KeyError', 'IndexError', 'TypeError')},
      bounded='bounded_tree_laws', note='multi-key reads return the values aligned with the keys (three keys; the tuple is unrolled)'))

  # ---- copying set through the public API ------------------------------------------------------------------
  SET_REQ = ['region_ok(S0)', 'in_region(S0, self.data)']
  R.add(Contract(
      f'{TR}::TreeMapView.set', P, variant='single', when=lambda it, a, k: isinstance(a[1], VKeyPath),
      types=dict(self='TreeMapView', keys='keypath', values='tree', in_place='bool'), ret='TreeMapView',
      ghost={'S0': 'region'}, site_ghost=region, modifies=['theap'],
      requires=SET_REQ + ['not in_place', 'in_region(S0, values)'],
      raises_ensures={e: ['len(keys) > 0 and not is_self_key(head(keys))', 'not old(one_step_ok(self.data, keys))'] for e in RAISES},
      ensures=['frame_ok()', 'region_ok(grown(S0))', 'in_region(grown(S0), result.data)', 'result is not self', 'self.data is old(self.data)',
               'implies(plain_path(keys), reads_back(grown(S0), result.data, keys, values))',
               'implies(len(keys) > 0 and plain_path(keys) and not is_self_key(head(keys)) and t_kind(self.data) != 4,'
               ' is_new(result.data) and t_kind(result.data) == t_kind(self.data) and others_shared(result.data, self.data, head(keys)))'],
      bounded='bounded_tree_laws', note='a copying set returns a new view; the viewed data of the receiver is the same untouched object'))
  R.add(Contract(
      f'{TR}::TreeMapView.set', P, variant='two-keys', when=lambda it, a, k: isinstance(a[1], VTuple) and len(a[1].items) == 2,
      types=dict(self='TreeMapView', keys='tuple[keypath,keypath]', values='tuple[tree,tree]', in_place='bool'), ret='TreeMapView',
      ghost={'S0': 'region'}, site_ghost=region, modifies=['theap'],
      requires=SET_REQ + ['not in_place', 'in_region(S0, values[0])', 'in_region(S0, values[1])'],
      # no spurious failure: two one-key paths that a dict root accepts are set without an error (aligned keys and values)
      raises_ensures={e: ['not (t_kind(self.data) == 1 and plain_path(keys[0]) and plain_path(keys[1]) and old(one_step_ok(self.data, keys[0])) and old(one_step_ok(self.data, keys[1])))'] for e in RAISES},
      ensures=['frame_ok()', 'region_ok(grown(S0))', 'in_region(grown(S0), result.data)', 'self.data is old(self.data)',
               # values are aligned with the keys: the last key reads back the last value
               'implies(plain_path(keys[1]), reads_back(grown(S0), result.data, keys[1], values[1]))'],
      bounded='bounded_tree_laws', note='two keys, two values: set one after the other on successive copies'))
  R.add(Contract(
      f'{TR}::TreeMapView.copy_and_set', P,
      types=dict(self='TreeMapView', keys='keypath', values='tree'), ret='TreeMapView',
      ghost={'S0': 'region'}, site_ghost=region, modifies=['theap'],
      requires=SET_REQ + ['in_region(S0, values)'],
      raises_ensures={e: ['len(keys) > 0 and not is_self_key(head(keys))', 'not old(one_step_ok(self.data, keys))'] for e in RAISES},
      ensures=['frame_ok()', 'region_ok(grown(S0))', 'in_region(grown(S0), result.data)', 'result is not self', 'self.data is old(self.data)',
               'implies(plain_path(keys), reads_back(grown(S0), result.data, keys, values))',
               'implies(len(keys) > 0 and plain_path(keys) and not is_self_key(head(keys)) and t_kind(self.data) != 4,'
               ' is_new(result.data) and t_kind(result.data) == t_kind(self.data) and others_shared(result.data, self.data, head(keys)))'],
      bounded='bounded_tree_laws'))

  # ---- the laws of the property, over the contracts only -------------------------------------------------------
  LT = dict(v='TreeMapView', kp='keypath', x='tree', S0='region')
  LR = ['region_ok(S0)', 'in_region(S0, v.data)', 'in_region(S0, x)', 'plain_path(kp)']
  R.lemma('get-after-copying-set', P, LT, LR, ['v.copy_and_set(kp, x)[kp] is x'],
          note='reading a path after a copying set returns the set value (and is defined)')
  # Reading inside a closed region depends only on the rows of that region (induction on the length of the
  # rest of the path: the lemma below is the induction step, the base case `tail empty` is the first disjunct
  # of the unfolding and is covered by the same obligation with len(q) == 0).
  @R.spec
  def closed_in(it, a, k):
    return VBool(th.closed(a[0].mem, a[1].t, it.path.fresh_name('c')))

  @R.spec
  def agree_on(it, a, k):
    return VBool(th.agree(a[0].t, a[1].t, a[2].mem, it.path.fresh_name('o')))

  @R.spec
  def same_read_from(it, a, k):
    '''reading q[i:] from node t gives the same (and is defined alike) in heaps G and H'''
    G, H, t, q, i = a[0].t, a[1].t, node(it, a[2]), a[3], q_index(it, a[3], a[4])
    return VBool(z3.And(th.rdok(G, t, q.arr, q.hi, i) == th.rdok(H, t, q.arr, q.hi, i),
                        z3.Implies(th.rdok(H, t, q.arr, q.hi, i), th.rd(G, t, q.arr, q.hi, i) == th.rd(H, t, q.arr, q.hi, i))))

  def q_index(it, q, off):
    return q.lo + it.to_int(off)

  @R.spec
  def same_read_everywhere(it, a, k):
    '''induction hypothesis: for EVERY node of the region, reading q[i:] agrees in G and H'''
    G, H, S, q, i = a[0].t, a[1].t, a[2].mem, a[3], q_index(it, a[3], a[4])
    o = z3.Const(it.path.fresh_name('o'), Obj)
    return VBool(z3.ForAll([o], z3.Implies(S(o), z3.And(
        th.rdok(G, o, q.arr, q.hi, i) == th.rdok(H, o, q.arr, q.hi, i),
        z3.Implies(th.rdok(H, o, q.arr, q.hi, i), th.rd(G, o, q.arr, q.hi, i) == th.rd(H, o, q.arr, q.hi, i))))))

  R.lemma('reads-inside-a-closed-region-depend-on-that-region-only', P,
          dict(G='heap', H='heap', S='region', t='tree', q='keypath'),
          ['closed_in(S, H)', 'agree_on(G, H, S)', 'in_region(S, t)', 'same_read_everywhere(G, H, S, q, 1)'],
          ['same_read_from(G, H, t, q, 0)'],
          note='induction step over the rest of the key path (hypothesis: the claim for q[1:] from every node of the region); '
               'with frame_ok (the final heap agrees with the initial one on everything allocated before) this is '
               '"the original reads as before at every depth" and, through others_shared, "every other path reads as before"')

  @R.spec
  def old_heap(it, a, k):
    '''the heap at the start of the lemma'''
    return th.VHeap(it.entry_old['__theap__']['H'])

  @R.spec
  def bind_w(it, a, k):
    it.ghost['__w__'] = a[0]
    return a[0]

  @R.spec
  def bound_w(it, a, k):
    return it.ghost['__w__']

  @R.spec
  def same_read_from2(it, a, k):
    '''reading q from the data of view w in heap G is defined like, and yields the same as, reading q from node t in heap H'''
    G, w, H, t, q = a[0].t, node(it, it.getfield(a[1], 'data')), a[2].t, node(it, a[3]), a[4]
    return VBool(z3.And(th.rdok(G, w, q.arr, q.hi, q.lo) == th.rdok(H, t, q.arr, q.hi, q.lo),
                        z3.Implies(th.rdok(H, t, q.arr, q.hi, q.lo), th.rd(G, w, q.arr, q.hi, q.lo) == th.rd(H, t, q.arr, q.hi, q.lo))))

  @R.spec
  def snap(it, a, k):
    '''the current heap as a value'''
    return th.VHeap(heap(it)[0])

  @R.spec
  def after(it, a, k):
    '''after(e1, e2): evaluates e1 (for its effect on the heap), then yields e2'''
    return a[1]

  @R.spec
  def induction_conclusion(it, a, k):
    '''what the induction whose step is the lemma above concludes for heaps G, H and region S: if S is closed in
    H and G agrees with H on S then reading q[i:] from any node of S is the same in both'''
    G, H, S, q, i = a
    prem = z3.And(th.closed(S.mem, H.t, it.path.fresh_name('c')), th.agree(G.t, H.t, S.mem, it.path.fresh_name('o')))
    return VBool(z3.Implies(prem, same_read_everywhere(it, [G, H, S, q, i], {}).t))

  @R.spec
  def same_key(it, a, k):
    return VBool(th.kval(a[0].t) == th.kval(a[1].t))

  R.lemma('the-original-reads-as-before-at-every-depth', P, dict(LT, q='keypath'), LR,
          ['implies(induction_conclusion(after(v.copy_and_set(kp, x), snap()), old_heap(), S0, q, 0),'
           ' same_read_from(snap(), old_heap(), v.data, q, 0))'],
          note='from frame_ok + region_ok of copy_and_set: whatever key path q is read from the original data gives what it gave before')
  R.lemma('other-keys-of-a-dict-root-read-as-before', P, dict(LT, q='keypath', w='TreeMapView'),
          LR + ['len(kp) > 0', 'len(q) > 0', 'not is_self_key(head(kp))', 't_kind(v.data) == 1',
                'not same_key(head(q), head(kp))', 'key_kind(q, 0) == 0'],
          ['implies(induction_conclusion(after(bind_w(v.copy_and_set(kp, x)), snap()), old_heap(), S0, q, 1),'
           ' same_read_from2(snap(), bound_w(), old_heap(), v.data, q))'],
          note='a key path that leaves the root through another key reads in the new view exactly what it read in the original '
               '(others_shared gives the same child object, the lemma above its unchanged content); deeper divergence is the same '
               'argument at the recursive call and is not composed mechanically')

  R.bounded_checks[P] = [
      ('bounded_tree_laws', 'all trees of depth<=2 (3 thorough), width<=2 over dict/list/tuple/ndarray/leaf x all existing and fresh paths: get/set laws, frame, enumeration, apply'),
  ]
  R.trusted[P] = [
      'A9 heap model of nested containers: dict / list / tuple / NullMap / leaf nodes only (no ndarray, DataFrame or user Mapping nodes), '
      'copy.copy / list() / tuple() / append / get / item assignment as functional updates of one heap value',
      'leaves are not subscriptable; bool / float keys are not integers',
      'bounded: small-scope hypothesis (depth<=2/3, width<=2)', 'independent oracle: plain Python indexing and deep comparison']
