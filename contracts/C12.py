"""C12 - Error skipping drops only failing elements (contracts)."""
import importlib.util, os
import z3
from pyvc.contracts import Contract
from pyvc.values import *   # pylint: disable=wildcard-import

_s9 = importlib.util.spec_from_file_location('c09', os.path.join(os.path.dirname(__file__), 'C09.py'))
_c09 = importlib.util.module_from_spec(_s9); _s9.loader.exec_module(_c09)
_spec = importlib.util.spec_from_file_location('rangeiter_common', os.path.join(os.path.dirname(__file__), 'rangeiter_common.py'))
rangeiter_common = importlib.util.module_from_spec(_spec); _spec.loader.exec_module(rangeiter_common)
ITER = 'ml_metrics/_src/utils/iter_utils.py'
P = 'C12'

rank_fn = z3.Function('rank', z3.IntSort(), z3.IntSort())   # ghost: #non-failing source positions before i


def _setup_iter(it, env):
  src_it = env['it']
  src_it.resumable = True
  src_it.err = 'ValueError'          # a skippable error class (ValueError / TypeError)
  i = z3.Int(it.path.fresh_name('i'))
  # definition of the ghost counting function (definitional extension)
  it.assume(z3.ForAll([i], rank_fn(i + 1) == rank_fn(i) + z3.If(z3.Select(src_it.fails, i), 0, 1)))
  it.ghost['pos0'] = VInt(src_it.pos)


def register(R):
  _c09.register(R)          # shard / from_state (a restored source must keep its error-skipping flag) + spec functions
  R.bounded_checks.pop('C09', None)
  R.opaque_item_error = 'ValueError'
  @R.spec
  def fails(it, a, k):
    return VBool(z3.Select(a[0].fails, it.to_int(a[1])))

  @R.spec
  def rank(it, a, k):
    return VInt(rank_fn(it.to_int(a[0])))

  R.add(Contract(
      f'{ITER}::iter_ignore_error', P, variant='with-marker',
      types=dict(it='iter[obj]', error_return='obj'), yields='obj', setup=_setup_iter, modifies=['it'],
      # with a marker every source position produces exactly one output: the element
      # itself or the marker - nothing after a failing element is lost, order and
      # alignment (position k of the output <-> position pos0+k of the source) are kept
      ensures=['len(out) == len(it.src) - pos0',
               'forall(lambda i: implies(not fails(it, i), out[i - pos0] is it.src[i]), pos0, len(it.src))',
               'forall(lambda i: implies(fails(it, i), out[i - pos0] is error_return), pos0, len(it.src))',
               'result is it.ret'],
      loops={0: dict(invariant=[
          'pos0 <= it.pos and it.pos <= len(it.src)', 'not it.dead',
          'len(out) == it.pos - pos0',
          'forall(lambda i: implies(not fails(it, i), out[i - pos0] is it.src[i]), pos0, it.pos)',
          'forall(lambda i: implies(fails(it, i), out[i - pos0] is error_return), pos0, it.pos)'])},
      bounded='bounded_ignore_error'))
  R.add(Contract(
      f'{ITER}::iter_ignore_error', P, variant='no-marker',
      types=dict(it='iter[obj]', error_return='none'), yields='obj', setup=_setup_iter, modifies=['it'],
      # without a marker the output is exactly the non-failing elements, in order, each once
      ensures=['len(out) == rank(len(it.src)) - rank(pos0)',
               'forall(lambda i: implies(not fails(it, i), out[rank(i) - rank(pos0)] is it.src[i]), pos0, len(it.src))',
               'result is it.ret'],
      loops={0: dict(invariant=[
          'pos0 <= it.pos and it.pos <= len(it.src)', 'not it.dead',
          'len(out) == rank(it.pos) - rank(pos0)',
          'forall(lambda i: rank(i) + ite(fails(it, i), 0, 1) <= rank(it.pos) and rank(pos0) <= rank(i), pos0, it.pos)',
          'forall(lambda i: implies(not fails(it, i), out[rank(i) - rank(pos0)] is it.src[i]), pos0, it.pos)'])},
      bounded='bounded_ignore_error'))
  # (_RangeIterator.__next__ is registered by the C09 contracts for both properties)

  R.bounded_checks[P] = [
      ('bounded_ignore_error', 'iter_ignore_error / processed_with_inputs on fault maps over <=5 elements'),
      ('bounded_range_iterator_faults', '_RangeIterator with failing elements, sliceable and not, every read-ahead'),
      ('bounded_pipeline_skip', 'apply/assign/filter/sink pipelines with failing elements, error skipping on/off, (re)batching, num_threads 0/1'),
  ]
  R.trusted[P] = ['A4 sequential semantics', 'A6 the source iterator is finite; a failing element raises a skippable error (ValueError/TypeError) and the iterator is resumable',
                  'A7 pyvc engine, z3, cvc5']
