"""C12 - Error skipping drops only failing elements (contracts)."""
import importlib.util, os
import z3
from pyvc.contracts import Contract
from pyvc.values import *   # pylint: disable=wildcard-import

_s9 = importlib.util.spec_from_file_location('c09', os.path.join(os.path.dirname(__file__), 'C09.py'))
_c09 = importlib.util.module_from_spec(_s9); _s9.loader.exec_module(_c09)
_spec = importlib.util.spec_from_file_location('rangeiter_common', os.path.join(os.path.dirname(__file__), 'rangeiter_common.py'))
rangeiter_common = importlib.util.module_from_spec(_spec); _spec.loader.exec_module(rangeiter_common)
ITER = 'ml_metrics/_src/utils/iter_utils.py'
P = 'C12'

rank_fn = z3.Function('rank', z3.IntSort(), z3.IntSort())   # ghost: #non-failing source positions before i


def _setup_iter(it, env):
  src_it = env['it']
  src_it.resumable = True
  src_it.err = 'ValueError'          # a skippable error class (ValueError / TypeError)
  i = z3.Int(it.path.fresh_name('i'))
  # definition of the ghost counting function (definitional extension)
  it.assume(z3.ForAll([i], rank_fn(i + 1) == rank_fn(i) + z3.If(z3.Select(src_it.fails, i), 0, 1)))
  it.ghost['pos0'] = VInt(src_it.pos)


def register(R):
  _c09.register(R)          # shard / from_state (a restored source must keep its error-skipping flag) + spec functions
  R.bounded_checks.pop('C09', None)
  R.opaque_item_error = 'ValueError'
  @R.spec
  def fails(it, a, k):
    return VBool(z3.Select(a[0].fails, it.to_int(a[1])))

  @R.spec
  def rank(it, a, k):
    return VInt(rank_fn(it.to_int(a[0])))

  R.add(Contract(
      f'{ITER}::iter_ignore_error', P, variant='with-marker',
      when=lambda it, a, k: (len(a) > 1 and not isinstance(a[1], VNoneT)) or ('error_return' in k and not isinstance(k['error_return'], VNoneT)),
      types=dict(it='iter[obj]', error_return='obj'), yields='obj', setup=_setup_iter, modifies=['it'],
      # with a marker every source position produces exactly one output: the element
      # itself or the marker - nothing after a failing element is lost, order and
      # alignment (position k of the output <-> position pos0+k of the source) are kept
      ensures=['len(out) == len(it.src) - pos0',
               'forall(lambda i: implies(not fails(it, i), out[i - pos0] is it.src[i]), pos0, len(it.src))',
               'forall(lambda i: implies(fails(it, i), out[i - pos0] is error_return), pos0, len(it.src))',
               'result is it.ret'],
      loops={0: dict(invariant=[
          'pos0 <= it.pos and it.pos <= len(it.src)', 'not it.dead',
          'len(out) == it.pos - pos0',
          'forall(lambda i: implies(not fails(it, i), out[i - pos0] is it.src[i]), pos0, it.pos)',
          'forall(lambda i: implies(fails(it, i), out[i - pos0] is error_return), pos0, it.pos)'])},
      bounded='bounded_ignore_error'))
  R.add(Contract(
      f'{ITER}::iter_ignore_error', P, variant='no-marker',
      when=lambda it, a, k: not ((len(a) > 1 and not isinstance(a[1], VNoneT)) or ('error_return' in k and not isinstance(k['error_return'], VNoneT))),
      types=dict(it='iter[obj]', error_return='none'), yields='obj', setup=_setup_iter, modifies=['it'],
      # without a marker the output is exactly the non-failing elements, in order, each once
      ensures=['len(out) == rank(len(it.src)) - rank(pos0)',
               'forall(lambda i: implies(not fails(it, i), out[rank(i) - rank(pos0)] is it.src[i]), pos0, len(it.src))',
               'result is it.ret'],
      loops={0: dict(invariant=[
          'pos0 <= it.pos and it.pos <= len(it.src)', 'not it.dead',
          'len(out) == rank(it.pos) - rank(pos0)',
          'forall(lambda i: rank(i) + ite(fails(it, i), 0, 1) <= rank(it.pos) and rank(pos0) <= rank(i), pos0, it.pos)',
          'forall(lambda i: implies(not fails(it, i), out[rank(i) - rank(pos0)] is it.src[i]), pos0, it.pos)'])},
      bounded='bounded_ignore_error'))
  # ---- map_ignore_error: the mapped values of exactly the elements on which neither the source nor the function fails ----
  from pyvc.builtins_ import fn_raises, opaque_fn

  def _setup_map(it, env):
    src_it = env['it']
    src_it.resumable = True
    src_it.err = 'ValueError'
    i = z3.Int(it.path.fresh_name('i'))
    f = it.fn_symbol(env['fn'])
    skipped = z3.Or(z3.Select(src_it.fails, i), fn_raises(f, z3.Select(src_it.src.arr, i)))
    # definition of the ghost counting function: positions before i that are neither unreadable nor rejected by fn
    it.assume(z3.ForAll([i], rank_fn(i + 1) == rank_fn(i) + z3.If(skipped, 0, 1)))
    it.ghost['pos0'] = VInt(src_it.pos)

  @R.spec
  def skipped(it, a, k):
    '''the source fails at position i or fn raises on that element'''
    f, src_it, i = it.fn_symbol(a[0]), a[1], it.to_int(a[2])
    bad = fn_raises(f, z3.Select(src_it.src.arr, i))
    return VBool(z3.Or(z3.Select(src_it.fails, i), bad) if src_it.fails is not None else bad)

  @R.spec
  def mapped(it, a, k):
    return VOpaque(opaque_fn(1)(it.fn_symbol(a[0]), it.to_obj(a[1])))

  @R.spec
  def raises_on(it, a, k):
    return VBool(fn_raises(it.fn_symbol(a[0]), it.to_obj(a[1])))

  @R.spec
  def never_fails(it, a, k):
    '''the iterator never raises anything but StopIteration'''
    v = a[0]
    if v.fails is None:
      return VBool(True)
    i = z3.Int(it.path.fresh_name('i'))
    return VBool(z3.ForAll([i], z3.Not(z3.Select(v.fails, i))))

  R.add(Contract(
      f'{ITER}::map_ignore_error', P, types=dict(fn='obj', it='iter[obj]'), ret='iter[obj]', setup=_setup_map, modifies=['it'],
      ensures=['len(result.src) == rank(len(it.src)) - rank(pos0)', 'result.pos == 0', 'never_fails(result)',
               'forall(lambda i: implies(not skipped(fn, it, i), result.src[rank(i) - rank(pos0)] is mapped(fn, it.src[i])), pos0, len(it.src))'],
      bounded='bounded_ignore_error',
      note='fn(x) for exactly the elements x that can be read and on which fn does not raise, in order, each once; nothing after a failing element is lost'))

  # ---- TreeFn._iterate (no re-batching): where the error guard sits ---------------------------------------------------
  TF = 'ml_metrics/_src/chainables/tree_fns.py'
  R.cls('TreeFn', dict(fn_batch_size='int', batch_size='int', ignore_error='bool', _num_inputs='int', _num_outputs='int'))
  G, Cf, N = 'self._get_inputs', 'self._maybe_call_fn', 'self._normalize_outputs'
  VALUE = f'mapped({N}, mapped({Cf}, mapped({G}, input_iterator.src[i])))'

  def _setup_iterate(it, env):
    src_it, slf = env['input_iterator'], env['self']
    src_it.resumable = True
    src_it.err = 'ValueError'
    g, c = (it.fn_symbol(it.getattr_(slf, n)) for n in ('_get_inputs', '_maybe_call_fn'))
    i = z3.Int(it.path.fresh_name('i'))
    x = z3.Select(src_it.src.arr, i)
    skipped = z3.Or(z3.Or(z3.Select(src_it.fails, i), fn_raises(g, x)), fn_raises(c, opaque_fn(1)(g, x)))
    it.assume(z3.ForAll([i], rank_fn(i + 1) == rank_fn(i) + z3.If(skipped, 0, 1)))
    it.ghost['pos0'] = VInt(src_it.pos)

  SKIP = f'(fails(input_iterator, i) or raises_on({G}, input_iterator.src[i]) or raises_on({Cf}, mapped({G}, input_iterator.src[i])))'
  R.add(Contract(
      f'{TF}::TreeFn._iterate', P, variant='skipping', types=dict(self='TreeFn', input_iterator='iter[obj]', ignore_error='const:True'), ret='iter[obj]',
      when=lambda it, a, k: 'ignore_error' in k and z3.is_true(z3.simplify(it.truth(k['ignore_error']))),
      setup=_setup_iterate, requires=['self.fn_batch_size == 0', 'self.batch_size == 0'], modifies=['input_iterator'],
      # with error skipping: the outputs of exactly the records that can be read, selected and computed, in order, each once;
      # a failing record is dropped alone - nothing after it is lost
      ensures=['len(result.src) == rank(len(input_iterator.src)) - rank(pos0)',
               f'forall(lambda i: implies(not {SKIP}, result.src[rank(i) - rank(pos0)] is {VALUE}), pos0, len(input_iterator.src))'],
      bounded='bounded_pipeline_skip'))
  R.add(Contract(
      f'{TF}::TreeFn._iterate', P, variant='not-skipping', types=dict(self='TreeFn', input_iterator='iter[obj]', ignore_error='const:False'), ret='iter[obj]',
      when=lambda it, a, k: not ('ignore_error' in k and z3.is_true(z3.simplify(it.truth(k['ignore_error'])))),
      setup=_setup_iterate, requires=['self.fn_batch_size == 0', 'self.batch_size == 0'], modifies=[],
      # without error skipping: one output per record, aligned; an error at a record surfaces AT that record, it is never swallowed
      ensures=['len(result.src) == len(input_iterator.src)', 'result.pos == input_iterator.pos',
               f'forall(lambda i: result.src[i] is {VALUE}, 0, len(input_iterator.src))',
               f'forall(lambda i: implies({SKIP}, fails(result, i)), 0, len(input_iterator.src))'],
      bounded='bounded_pipeline_skip'))

  # apply (TreeFn.iterate): the record is replaced by the outputs of its own inputs
  def _setup_apply(flag):
    def setup(it, env):
      env['self'].f['ignore_error'] = VBool(flag)
      _setup_iterate(it, env)
    return setup
  OUT = 'self._get_outputs'
  R.add(Contract(
      f'{TF}::TreeFn.iterate', P, variant='skipping', types=dict(self='TreeFn', input_iterator='iter[obj]'), ret='iter[obj]',
      setup=_setup_apply(True), requires=['self.fn_batch_size == 0', 'self.batch_size == 0'], modifies=['input_iterator'],
      ensures=['len(result.src) == rank(len(input_iterator.src)) - rank(pos0)',
               f'forall(lambda i: implies(not {SKIP}, result.src[rank(i) - rank(pos0)] is mapped({OUT}, {VALUE})), pos0, len(input_iterator.src))'],
      bounded='bounded_pipeline_skip', note='apply with error skipping: every record that can be processed yields exactly its own output record, in order'))
  R.add(Contract(
      f'{TF}::TreeFn.iterate', P, variant='not-skipping', types=dict(self='TreeFn', input_iterator='iter[obj]'), ret='iter[obj]',
      setup=_setup_apply(False), requires=['self.fn_batch_size == 0', 'self.batch_size == 0'], modifies=[],
      ensures=['len(result.src) == len(input_iterator.src)',
               f'forall(lambda i: result.src[i] is mapped({OUT}, {VALUE}), 0, len(input_iterator.src))',
               f'forall(lambda i: implies({SKIP}, fails(result, i)), 0, len(input_iterator.src))'],
      bounded='bounded_pipeline_skip'))

  _sp = importlib.util.spec_from_file_location('mux_common', os.path.join(os.path.dirname(__file__), 'mux_common.py'))
  _mux_common = importlib.util.module_from_spec(_sp); _sp.loader.exec_module(_mux_common)
  _mux_common.register(R, [P])          # without error skipping the first error also ends the helper threads
  # ... and it reaches every consumer: the producer-side failure path of the iterator queue (contracts of C04/C05) is
  # re-verified under this property
  _s4 = importlib.util.spec_from_file_location('c04', os.path.join(os.path.dirname(__file__), 'C04.py'))
  _c04 = importlib.util.module_from_spec(_s4); _s4.loader.exec_module(_c04)
  _c04.register(R)
  for p_ in ('C04', 'C05'):
    R.bounded_checks.pop(p_, None)
    R.trusted.pop(p_, None)
  for cs in R.contracts.values():
    for c_ in cs:
      if 'C04' in c_.props and c_.short in ('IteratorQueue.enqueue_from_iterator', 'IteratorQueue._stop_enqueue') and P not in c_.props:
        c_.props.append(P)
        c_.bounded = 'bounded_pipeline_skip'
  # (_RangeIterator.__next__ is registered by the C09 contracts for both properties)

  R.bounded_checks[P] = [
      ('bounded_ignore_error', 'iter_ignore_error / processed_with_inputs on fault maps over <=5 elements'),
      ('bounded_range_iterator_faults', '_RangeIterator with failing elements, sliceable and not, every read-ahead'),
      ('bounded_pipeline_skip', 'apply/assign/filter/sink pipelines with failing elements, error skipping on/off, (re)batching, num_threads 0/1'),
  ]
  R.trusted[P] = ['A6 mapped callables / bound methods (_get_inputs, _maybe_call_fn, _normalize_outputs) are deterministic functions of their argument that may raise; map objects resume after a failure; generators are described by a whole run',
                  'A4 sequential semantics', 'A6 the source iterator is finite; a failing element raises a skippable error (ValueError/TypeError) and the iterator is resumable',
                  'A7 pyvc engine, z3, cvc5']
