"""MultiplexIterator.maybe_stop: shared by C04/C05 (queues) and C12 (the first error ends the helper threads)."""
import z3
from pyvc.contracts import Contract
from pyvc.values import *   # pylint: disable=wildcard-import

ITER = 'ml_metrics/_src/utils/iter_utils.py'


def register(R, props):
  R.cls('MultiplexIteratorS', dict(_iterator='obj', _thread_pool='obj?', _name='str'))

  def _stoppable(it, env):
    prev = it.reg.isinstance_hook
    it.reg.isinstance_hook = lambda itp, v, cname: z3.BoolVal(True) if cname == 'Stoppable' else (prev(itp, v, cname) if prev else None)

  def _idx(it, name):
    return [n for n, e in enumerate(it.events) if e[0] == 'call' and e[1] == name]

  @R.spec
  def called(it, a, k):
    return VBool(bool(_idx(it, a[0].s)))

  @R.spec
  def called_before(it, a, k):
    '''every call of the first method precedes every call of the second one'''
    x, y = _idx(it, a[0].s), _idx(it, a[1].s)
    return VBool(bool(x) and bool(y) and max(x) < min(y))

  R.opaque_methods.setdefault('maybe_stop', lambda it, v, a, k: NONE)      # effects: only their order matters here
  R.opaque_methods.setdefault('shutdown', lambda it, v, a, k: NONE)
  R.add(Contract(
      f'{ITER}::MultiplexIterator.maybe_stop', props, types=dict(self='MultiplexIteratorS'), setup=_stoppable,
      when=lambda it, a, k: False,       # call sites (MultiplexIterator.__next__) keep using the real body
      # the producers are told to stop (which unblocks those waiting for room in a full queue) BEFORE the pool is joined:
      # joining first waits for workers that can only finish once they are stopped
      ensures=["called('maybe_stop')", "implies(self._thread_pool is not None, called_before('maybe_stop', 'shutdown'))"],
      bounded='bounded_queue_threads' if 'C04' in props else 'bounded_pipeline_skip',
      note='a sequentially checkable necessary condition of "helper threads end": stop first, join second'))
