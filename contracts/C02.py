"""C02 - Pipeline aggregation and slicing equal a brute-force group-by.

Under contract: the flat sequence case of `tree.apply_mask` (the step that restricts an aggregate's inputs to
the rows of one slice).  The grouping itself (Slicer row->mask construction, TransformRunner.update_state /
get_result: closures, generators and dicts of states) is decided by exhaustive native stand-ins, reported
as bounded."""
import z3
from pyvc.contracts import Contract
from pyvc.values import *   # pylint: disable=wildcard-import

P = 'C02'
TR = 'ml_metrics/_src/chainables/tree.py'
kept_fn = z3.Function('kept_before', z3.IntSort(), z3.IntSort())   # ghost: number of True masks before position i


def _setup(it, env):
  m = env['masks'].seq
  i = z3.Int(it.path.fresh_name('i'))
  # definition of the ghost counting function (definitional extension)
  it.assume(kept_fn(0) == 0)
  it.assume(z3.ForAll([i], kept_fn(i + 1) == kept_fn(i) + z3.If(z3.Select(m.arr, i), 1, 0)))


def register(R):
  @R.spec
  def kept_before(it, a, k):
    return VInt(kept_fn(it.to_int(a[0])))

  T = dict(items='list[obj]', masks='list[bool]')
  R.add(Contract(
      f'{TR}::apply_mask', P, variant='filter', types=dict(T, replace_false_with="const:'DEFAULT_FILTER'"), ret='list[obj]', setup=_setup,
      raises={'ValueError': 'len(items) != len(masks)'},
      # exactly the elements whose mask is True, in order, each once
      ensures=['len(result) == kept_before(len(items))',
               'forall(lambda i: implies(masks[i], result[kept_before(i)] is items[i]), 0, len(items))'],
      loops={0: dict(invariant=[
          'len(result) == kept_before(idx_elem)', 'idx_elem >= 0',
          'forall(lambda i: kept_before(i) + ite(masks[i], 1, 0) <= kept_before(idx_elem) and 0 <= kept_before(i), 0, idx_elem)',
          'forall(lambda i: implies(masks[i], result[kept_before(i)] is items[i]), 0, idx_elem)'])},
      bounded='bounded_masks', witness=dict(masks='masks', n_items='len(items)'), replay='replay_apply_mask',
      note='filter mode: the masked sequence is exactly the sub-sequence of the rows of the slice (no row invented, dropped, duplicated or reordered)'))
  R.add(Contract(
      f'{TR}::apply_mask', P, variant='replace', types=dict(T, replace_false_with='int'), ret='list[obj]',
      raises={'ValueError': 'len(items) != len(masks)'},
      # same length; rows of the slice kept, every other row replaced
      ensures=['len(result) == len(items)',
               'forall(lambda i: implies(masks[i], result[i] is items[i]), 0, len(items))',
               'forall(lambda i: implies(not masks[i], result[i] == replace_false_with), 0, len(items))'],
      loops={0: dict(invariant=[
          'len(result) == idx_elem', 'idx_elem >= 0',
          'forall(lambda i: implies(masks[i], result[i] is items[i]), 0, idx_elem)',
          'forall(lambda i: implies(not masks[i], result[i] == replace_false_with), 0, idx_elem)'])},
      bounded='bounded_masks', witness=dict(masks='masks', n_items='len(items)', replace='replace_false_with'), replay='replay_apply_mask',
      note='replace mode: positions are preserved, rows outside the slice hold the replacement value'))

  # ---- per-slice aggregation states -----------------------------------------------------------------------------------
  TF = 'ml_metrics/_src/chainables/tree_fns.py'
  TM = 'ml_metrics/_src/chainables/transform.py'
  R.value_classes['MetricKey'] = ['metrics', 'slice']
  R.value_classes['SliceKey'] = ['features', 'values']
  R.cls('MetricKey', dict(metrics='obj', slice='obj'), frozen=True)
  R.cls('SliceKey', dict(features='obj', values='obj'), frozen=True)
  # an aggregate operator, abstractly: which aggregate (fn_id), the masks and replacement it applies to its inputs
  R.cls('TreeAggregateFn', dict(fn_id='obj', masks='tuple[obj]', replace_mask_false_with='obj', disable_slicing='bool'), frozen=True)
  R.cls('Slicer', dict(replace_mask_false_with='obj', sid='obj'), frozen=True)
  R.cls('TransformRunner', dict(name='obj'), frozen=True)
  upd = z3.Function('agg_update', Obj, Obj, Obj, Obj, Obj, Obj)     # (aggregate, mask, replacement, state, inputs) -> state
  init = z3.Function('agg_init', Obj, Obj)
  from pyvc.interp import pair_fst, pair_snd

  @R.spec
  def updated(it, a, k):
    fn, mask, repl, state, inputs = [it.to_obj(x) for x in a]
    return VOpaque(upd(fn, mask, repl, state, inputs))

  @R.spec
  def initial(it, a, k):
    return VOpaque(init(it.to_obj(a[0])))

  @R.spec
  def fst(it, a, k):
    return VOpaque(pair_fst(it.to_obj(a[0])))

  @R.spec
  def snd(it, a, k):
    return VOpaque(pair_snd(it.to_obj(a[0])))

  # ASSUMED (trusted): the wrapped aggregate is a function of (aggregate, mask, replacement, state, inputs); masks of
  # one element; __post_init__ keeps tuple masks; a slicer yields (slice key, (mask,)) pairs with pairwise distinct
  # slice keys, none of them the default (unsliced) SliceKey().
  R.add(Contract(f'{TF}::TreeAggregateFn.update_state', 'trusted', types=dict(self='TreeAggregateFn', state='obj', inputs='obj'), ret='obj',
                 may_raise=['ValueError'],
                 ensures=['result is updated(self.fn_id, self.masks[0], self.replace_mask_false_with, state, inputs)']))
  R.add(Contract(f'{TF}::TreeAggregateFn.create_state', 'trusted', types=dict(self='TreeAggregateFn'), ret='obj',
                 ensures=['result is initial(self.fn_id)']))
  R.add(Contract(f'{TF}::TreeAggregateFn.__post_init__', 'trusted', types=dict(self='TreeAggregateFn')))

  def _slices_post(it, env2, old):
    res = env2['result']
    i, j = z3.Int(it.path.fresh_name('i')), z3.Int(it.path.fresh_name('j'))
    key = lambda t: pair_fst(z3.Select(res.arr, t))
    default = it.to_obj(it.spec_val('SliceKey()', {'__module__': it.world.module(TF)}))
    it.assume(z3.ForAll([i, j], z3.Implies(z3.And(0 <= i, i < j, j < res.n), key(i) != key(j))))
    it.assume(z3.ForAll([i], z3.Implies(z3.And(0 <= i, i < res.n), key(i) != default)))
    return res

  R.add(Contract(f'{TF}::Slicer.iterate_and_slice', 'trusted', types=dict(self='Slicer', inputs='obj'), ret='seq[obj]', post_hook=_slices_post))

  R.add(Contract(
      f'{TF}::TreeFn.with_masks', P, types=dict(self='TreeAggregateFn', masks='tuple[obj]', replace_mask_false_with='obj'), ret='TreeAggregateFn',
      ensures=['result.masks[0] is masks[0]', 'result.replace_mask_false_with is replace_mask_false_with',
               'result.fn_id is self.fn_id', 'result.disable_slicing == self.disable_slicing', 'result is not self'],
      bounded='bounded_groupby',
      note='the operator for a slice applies exactly the masks and the replacement value of THAT slice (nothing is inherited from the previous one)'))

  def _runner_setup(it, env):
    fn = it.fresh('TreeAggregateFn', 'agg')
    slicer = it.fresh('Slicer', 'slicer')
    env['self'].f['agg_fns'] = VDict({'k': fn})
    env['self'].f['slicers'] = VList([slicer])
    it.ghost['fn0'], it.ghost['slicer0'] = fn, slicer

  SLICES = "last_result('Slicer.iterate_and_slice')"
  def sliced(upto):
    """the clauses describing the state after the first `upto` slices of the batch"""
    return [
        # the unsliced aggregate saw the whole batch, through the operator as configured (never a slice mask)
        "MetricKey('k') in state",
        "state[MetricKey('k')] is updated(fn0.fn_id, fn0.masks[0], fn0.replace_mask_false_with, old(state[MetricKey('k')]), inputs)",
        # every slice key emitted for this batch has a state: the previous one (or a fresh one) updated with the batch
        # restricted by exactly that slice's mask and the slicer's replacement value
        f"forall(lambda t: MetricKey('k', fst({SLICES}[t])) in state and state[MetricKey('k', fst({SLICES}[t]))] is updated("
        f"fn0.fn_id, snd({SLICES}[t])[0], slicer0.replace_mask_false_with, "
        f"ite(MetricKey('k', fst({SLICES}[t])) in old(state), old(state)[MetricKey('k', fst({SLICES}[t]))], initial(fn0.fn_id)), inputs), 0, {upto})",
        # no other key is created, dropped or changed
        f"forall(lambda x: implies(x is not MetricKey('k') and forall(lambda t: x is not MetricKey('k', fst({SLICES}[t])), 0, {upto}),"
        " (x in state) == (x in old(state)) and state[x] is old(state)[x]), 'obj')",
    ]

  R.add(Contract(
      f'{TM}::TransformRunner.update_state', P, variant='one-aggregate-one-slicer',
      types=dict(self='TransformRunner', state='map[obj,obj]', inputs='obj'), ret='map[obj,obj]', setup=_runner_setup,
      requires=["MetricKey('k') in state", 'not fn0.disable_slicing'], modifies=['state'],
      # it fails only when the wrapped aggregate does (ValueError); the keys it reads exist by construction
      may_raise=['ValueError'],
      ensures=['result is state'] + sliced(f'len({SLICES})'),
      loops={2: dict(invariant=['tree_agg_fn.fn_id is fn0.fn_id', 'idx_slice_key >= 0'] + sliced('idx_slice_key'),
                     retype={'tree_agg_fn': 'TreeAggregateFn'})},
      bounded='bounded_groupby',
      note='one batch: the unsliced state is updated with the unmasked batch; each emitted slice key gets exactly its own masked update '
           '(created on first appearance); no key is invented, dropped or touched otherwise'))

  R.bounded_checks[P] = [
      ('bounded_groupby', 'aggregates {Sum, SumCount(2 outputs), stacked} x slicer sets {none, single, cross, fan-out fn, restricted values, late-appearing slice, replace-mode} x streams of <=3 batches (incl. empty stream) vs a brute-force group-by'),
      ('bounded_sharded_merge', 'shard states merged = whole run (also per slice); strict state count errors'),
      ('bounded_masks', 'apply_mask filter/replace over nested dict/list masks vs a reference; intra-example masks through an aggregate'),
  ]
  R.trusted[P] = ['bounded: small-scope hypothesis', 'oracle: brute-force group-by in plain Python',
                  'apply_mask contract: flat list items with a flat list of Boolean masks (nested masks, numpy masks and dict masks: bounded only)']
