"""C02 - Pipeline aggregation and slicing equal a brute-force group-by (bounded stand-ins; contracts to be added)."""
P = 'C02'


def register(R):
  R.bounded_checks[P] = [
      ('bounded_groupby', 'empty stream and 1/3/6 rows in every split into <=3 batches x every set of <=2 slicers (single feature, cross, fan-out, within-values) x one/two stacked/unsliced-first aggregates vs brute-force group-by: no key invented or dropped, values equal, unsliced result independent of the slicers'),
      ('bounded_sharded_merge', 'shard states merged = whole run (also per slice); strict state count errors'),
      ('bounded_masks', 'tree.apply_mask on all boolean masks (flat, nested with empty inner lists, dict), filter and replace mode; intra-example slice masks through the pipeline'),
  ]
  R.trusted[P] = ['bounded: small-scope hypothesis (<=6 rows, <=3 batches, <=2 slicers)', 'brute-force group-by oracle in plain Python']
