"""C19 - Re-batching conserves rows, order and column alignment (contracts are added in C19_contracts below)."""
P = 'C19'


def register(R):
  R.bounded_checks[P] = [
      ('bounded_rebatch', 'rebatched_args: all input size sequences (<=4 batches of 0..4 rows), targets 1..5, 1-2 columns, list/tuple/array/2-D array, padding, given/inferred column count'),
      ('bounded_treefn_rebatch', 'TreeFn fn_batch_size/batch_size on streams incl. empty ones'),
  ]
  R.trusted[P] = ['bounded: small-scope hypothesis on the number and sizes of input batches']
