"""C19 - Re-batching conserves rows, order and column alignment.

rebatched_args is verified for a fixed number of columns (variants k=1, k=2) and everything else
symbolic: any number of input batches of any sizes, any target size. Row provenance: column c of the
input stream is a global row sequence row(c, g); input batch t holds rows [S(c,t), S(c,t+1)). The
postcondition says that emitted batch b holds exactly rows [b*B, b*B + len) of every column."""
import z3
from pyvc.contracts import Contract
from pyvc.values import *   # pylint: disable=wildcard-import
from pyvc.interp import pair_fst, pair_snd

ITER = 'ml_metrics/_src/utils/iter_utils.py'
P = 'C19'

chunk_fn = [z3.Function(f'chunk{c}', z3.IntSort(), Obj) for c in range(2)]
S_fn = [z3.Function(f'S{c}', z3.IntSort(), z3.IntSort()) for c in range(2)]
row_fn = [z3.Function(f'row{c}', z3.IntSort(), Obj) for c in range(2)]


def _stream(k):
  def setup(it, env):
    src = env['tuples']
    src.fails = None
    src.ret = None
    for c in range(k):
      it.assume(S_fn[c](0) == 0)

    def wrap(p):
      cols = []
      for c in range(k):
        ch = chunk_fn[c](p)
        j = z3.Int(it.path.fresh_name('j'))
        # definition of the row provenance of input batch p (column c)
        it.assume(len_of(ch) >= 0)
        it.assume(S_fn[c](p + 1) == S_fn[c](p) + len_of(ch))
        it.assume(z3.ForAll([j], z3.Implies(z3.And(0 <= j, j < len_of(ch)), item_of(ch, j) == row_fn[c](S_fn[c](p) + j))))
        cols.append(VOpaque(ch))
      return VTuple(cols)
    src.wrap_fn = wrap
  return setup


def register(R):
  R.hasattr_hook = lambda it, v, name: False          # chunks are plain sized sequences (lists/tuples), not arrays

  @R.spec
  def S(it, a, k):
    c = z3.simplify(it.to_int(a[0])).as_long()
    return VInt(S_fn[c](it.to_int(a[1])))

  @R.spec
  def row(it, a, k):
    c = z3.simplify(it.to_int(a[0])).as_long()
    return VOpaque(row_fn[c](it.to_int(a[1])))

  @R.spec
  def item(it, a, k):
    return VOpaque(item_of(it.to_obj(a[0]), it.to_int(a[1])))

  @R.spec
  def colof(it, a, k):          # column c of an emitted batch (a tuple stored in the ghost log)
    x = it.to_obj(a[0])
    c = z3.simplify(it.to_int(a[1])).as_long()
    ncols = z3.simplify(it.to_int(a[2])).as_long()
    for _ in range(c):
      x = pair_snd(x)
    if ncols == 2 and c == 1:
      return VOpaque(x)
    return VOpaque(pair_fst(x))

  @R.spec
  def catof(it, a, k):          # ghost concatenation of a buffer of chunks
    b = a[0]
    if isinstance(b, VList):
      cat = it.empty_cat()
      for x in b.items:
        cat = it.cat_append(cat, x)
      return cat
    return b.cat

  @R.spec
  def sliceof(it, a, k):
    from pyvc.builtins_ import _SLICE_OF
    return VOpaque(_SLICE_OF(it.to_obj(a[0]), it.to_int(a[1]), it.to_int(a[2])))

  # library-backed helpers: assumed contracts (A2/A3), not proved
  def _concat_result(it, env2, old):
    data = env2['data']
    if getattr(data, 'cat', None) is not None:
      return data.cat
    if isinstance(data, VList):
      cat = it.empty_cat()
      for x in data.items:
        cat = it.cat_append(cat, x)
      return cat
    return None
  R.add(Contract(f'{ITER}::_concat', 'trusted', types=dict(data='list[obj]'), ret='sized', post_hook=_concat_result,
                 note='ASSUMED: concatenation of the buffered chunks in order (np.concatenate / mit.flatten)'))
  R.add(Contract(f'{ITER}::_pad', 'trusted', types=dict(data='sized', pad='obj', batch_size='int'), ret='sized',
                 ensures=['len(result) == batch_size',
                          'forall(lambda j: item(result, j) is item(data, j), 0, len(data))',
                          'forall(lambda j: item(result, j) is pad, len(data), batch_size)'],
                 note='ASSUMED: np.pad / mit.padded append `pad` up to batch_size'))

  # the list branch of _pad, proved against the library contract of more_itertools.padded (A2); the assumed contract above
  # is what rebatched_args uses for every container kind (numpy arrays stay assumed: np.pad)
  R.add(Contract(f'{ITER}::_pad', P, variant='list', types=dict(data='list[obj]', pad='obj', batch_size='int'), ret='list[obj]',
                 when=lambda it, a, k: False, requires=['len(data) <= batch_size'],
                 ensures=['len(result) == batch_size',
                          'forall(lambda j: result[j] is data[j], 0, len(data))',
                          'forall(lambda j: result[j] is pad, len(data), batch_size)', 'result is not data'],
                 bounded='bounded_rebatch', note='a new list: the rows, then the pad value up to the batch size'))

  for k, padded in ((2, False), (1, False), (2, True), (1, True)):
    cols = range(k)
    both = lambda tmpl: [tmpl.format(c=c, k=k) for c in cols]
    # an emitted batch is full, except the final one of an exhausted stream (which is padded to full size when padding)
    if padded:
      OUT_FULL = both('forall(lambda b: len(colof(out[b], {c}, {k})) == batch_size, 0, len(out))')
      REAL = 'ite(exhausted, S({c}, tuples.pos), len(out) * batch_size)'
      OUT_ROWS = both('forall(lambda b, j: implies(0 <= b and b < len(out) and 0 <= j and j < batch_size and b * batch_size + j < ' + REAL + ','
                      ' item(colof(out[b], {c}, {k}), j) is row({c}, b * batch_size + j)))') + \
                 both('forall(lambda b, j: implies(0 <= b and b < len(out) and 0 <= j and j < batch_size and b * batch_size + j >= ' + REAL + ','
                      ' item(colof(out[b], {c}, {k}), j) is pad))')
      DONE = both('implies(exhausted, (len(out) - 1) * batch_size < S({c}, tuples.pos) or (len(out) == 0 and S({c}, tuples.pos) == 0))') + \
             both('implies(exhausted, S({c}, tuples.pos) <= len(out) * batch_size)')
    else:
      OUT_FULL = both('forall(lambda b: len(colof(out[b], {c}, {k})) == batch_size or (exhausted and b == len(out) - 1 and'
                      ' 0 < len(colof(out[b], {c}, {k})) and len(colof(out[b], {c}, {k})) <= batch_size), 0, len(out))')
      OUT_ROWS = both('forall(lambda b, j: implies(0 <= b and b < len(out) and 0 <= j and j < len(colof(out[b], {c}, {k})),'
                      ' item(colof(out[b], {c}, {k}), j) is row({c}, b * batch_size + j)))')
      DONE = both('implies(exhausted, ite(len(out) == 0, 0, (len(out) - 1) * batch_size + len(colof(out[len(out) - 1], {c}, {k})))'
                  ' == S({c}, tuples.pos))')
    ALIGN = ['forall(lambda b: len(colof(out[b], 0, 2)) == len(colof(out[b], 1, 2)), 0, len(out))'] if k == 2 else []
    OUTER = (['last_columns is None', '0 <= tuples.pos and tuples.pos <= len(tuples.src)', 'batch_size >= 1',
              '0 <= batch_sizes[0] and batch_sizes[0] < batch_size',
              'implies(exhausted, batch_sizes[0] == 0 and tuples.pos == len(tuples.src))']
             + (['batch_sizes[0] == batch_sizes[1]'] if k == 2 else [])
             + both('len(catof(column_buffer[{c}])) == batch_sizes[{c}]')
             # rows consumed = rows emitted + rows buffered
             + both('implies(not exhausted, len(out) * batch_size + batch_sizes[{c}] == S({c}, tuples.pos))')
             + both('forall(lambda j: item(catof(column_buffer[{c}]), j) is row({c}, len(out) * batch_size + j), 0, batch_sizes[{c}])')
             + OUT_FULL + OUT_ROWS + ALIGN + DONE)
    INNER_ROWS = [c_.replace('exhausted', 'False') for c_ in OUT_ROWS]
    INNER = (['batch_size >= 1', 'batch_sizes[0] >= 1', '(idx_columns == 0) == (last_columns is None)', 'idx_columns >= 0',
              '0 <= tuples.pos and tuples.pos <= len(tuples.src)',
              'implies(exhausted, tuples.pos == len(tuples.src))']
             + (['batch_sizes[0] == batch_sizes[1]'] if k == 2 else [])
             + both('len(concated[{c}]) == batch_sizes[{c}]')
             + both('(len(out) - ite(idx_columns >= 1, idx_columns - 1, 0)) * batch_size + batch_sizes[{c}] == S({c}, tuples.pos)')
             + both('forall(lambda j: item(concated[{c}], j) is row({c}, (len(out) - ite(idx_columns >= 1, idx_columns - 1, 0)) * batch_size + j),'
                    ' 0, batch_sizes[{c}])')
             + both('implies(idx_columns >= 1, len(last_columns[{c}]) == ite(batch_sizes[{c}] - (idx_columns - 1) * batch_size < batch_size,'
                    ' batch_sizes[{c}] - (idx_columns - 1) * batch_size, batch_size) and len(last_columns[{c}]) >= 1)')
             + both('implies(idx_columns >= 1, forall(lambda j: item(last_columns[{c}], j) is item(concated[{c}], (idx_columns - 1) * batch_size + j),'
                    ' 0, len(last_columns[{c}])))')
             + both('forall(lambda b: len(colof(out[b], {c}, {k})) == batch_size, 0, len(out))') + INNER_ROWS + ALIGN)
    retype = {'last_columns': 'tuple[' + ','.join(['sized'] * k) + ']?'}
    final = lambda cs: [c_.replace('exhausted', 'True').replace('tuples.pos', 'len(tuples.src)') for c_ in cs]
    if padded:
      ENS = (['forall(lambda b: len(colof(out[b], 0, %d)) == batch_size, 0, len(out))' % k,
              # conservation: ceil(total / B) batches, an empty stream emits nothing
              '(len(out) - 1) * batch_size < S(0, len(tuples.src)) or (len(out) == 0 and S(0, len(tuples.src)) == 0)',
              'S(0, len(tuples.src)) <= len(out) * batch_size'])
    else:
      ENS = ['forall(lambda b: len(colof(out[b], 0, %d)) == batch_size, 0, len(out) - 1)' % k,
             'implies(len(out) > 0, 0 < len(colof(out[len(out) - 1], 0, %d)) and len(colof(out[len(out) - 1], 0, %d)) <= batch_size)' % (k, k),
             'ite(len(out) == 0, 0, (len(out) - 1) * batch_size + len(colof(out[len(out) - 1], 0, %d))) == S(0, len(tuples.src))' % k]
    R.add(Contract(
        f'{ITER}::rebatched_args', P, variant=f'{k}-column' + ('s' if k > 1 else '') + ('-padded' if padded else ''),
        types=dict(tuples='iter[obj]', batch_size='int', num_columns=f'const:{k}', pad='obj' if padded else 'none'), yields='obj', setup=_stream(k),
        modifies=['tuples'],
        requires=['batch_size >= 1', 'tuples.pos == 0'],
        # no spurious failure: re-batching fails only when the columns of the stream get out of step
        # (a single column never fails)
        raises_ensures=({'ValueError': ['exists(lambda t: S(0, t) != S(1, t), 0, len(tuples.src) + 1)']} if k == 2 else {}),
        # sizes and conservation; alignment (equal column lengths); order: row j of emitted batch b is global row
        # b*B + j of its column (and, when padding, only positions past the last row hold the pad value)
        ensures=ENS + ALIGN + final(OUT_ROWS),
        loops={0: dict(invariant=OUTER, retype=retype, havoc_objs=[]),
               # loop 1 (for i, column in enumerate(batch)) is unrolled: the number of columns is concrete
               2: dict(invariant=INNER, retype=retype)},
        bounded='bounded_rebatch',
        note='chunks are sized sequences without __array__ (lists/tuples); the number of columns is fixed per variant'))

  R.bounded_checks[P] = [
      ('bounded_rebatch', 'rebatched_args: all input size sequences (<=4 batches of 0..4 rows), targets 1..5, 1-2 columns, list/tuple/array/2-D array, padding, given/inferred column count'),
      ('bounded_treefn_rebatch', 'TreeFn fn_batch_size/batch_size on streams incl. empty ones'),
  ]
  R.trusted[P] = ['A2 more_itertools.sliced (slice t = seq[t*n:(t+1)*n], ceil(len/n) slices), zip(strict=True)',
                  'ASSUMED contracts of _concat and _pad (library-backed: np.concatenate / mit.flatten / np.pad / mit.padded)',
                  'A3 numpy int counters as integer vectors', 'the number of columns is fixed per verified variant (1 and 2)', 'A7 pyvc engine, z3, cvc5']
