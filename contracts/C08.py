"""C08 - Pipeline operators route data as a reference interpreter (bounded stand-ins; contracts to be added)."""
P = 'C08'


def register(R):
  R.bounded_checks[P] = [
      ('bounded_operator_chains', 'all chains of <=3 operators from 11 (select/apply/assign/filter/sink; tuple, kwargs, nested-path, SKIP keys), fused and as named stages, vs a reference interpreter; input records untouched; sinks see every record once and are closed once'),
      ('bounded_chain_api', 'TreeTransform.chain: fused (same name) and chained (different names) pairs route like the operator sequence'),
      ('bounded_sink_on_failure', 'an operator fails at each record: the error surfaces and every sink is closed exactly once'),
      ('bounded_filter_skip', 'filter under error skipping: a failing predicate drops only its record, verdicts stay aligned'),
      ('bounded_key_validation', 'invalid key combinations are rejected at build time, valid ones accepted'),
  ]
  R.trusted[P] = ['bounded: chains of <=3 operators over a 3-record stream', 'reference interpreter written from the documented operator semantics']
