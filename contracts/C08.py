"""C08 - Pipeline operators route data as a reference interpreter.

Contracts on the routing core of a TreeFn (`_get_inputs`, `_normalize_outputs`, `_get_outputs`) over the heap
model of nested containers (A9), checked against the C18-proved contracts of TreeMapView (`__getitem__`,
`copy_and_set`); the operator compositions (select / apply / assign / filter / sink chains, fused and named
stages, build-time key validation) are decided by exhaustive native stand-ins, reported as bounded."""
import importlib.util, os
import z3
from pyvc.contracts import Contract
from pyvc.values import *   # pylint: disable=wildcard-import
from pyvc.treeheap import VKeyPath

_s = importlib.util.spec_from_file_location('c18', os.path.join(os.path.dirname(__file__), 'C18.py'))
_c18 = importlib.util.module_from_spec(_s); _s.loader.exec_module(_c18)

P = 'C08'
TF = 'ml_metrics/_src/chainables/tree_fns.py'


def _fn_with(**fields):
  """setup hook: gives the TreeFn under verification key tuples of a fixed arity (the tuples are unrolled)."""
  def setup(it, env):
    for name, ty in fields.items():
      env['self'].f[name] = it.fresh(ty, f'self.{name}')
  return setup


def register(R):
  _c18.register(R)          # TreeMapView contracts + the heap spec functions
  # tree.py is anchored by this property too: its contracts are re-verified by this check (a change of the key
  # dispatch or of the copy-on-write recursion fails here as well as under C18)
  for cs in R.contracts.values():
    for c_ in cs:
      if 'C18' in c_.props and P not in c_.props:
        c_.props.append(P)
  R.bounded_checks.pop('C18', None)
  c18_trusted = R.trusted.pop('C18', [])
  R.cls('TreeFn', dict(input_keys='tuple[]', output_keys='tuple[]', masks='tuple[]', input_argkeys='tuple[]',
                       fn_batch_size='int', batch_size='int', ignore_error='bool'))
  region = {'S0': lambda it, env: it.default_region()}
  RAISES = ['KeyError', 'TypeError', 'ValueError', 'AssertionError', 'IndexError']

  # ---- inputs: the values selected by the input keys, aligned with them, read-only --------------------------
  R.add(Contract(
      f'{TF}::TreeFn._get_inputs', P, variant='three-keys', types=dict(self='TreeFn', inputs='tree'), ret='tuple[tree,tree,tree]',
      setup=_fn_with(input_keys='tuple[keypath,keypath,keypath]'), modifies=[],
      ensures=['result[0] is rd_path(inputs, self.input_keys[0])', 'result[1] is rd_path(inputs, self.input_keys[1])',
               'result[2] is rd_path(inputs, self.input_keys[2])', 'frame_ok()'],
      raises_ensures={e: ['not (rdok_path(inputs, self.input_keys[0]) and rdok_path(inputs, self.input_keys[1]) and rdok_path(inputs, self.input_keys[2]))']
                      for e in ('KeyError', 'IndexError', 'TypeError')},
      bounded='bounded_operator_chains',
      note='the function receives exactly the values under its input keys, in key order; the record is only read'))

  # ---- outputs: assign = copy of the record with exactly the named keys set ---------------------------------------
  OUT_REQ = ['region_ok(S0)', 'in_region(S0, inputs)']
  R.add(Contract(
      f'{TF}::TreeFn._get_outputs', P, variant='one-key', types=dict(self='TreeFn', outputs='tuple[tree]', inputs='tree'), ret='tree',
      setup=_fn_with(output_keys='tuple[keypath]'), ghost={'S0': 'region'}, site_ghost=region, modifies=['theap'],
      requires=OUT_REQ + ['in_region(S0, outputs[0])'],
      # no spurious failure: a one-key path the record accepts is always assigned
      raises_ensures={e: ['len(self.output_keys[0]) > 0 and not is_self_key(head(self.output_keys[0]))',
                          'not old(one_step_ok(inputs, self.output_keys[0]))'] for e in RAISES},
      ensures=['frame_ok()', 'region_ok(grown(S0))', 'in_region(grown(S0), result)',
               'implies(plain_path(self.output_keys[0]), reads_back(grown(S0), result, self.output_keys[0], outputs[0]))',
               'implies(len(self.output_keys[0]) > 0 and plain_path(self.output_keys[0]) and not is_self_key(head(self.output_keys[0])) and t_kind(inputs) != 4,'
               ' is_new(result) and t_kind(result) == t_kind(inputs) and others_shared(result, inputs, head(self.output_keys[0])))'],
      bounded='bounded_operator_chains',
      note='the caller\'s record is untouched at every depth (frame); the new record has the named key and shares every other entry'))
  R.add(Contract(
      f'{TF}::TreeFn._get_outputs', P, variant='two-keys', types=dict(self='TreeFn', outputs='tuple[tree,tree]', inputs='tree'), ret='tree',
      setup=_fn_with(output_keys='tuple[keypath,keypath]'), ghost={'S0': 'region'}, site_ghost=region, modifies=['theap'],
      requires=OUT_REQ + ['in_region(S0, outputs[0])', 'in_region(S0, outputs[1])'], may_raise=RAISES,
      ensures=['frame_ok()', 'region_ok(grown(S0))', 'in_region(grown(S0), result)',
               'implies(plain_path(self.output_keys[1]), reads_back(grown(S0), result, self.output_keys[1], outputs[1]))'],
      bounded='bounded_operator_chains',
      note='outputs are aligned with the output keys (the last key reads back the last output; the first one is below)'))

  # ---- the tee that lets assign / filter / sink see each input next to what was computed from it ------------------
  IU = 'ml_metrics/_src/utils/iter_utils.py'
  R.cls('_TeeIterator', dict(_iterator='iter[obj]', _buffer_size='nat', _buffer='bdeque[obj]', _exhausted='bool', _returned='obj?'))
  @R.spec
  def maxlen_of(it, a, k):        # capacity of a deque, -1 when it is unbounded (maxlen=None)
    ml = getattr(a[0], 'maxlen', None)
    return VInt(ml if ml is not None else z3.IntVal(-1))

  # the recording buffer never discards on its own: it is unbounded, or bounded by exactly the size __next__ checks before appending
  TEE_INV = ['self._buffer_size == 0 or len(self._buffer) <= self._buffer_size',
             'maxlen_of(self._buffer) == (self._buffer_size if self._buffer_size != 0 else -1)']
  R.add(Contract(
      f'{IU}::_TeeIterator.__init__', P, types=dict(self='_TeeIterator', iterator='iter[obj]', buffer_size='nat'),
      modifies=['self._iterator', 'self._buffer_size', 'self._buffer', 'self._exhausted', 'self._returned'],
      ensures=TEE_INV + ['len(self._buffer) == 0', 'self._iterator is iterator', 'self._buffer_size == buffer_size', 'not self._exhausted'],
      bounded='bounded_operator_chains', note='establishes the invariant __next__ and tee rely on'))

  def _tee_setup(it, env):
    src = env['self'].f['_iterator']
    src.fails = None                       # upstream failures are the producer's business (C12); here: a fault-free source
    it.ghost['pos0'] = VInt(src.pos)
    it.ghost['buf0'] = VInt(env['self'].f['_buffer'].seq.n)

  R.add(Contract(
      f'{IU}::_TeeIterator.__next__', P, types=dict(self='_TeeIterator'), ret='obj', setup=_tee_setup, requires=TEE_INV,
      modifies=['self._iterator', 'self._buffer', 'self._exhausted', 'self._returned'],
      ensures=TEE_INV + [
          # the element handed downstream is the next input, and exactly it is recorded, by reference, at the end
          'result is self._iterator.src[pos0]', 'self._iterator.pos == pos0 + 1',
          'len(self._buffer) == buf0 + 1', 'self._buffer[buf0] is result',
          'forall(lambda i: self._buffer[i] is old(self._buffer[i]), 0, buf0)',
          'self._exhausted == old(self._exhausted)'],
      raises_ensures={
          'StopIteration': ['pos0 >= len(self._iterator.src)', 'self._exhausted', 'len(self._buffer) == buf0',
                            # the source's return value is kept for the replaying side
                            'self._returned is self._iterator.ret',
                            'forall(lambda i: self._buffer[i] is old(self._buffer[i]), 0, buf0)'],
          'RuntimeError': ['self._buffer_size > 0 and buf0 == self._buffer_size', 'len(self._buffer) == buf0']},
      bounded='bounded_operator_chains',
      note='every input is recorded exactly once, in order, before it is handed to the operator'))
  R.add(Contract(
      f'{IU}::_TeeIterator.tee', P, types=dict(self='_TeeIterator'), yields='obj', setup=_tee_setup,
      modifies=['self._buffer'],
      loops={0: dict(invariant=['len(out) + len(self._buffer) == buf0', 'len(self._buffer) >= 0',
                                'forall(lambda i: out[i] is old(self._buffer[i]), 0, len(out))',
                                'forall(lambda i: self._buffer[i] is old(self._buffer[i + len(out)]), 0, len(self._buffer))'],
                     decreases='len(self._buffer)')},
      ensures=['self._exhausted', 'len(out) == buf0', 'len(self._buffer) == 0',
               'forall(lambda i: out[i] is old(self._buffer[i]), 0, buf0)'],
      raises_ensures={'IndexError': ['not self._exhausted', 'len(out) == buf0', 'len(self._buffer) == 0',
                                     'forall(lambda i: out[i] is old(self._buffer[i]), 0, buf0)']},
      bounded='bounded_operator_chains',
      note='the recorded inputs are replayed first-in first-out, each once; running dry before the source is exhausted is an error, never a silent stop'))

  # ---- sink: forwards every record once, in order, and is closed exactly once on every exit -----------------------------
  from pyvc.interp import pair_snd
  R.cls('Sink', dict(input_keys='tuple[]', output_keys='tuple[]', masks='tuple[]', input_argkeys='tuple[]',
                     fn_batch_size='int', batch_size='int', ignore_error='bool'))
  R.cls('_CallableSink', dict(_sink='obj'))

  @R.spec
  def snd(it, a, k):
    return VOpaque(pair_snd(it.to_obj(a[0])))

  @R.spec
  def fst(it, a, k):
    from pyvc.interp import pair_fst as _pf
    return VOpaque(_pf(it.to_obj(a[0])))

  # ASSUMED (trusted) contracts: the lazily interleaved tee/zip of processed_with_inputs is outside the engine
  # (generators are verified as whole runs); for a one-output-per-input operator it pairs every remaining input,
  # in order, with what was computed from it, and may fail at any element.
  R.add(Contract(
      f'{IU}::processed_with_inputs', 'trusted',
      types=dict(process_fn='obj', input_iterator='iter[obj]', max_buffer_size='int', ignore_error='bool'), ret='iter[obj]',
      modifies=['input_iterator'],
      ensures=['result.pos == 0', 'len(result.src) == len(old(input_iterator.src)) - old(input_iterator.pos)',
               'forall(lambda j: snd(result.src[j]) is old(input_iterator.src)[old(input_iterator.pos) + j], 0, len(result.src))']))
  R.add(Contract(f'{TF}::Sink._actual_fn', 'trusted', types=dict(self='Sink'), ret='_CallableSink'))
  R.add(Contract(f'{TF}::_CallableSink.close', 'trusted', types=dict(self='_CallableSink')))

  def _sink_setup(it, env):
    it.ghost['pos0'] = VInt(env['input_iterator'].pos)

  R.add(Contract(
      f'{TF}::Sink.iterate', P, types=dict(self='Sink', input_iterator='iter[obj]'), yields='obj', setup=_sink_setup,
      modifies=['input_iterator'], abandon=True,
      ensures=['len(out) == len(input_iterator.src) - pos0',
               'forall(lambda i: out[i] is input_iterator.src[pos0 + i], 0, len(out))'],
      raises_ensures={'ValueError': ['len(out) < len(input_iterator.src) - pos0',
                                     'forall(lambda i: out[i] is input_iterator.src[pos0 + i], 0, len(out))'],
                      # the consumer closed the generator after some element
                      'GeneratorExit': ['len(out) >= 1 and len(out) <= len(input_iterator.src) - pos0',
                                        'forall(lambda i: out[i] is input_iterator.src[pos0 + i], 0, len(out))']},
      always=["ncalls('_CallableSink.close') >= 1"],       # closed at the end; a second (idempotent) close would not break the property
      bounded='bounded_sink_on_failure',
      note='every record is forwarded unchanged, once, in order; the sink is closed whether the stream ends or an '
           'operator fails or the consumer closes the generator after any element (a generator that is merely dropped is finalised by the garbage collector: known finding D22)'))

  # ---- filter / assign / apply: how the operators combine what was computed with the record ----------------------------
  from pyvc.interp import pair_fst
  from pyvc.builtins_ import opaque_fn
  R.cls('FilterFn', dict(input_keys='tuple[]', output_keys='tuple[]', masks='tuple[]', input_argkeys='tuple[]',
                         fn_batch_size='int', batch_size='int', ignore_error='bool'))
  R.cls('Assign', dict(input_keys='tuple[]', output_keys='tuple[]', masks='tuple[]', input_argkeys='tuple[]',
                       fn_batch_size='int', batch_size='int', ignore_error='bool'))
  PAIRS = "last_result('processed_with_inputs')"

  @R.spec
  def verdict(it, a, k):
    '''truthiness of the (single) value the predicate produced for a pair (outputs, input)'''
    return VBool(truthy_of(item_of(pair_fst(it.to_obj(a[0])), 0)))

  @R.spec
  def kept_before(it, a, k):
    return VInt(a[0].kept[0](it.to_int(a[1])))

  @R.spec
  def stop_of(it, a, k):
    return VInt(a[0].kept[4])

  @R.spec
  def fails(it, a, k):
    return VBool(z3.Select(a[0].fails, it.to_int(a[1])))

  @R.spec
  def assigned(it, a, k):
    '''what self._get_outputs(outputs, record) returns (uninterpreted here; its contract is proved above)'''
    f = it.fn_symbol(it.getattr_(a[0], '_get_outputs'))
    return VOpaque(opaque_fn(2)(f, it.to_obj(a[1]), it.to_obj(a[2])))

  R.add(Contract(
      f'{TF}::FilterFn.iterate', P, types=dict(self='FilterFn', input_iterator='iter[obj]'), ret='iter[obj]', setup=_sink_setup,
      modifies=['input_iterator'],
      # keeps exactly the records whose predicate value is true, in order, unchanged (the record itself, not the value)
      # (stop = the first position at which the operator pipeline fails, or the end of the stream)
      ensures=[f'len(result.src) == kept_before(result, stop_of(result)) + ite(stop_of(result) < len({PAIRS}.src), 1, 0)',
               f'forall(lambda j: implies(verdict({PAIRS}.src[j]), result.src[kept_before(result, j)] is input_iterator.src[pos0 + j]), 0, stop_of(result))',
               f'forall(lambda j: kept_before(result, j + 1) == kept_before(result, j) + ite(verdict({PAIRS}.src[j]), 1, 0), 0, stop_of(result))',
               f'forall(lambda j: not fails({PAIRS}, j), 0, stop_of(result))',
               f'implies(stop_of(result) < len({PAIRS}.src), fails({PAIRS}, stop_of(result)) and fails(result, kept_before(result, stop_of(result))))'],
      bounded='bounded_operator_chains', note='over the ASSUMED pairing of processed_with_inputs'))
  R.add(Contract(
      f'{TF}::Assign.iterate', P, types=dict(self='Assign', input_iterator='iter[obj]'), ret='iter[obj]', setup=_sink_setup,
      modifies=['input_iterator'],
      # one output record per input record, aligned: the outputs computed from a record are assigned INTO that record
      ensures=[f'len(result.src) == len({PAIRS}.src)',
               f'forall(lambda j: result.src[j] is assigned(self, fst({PAIRS}.src[j]), input_iterator.src[pos0 + j]), 0, len(result.src))'],
      bounded='bounded_operator_chains', note='over the ASSUMED pairing of processed_with_inputs; _get_outputs is proved above'))

  # ---- build-time key validation ------------------------------------------------------------------------------------
  TM = 'ml_metrics/_src/chainables/transform.py'
  R.cls('TreeTransform', dict(name='obj'))
  from pyvc.treeheap import SELF_KEY

  @R.spec
  def SELF(it, a, k):
    return VOpaque(SELF_KEY)

  def _keys_setup(it, env):
    # keys are opaque hashable objects (strings / Key paths), none of them a dict of keys
    it.reg.isinstance_hook = lambda itp, v, cname: z3.BoolVal(False) if cname in ('dict', 'Mapping') else None

  clash = 'k0 in exisiting_keys or k1 in exisiting_keys'
  mixed = ('(k0 is SELF() or k1 is SELF() or SELF() in exisiting_keys)'
           " and exists(lambda x: x is not SELF() and (x is k0 or x is k1 or x in exisiting_keys), 'obj')")
  R.add(Contract(
      f'{TM}::TreeTransform._check_assign_keys', P, variant='two-keys',
      types=dict(self='TreeTransform', assign_keys='tuple[obj,obj]', exisiting_keys='set[obj]'), setup=_keys_setup,
      ghost=dict(), witness={},
      requires=[],
      # rejected exactly when a new key is already an output key, or SELF would be mixed with any other output key
      raises={'KeyError': f'({clash.replace("k0", "assign_keys[0]").replace("k1", "assign_keys[1]")}) or ({mixed.replace("k0", "assign_keys[0]").replace("k1", "assign_keys[1]")})'},
      bounded='bounded_key_validation',
      note='two plain (non-dict) assign keys against a symbolic set of existing output keys'))

  R.bounded_checks[P] = [
      ('bounded_operator_chains', 'all chains of <=3 operators from 15 (select/apply/assign/filter/sink; tuple, kwargs, nested-path, SKIP keys), fused and as named stages, vs a reference interpreter; input records untouched; sinks see every record once and are closed once'),
      ('bounded_batch_operator', '.batch(k) alone, after select / renamed select / apply, and followed by apply: chunks of k in order, per output key, nothing lost'),
      ('bounded_chain_api', 'TreeTransform.chain: fused (same name) and chained (different names) pairs route like the operator sequence'),
      ('bounded_reserved_names', "columns literally named 'SELF' / 'SKIP' are ordinary columns for select/apply/assign/filter"),
      ('bounded_sink_on_failure', 'an operator fails at each record: the error surfaces and every sink is closed exactly once'),
      ('bounded_filter_skip', 'filter under error skipping: a failing predicate drops only its record, verdicts stay aligned'),
      ('bounded_key_validation', 'invalid key combinations are rejected at build time, valid ones accepted'),
  ]
  R.trusted[P] = [t for t in c18_trusted if t.startswith('A9') or t.startswith('leaves')] + [
      'the TreeMapView contracts used at call sites are proved under C18',
      'ASSUMED contract of iter_utils.processed_with_inputs (lazy tee/zip interleaving of generators is outside the engine; one output per input), of Sink._actual_fn and _CallableSink.close',
      'bounded: chains of <=3 operators over a 3-record stream', 'reference interpreter written from the documented operator semantics']
