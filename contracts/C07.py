"""C07 - Metric values equal their mathematical definitions (formula layer).

The spec table below is written from the textbook definitions over the four
confusion counts, with the documented convention "0 when the denominator is 0"
(sdiv); it does not look at the code. Every rate function of
aggregates/classification.py is executed symbolically for a generic element
(pointwise view, A3) with tp, tn, fp, fn arbitrary naturals."""
import z3
from pyvc.contracts import Contract
from pyvc.values import *   # pylint: disable=wildcard-import

CL = 'ml_metrics/_src/aggregates/classification.py'
MU = 'ml_metrics/_src/utils/math_utils.py'
P = 'C07'

TPR, TNR = 'sdiv(cm.tp, cm.tp + cm.fn)', 'sdiv(cm.tn, cm.tn + cm.fp)'
FPR, FNR = 'sdiv(cm.fp, cm.fp + cm.tn)', 'sdiv(cm.fn, cm.fn + cm.tp)'
PPV, NPV = 'sdiv(cm.tp, cm.tp + cm.fp)', 'sdiv(cm.tn, cm.tn + cm.fn)'
TOTAL = '(cm.tp + cm.tn + cm.fp + cm.fn)'
UNIT = ['0 <= result', 'result <= 1']

# function -> (textbook definition, extra clauses)
SPEC = {
    '_precision': (PPV, UNIT), '_ppv': (PPV, UNIT), '_positive_predictive_value': (PPV, UNIT),
    '_recall': (TPR, UNIT), '_sensitivity': (TPR, UNIT), '_tpr': (TPR, UNIT),
    '_specificity': (TNR, UNIT), '_tnr': (TNR, UNIT),
    '_fall_out': (FPR, UNIT), '_fpr': (FPR, UNIT),
    '_miss_rate': (FNR, UNIT), '_fnr': (FNR, UNIT),
    '_negative_prediction_value': (NPV, UNIT), '_npv': (NPV, UNIT),
    '_false_discovery_rate': ('sdiv(cm.fp, cm.fp + cm.tp)', UNIT),
    '_false_omission_rate': ('sdiv(cm.fn, cm.fn + cm.tn)', UNIT),
    '_threat_score': ('sdiv(cm.tp, cm.tp + cm.fn + cm.fp)', UNIT),
    '_intersection_over_union': ('sdiv(cm.tp, cm.tp + cm.fn + cm.fp)', UNIT),
    '_binary_accuracy': (f'sdiv(cm.tp + cm.tn, {TOTAL})', UNIT),
    '_prevalence': (f'sdiv(cm.tp + cm.fn, {TOTAL})', UNIT),
    # F1 = harmonic mean of precision and recall = 2tp / (2tp + fp + fn)
    '_f1': ('sdiv(2 * cm.tp, 2 * cm.tp + cm.fp + cm.fn)', UNIT),
    '_accuracy': ('ite(cm.tp > 0, 1, 0)', []),
    '_positive_likelihood_ratio': (f'sdiv({TPR}, {FPR})', ['0 <= result']),
    '_negative_likelihood_ratio': (f'sdiv({FNR}, {TNR})', ['0 <= result']),
    '_diagnostic_odds_ratio': (f'sdiv(sdiv({TPR}, {FPR}), sdiv({FNR}, {TNR}))', ['0 <= result']),
    '_informedness': (f'{TPR} + {TNR} - 1', ['-1 <= result', 'result <= 1']),
    '_markedness': (f'{PPV} + {NPV} - 1', ['-1 <= result', 'result <= 1']),
    '_balanced_accuracy': (f'({TPR} + {TNR}) / 2', UNIT),
}

ENUM_TO_FN = {
    'precision': '_precision', 'ppv': '_ppv', 'recall': '_recall', 'f1_score': '_f1', 'accuracy': '_accuracy',
    'binary_accuracy': '_binary_accuracy', 'sensitivity': '_sensitivity', 'tpr': '_tpr', 'specificity': '_specificity',
    'tnr': '_tnr', 'fall_out': '_fall_out', 'fpr': '_fpr', 'miss_rate': '_miss_rate', 'fnr': '_fnr',
    'negative_prediction_value': '_negative_prediction_value', 'nvp': '_npv',
    'false_discovery_rate': '_false_discovery_rate', 'false_omission_rate': '_false_omission_rate',
    'threat_score': '_threat_score', 'positive_likelihood_ratio': '_positive_likelihood_ratio',
    'negative_likelihood_ratio': '_negative_likelihood_ratio', 'diagnostic_odds_ratio': '_diagnostic_odds_ratio',
    'positive_predictive_value': '_positive_predictive_value', 'intersection_over_union': '_intersection_over_union',
    'prevalence': '_prevalence', 'informedness': '_informedness', 'markedness': '_markedness',
    'balanced_accuracy': '_balanced_accuracy',
}


def register(R):
  R.cls('_ConfusionMatrix', dict(tp='nat', tn='nat', fp='nat', fn='nat'))

  @R.spec
  def sdiv(it, a, k):
    x, y = it.to_real(a[0]), it.to_real(a[1])
    return VReal(z3.If(y.t != 0, x.t / y.t, z3.RealVal(0)), z3.Or(x.nan, y.nan))

  @R.spec
  def sqrt(it, a, k):
    from pyvc.numeric import sqrt_fn
    x = it.to_real(a[0])
    return VReal(sqrt_fn(x.t), z3.Or(x.nan, x.t < 0))

  @R.spec
  def isnan(it, a, k):
    return VBool(it.to_real(a[0]).nan)

  @R.spec
  def val(it, a, k):           # payload of a float, meaningful when it is not NaN
    return VReal(it.to_real(a[0]).t, False)

  # math_utils: contracts proved against their bodies (np.divide(where=) etc. by A3), then used modularly
  R.add(Contract(f'{MU}::safe_divide', P, types=dict(a='rreal', b='rreal'), ret='rreal',
                 ensures=['result == sdiv(a, b)'], bounded='bounded_rolling', note='0 when the denominator is 0 (and only then)'))
  R.add(Contract(f'{MU}::pos_sqrt', P, types=dict(value='rreal'), ret='rreal',
                 raises_unless={'ValueError': 'value >= 0'},
                 ensures=['result >= 0', 'result * result == value', 'result == sqrt(value)']))

  cm = dict(cm='_ConfusionMatrix')
  for fn, (spec, extra) in SPEC.items():
    R.add(Contract(f'{CL}::{fn}', P, types=cm, ret='rreal',
                   ensures=[f'result == {spec}'] + list(extra), bounded='bounded_rates',
                   witness=dict(tp='cm.tp', tn='cm.tn', fp='cm.fp', fn='cm.fn'), replay='replay_rate'))
  R.add(Contract(
      f'{CL}::_matthews_correlation_coefficient', P, types=cm, ret='rreal',
      ensures=['result == sdiv(cm.tp * cm.tn - cm.fp * cm.fn,'
               ' sqrt((cm.tp + cm.fp) * (cm.tp + cm.fn) * (cm.tn + cm.fp) * (cm.tn + cm.fn)))'],
      bounded='bounded_rates', witness=dict(tp='cm.tp', tn='cm.tn', fp='cm.fp', fn='cm.fn'), replay='replay_rate',
      note='MCC = (tp*tn - fp*fn) / sqrt((tp+fp)(tp+fn)(tn+fp)(tn+fn)); sqrt is the same uninterpreted function on both sides (A3)'))
  R.add(Contract(
      f'{CL}::_prevalence_threshold', P, types=cm, ret='rreal',
      may_raise=['ValueError'],
      ensures=[f'implies(cm.tn + cm.fp > 0 and {TPR} != {FPR},'
               f' (result * ({TPR} - {FPR}) + {FPR}) * (result * ({TPR} - {FPR}) + {FPR}) == {TPR} * {FPR})',
               # the zero-denominator convention: a chance-level classifier (tpr == fpr) has PT 0, not the limit 1/2
               f'implies(cm.tn + cm.fp > 0 and cm.tp + cm.fn > 0 and {TPR} == {FPR}, result == 0)'],
      bounded='bounded_rates', note='PT = (sqrt(tpr*fpr) - fpr) / (tpr - fpr), stated without the root'))

  # dispatch: every enum member reaches its own function
  for member, fn in ENUM_TO_FN.items():
    spec, _ = SPEC[fn]
    R.add(Contract(
        f'{CL}::_ConfusionMatrix.derive_metric', P, variant=member,
        types=dict(self='_ConfusionMatrix', metric=f'const:{member!r}', average='none'), ret='rreal',
        ensures=['result == ' + spec.replace('cm.', 'self.')], bounded='bounded_rates'))

  # ---- rolling statistics whose value is a closed formula of the accumulated sums --------------------------------
  RS = 'ml_metrics/_src/aggregates/rolling_stats.py'
  TJ = ['sum_y_true', 'sum_y_pred', 'sum_neg_y_true', 'sum_neg_y_pred']
  R.cls('R2Tjur', {f: 'rreal' for f in TJ})
  R.cls('R2TjurRelative', {f: 'rreal' for f in TJ})
  R.cls('SymmetricPredictionDifference', dict(num_samples='nat', sum_half_pointwise_rel_diff='rreal'))
  R.add(Contract(
      f'{RS}::R2Tjur.result', P, types=dict(self='R2Tjur'), ret='real',
      # Tjur's D: mean fitted probability of the positives minus that of the negatives; undefined without both classes
      ensures=['isnan(result) == (self.sum_y_true == 0 or self.sum_neg_y_true == 0)',
               'implies(not isnan(result), val(result) == self.sum_y_pred / self.sum_y_true - self.sum_neg_y_pred / self.sum_neg_y_true)'],
      bounded='bounded_rolling'))
  R.add(Contract(
      f'{RS}::R2TjurRelative.result', P, types=dict(self='R2TjurRelative'), ret='real',
      # ratio of the two means
      ensures=['isnan(result) == (self.sum_y_true == 0 or self.sum_neg_y_pred == 0)',
               'implies(not isnan(result) and self.sum_neg_y_true != 0,'
               ' val(result) * (self.sum_neg_y_pred / self.sum_neg_y_true) == self.sum_y_pred / self.sum_y_true)'],
      bounded='bounded_rolling'))
  R.add(Contract(
      f'{RS}::SymmetricPredictionDifference.result', P, types=dict(self='SymmetricPredictionDifference'), ret='real',
      # mean of 2|x-y|/|x+y|
      ensures=['isnan(result) == (self.num_samples == 0)',
               'implies(self.num_samples > 0, val(result) * self.num_samples == 2 * self.sum_half_pointwise_rel_diff)'],
      bounded='bounded_rolling'))

  # ---- per-row retrieval formulas at a cut-off k (pointwise: T = relevant among the top k, c = #predictions, L = #relevant)
  RT = 'ml_metrics/_src/aggregates/retrieval.py'
  @R.spec
  def at(it, a, k):        # column j of a column-addressed pointwise array
    return VReal(a[0].col(it.to_int(a[1])), False)

  # tp_at_topks[:, j] = relevant among the top j + 1 predictions: the formulas must read column k - 1 (an off-by-one in the
  # cut-off reads another column, which the contract does not relate to T)
  T = 'at(tp_at_topks, k_list - 1)'
  dom = ['k_list >= 1', f'{T} >= 0']
  withc = ['y_pred_count >= 1', f'{T} <= min(k_list, y_pred_count)']
  withl = ['y_true_len >= 1', f'{T} <= y_true_len']
  PREC = f'{T} / min(k_list, y_pred_count)'
  REC = f'{T} / y_true_len'
  A3ARR = dict(tp_at_topks='pcols', k_list='int', y_pred_count='parr', y_true_len='parr')
  wit = dict(T=T, k='k_list', c='y_pred_count', L='y_true_len')
  def rt(fn, params, req, ens):
    R.add(Contract(f'{RT}::{fn}', P, types={p_: A3ARR[p_] for p_ in params}, ret='real', requires=req,
                   ensures=ens, witness={w_: e_ for w_, e_ in wit.items() if e_ in params or w_ == 'T'}, bounded='bounded_retrieval'))
  rt('_accuracy', ['tp_at_topks', 'k_list'], dom, [f'result == ite({T} > 0, 1, 0)'])
  for f_ in ('_precision', '_ppv', '_positive_predictive_value'):
    rt(f_, ['tp_at_topks', 'k_list', 'y_pred_count'], dom + withc, [f'result == {PREC}', '0 <= result and result <= 1'])
  for f_ in ('_recall', '_sensitivity', '_tpr'):
    rt(f_, ['tp_at_topks', 'k_list', 'y_true_len'], dom + withl, [f'result == {REC}', '0 <= result and result <= 1'])
  rt('_miss_rate', ['tp_at_topks', 'k_list', 'y_true_len'], dom + withl, [f'result == 1 - {REC}'])
  rt('_false_discovery_rate', ['tp_at_topks', 'k_list', 'y_pred_count'], dom + withc, [f'result == 1 - {PREC}'])
  # Jaccard: |relevant & retrieved| / |relevant | retrieved|
  rt('_intersection_over_union', ['tp_at_topks', 'k_list', 'y_true_len', 'y_pred_count'], dom + withc + withl,
     [f'result == {T} / (min(k_list, y_pred_count) + y_true_len - {T})', '0 <= result and result <= 1'])
  # tp / (tp + fn + fp) with the top k counted as k predictions (the convention the suite pins)
  rt('_threat_score', ['tp_at_topks', 'k_list', 'y_true_len'], dom + withl + [f'{T} <= k_list'],
     [f'result == {T} / ({T} + (y_true_len - {T}) + (k_list - {T}))'])
  rt('_fowlkes_mallows_index', ['tp_at_topks', 'k_list', 'y_true_len', 'y_pred_count'], dom + withc + withl,
     [f'result == sqrt(({PREC}) * ({REC}))'])
  R.add(Contract(f'{RT}::_f1_score', P, types=dict(precision='rreal', recall='rreal'), ret='rreal',
                 requires=['0 <= precision and precision <= 1', '0 <= recall and recall <= 1'],
                 ensures=['result == sdiv(2 * precision * recall, precision + recall)', '0 <= result and result <= 1'],
                 bounded='bounded_retrieval', note='harmonic mean, 0 when both are 0'))

  R.cls('_ThresholdedConfusionMatrix', dict(thresholds='rreal', tp_trues='rreal', tp_preds='rreal', p_trues='rreal', p_preds='rreal'))
  tcm = dict(self='_ThresholdedConfusionMatrix')
  R.add(Contract(f'{RT}::_ThresholdedConfusionMatrix.precision', P, types=tcm, ret='rreal',
                 ensures=['result == sdiv(self.tp_preds, self.p_preds)'], bounded='bounded_thresholded_retrieval',
                 note='matched predictions / predictions above the threshold; 0 when there is none'))
  R.add(Contract(f'{RT}::_ThresholdedConfusionMatrix.recall', P, types=tcm, ret='rreal',
                 ensures=['result == sdiv(self.tp_trues, self.p_trues)'], bounded='bounded_thresholded_retrieval'))

  # ---- signals: flip masks (pointwise) --------------------------------------------------------------------------------------
  FM = 'ml_metrics/_src/signals/flip_masks.py'
  fm = dict(base_prediction='rreal', model_prediction='rreal', threshold='rreal')
  R.add(Contract(f'{FM}::binary_flip_mask', P, variant='threshold', types=fm, ret='int',
                 ensures=['result == (1 if (base_prediction > threshold) != (model_prediction > threshold) else 0)'], bounded='bounded_signals',
                 note='1 exactly where the two predictions fall on different sides of the threshold'))
  R.add(Contract(f'{FM}::neg_to_pos_flip_mask', P, variant='threshold', types=fm, ret='int',
                 ensures=['result == (1 if base_prediction <= threshold and threshold < model_prediction else 0)'], bounded='bounded_signals'))
  R.add(Contract(f'{FM}::pos_to_neg_flip_mask', P, variant='threshold', types=fm, ret='int',
                 ensures=['result == (1 if base_prediction > threshold and threshold >= model_prediction else 0)'], bounded='bounded_signals'))
  fb = dict(base_prediction='bool', model_prediction='bool', threshold='none')
  R.add(Contract(f'{FM}::binary_flip_mask', P, variant='labels', types=fb, ret='int',
                 ensures=['result == (1 if base_prediction != model_prediction else 0)'], bounded='bounded_signals'))
  R.add(Contract(f'{FM}::neg_to_pos_flip_mask', P, variant='labels', types=fb, ret='bool',
                 ensures=['truthy(result) == ((not base_prediction) and model_prediction)'], bounded='bounded_signals'))
  R.add(Contract(f'{FM}::pos_to_neg_flip_mask', P, variant='labels', types=fb, ret='bool',
                 ensures=['truthy(result) == (base_prediction and not model_prediction)'], bounded='bounded_signals'))

  R.bounded_checks[P] = [
      ('bounded_rates', 'every ConfusionMatrixMetric vs independent re-implementation over all counts <= 4 (5 thorough)'),
      ('bounded_classification_api', 'ClassificationAggFn / one-shot functions vs brute force from raw examples (input types x averages)'),
      ('bounded_topk_classification', 'top-k confusion-matrix metrics for k-lists with gaps vs predictions cut at k'),
      ('bounded_thresholded_retrieval', 'ThresholdedRetrieval per-threshold precision/recall/f1 vs counting, negative sentinels, batches, merge'),
      ('bounded_retrieval', 'TopKRetrieval metrics vs per-row textbook definitions on ragged rankings'),
      ('bounded_one_shot_api', 'every one-shot function of metrics/classification.py and metrics/retrieval.py = the accumulator metric of the same name; documented aliases agree'),
      ('bounded_signals', 'signals/: flip masks, binary / categorical cross entropy, top-k accuracy vs definitions on small arrays'),
      ('bounded_histograms', 'Histogram (equal bins, explicit edges, weights), CalibrationHistogram, Counter vs bucket counting from the raw values'),
      ('bounded_text_frequency', 'PatternFrequency (literal patterns incl. regex metacharacters, overlapping matches) and TopKWordNGrams vs definitions from the raw texts'),
      ('bounded_rolling', 'rolling statistics vs numpy on the whole data, NaN patterns'),
  ]
  R.trusted[P] = ['A1 floats are reals with a non-finite flag', 'A3 pointwise view of numpy elementwise code; np.divide(where=), np.sqrt axioms',
                  'A7 pyvc engine, z3, cvc5', 'argmax/argsort/regex/interp based metrics only bounded']
