"""Shared class schemas and spec functions for chainables/io.py (C09, C10)."""
import z3
from pyvc.values import *   # pylint: disable=wildcard-import

IO = 'ml_metrics/_src/chainables/io.py'
ITER = 'ml_metrics/_src/utils/iter_utils.py'


def register(R):
  # Ghost fields g_start/g_end/g_ok: the interval a state denotes relative to the
  # root source of length root_len, and whether every level of the chain is a
  # valid shard request. They are *defined* by unfolding one level (definitional
  # extension: fresh ghost integers, so the assumption can never be vacuous).
  R.cls('ShardConfig', dict(shard_index='int', num_shards='int', start_index='int', parent='ShardConfig?',
                            g_start='int', g_end='int', g_ok='bool'),
        frozen=True, lazy=('parent', 'g_start', 'g_end', 'g_ok'), ghost=('g_start', 'g_end', 'g_ok'), on_new=_unfold_state,
        on_field=lambda it, obj, f: _unfold_state(it, obj) if f == 'parent' else None)
  # `data` is abstracted to a sized opaque object (its own behaviour is verified
  # separately on MergedSequences); its class is MergedSequences (established by
  # __post_init__, which is executed symbolically whenever a source is built).
  R.cls('SequenceDataSource', dict(data='sized', ignore_error='bool', _shard_state='ShardConfig',
                                   _start='int', _end='int?'), frozen=True)
  R.cls('ShardedIterable', dict(data='obj', _shard_state='ShardConfig'), frozen=True)
  R.ghost_factories['root_len'] = root_len
  R.opaque_iter = _opaque_iter
  R.hasattr_hook = lambda it, v, name: True
  R.isinstance_hook = _isinstance

  @R.spec
  def src_start(it, a, k):          # spec view of a source: its half-open interval
    return it.getfield(a[0], '_start')

  @R.spec
  def src_end(it, a, k):
    s = a[0]
    e = it.getfield(s, '_end')
    n = VInt(len_of(it.getfield(s, 'data').t))
    if isinstance(e, VNoneT):
      return n
    return it.ite(e.isnone, n, e.val) if isinstance(e, VOpt) else e

  # Partition arithmetic, written from the definition of an even split of the
  # interval [s, e) into k contiguous parts (independent of the code):
  #   q = (e - s) div k, r = (e - s) mod k, part i starts at s + i*q + min(i, r)
  #   and has q + [i < r] elements.
  @R.spec
  def part_start(it, a, k):
    s, e, i, n = (it.to_int(x) for x in a)
    q, r = (e - s) / n, (e - s) % n
    return VInt(s + i * q + z3.If(i < r, i, r))

  @R.spec
  def part_len(it, a, k):
    s, e, i, n = (it.to_int(x) for x in a)
    q, r = (e - s) / n, (e - s) % n
    return VInt(q + z3.If(i < r, 1, 0))


def _opaque_iter(it, v):
  """iter() of user data / of a slice of it: reads its items in order (fault-free here)."""
  j = z3.Int(it.path.fresh_name('j'))
  src = VSeq(z3.Lambda([j], item_of(v.t, j)), len_of(v.t), 'obj')
  return VIter(src, z3.IntVal(0), None, True, None, tag='iter(data)')


def root_len(it):
  if 'root_len' not in it.ghost:
    n = it.fresh_int('root_len')
    it.assume(n >= 0)
    it.ghost['root_len'] = VInt(n)
  return it.ghost['root_len'].t


def _unfold_state(it, st):
  """g(st) = even-split part (shard_index of num_shards) of g(parent) (or of the
  whole root [0, root_len) when there is no parent), shifted by start_index."""
  if st.f.get('__unfolded__'):
    return
  st.f['__unfolded__'] = True
  N = root_len(it)
  par = it.getfield(st, 'parent')
  idx, n, off = (it.to_int(it.getfield(st, k)) for k in ('shard_index', 'num_shards', 'start_index'))
  gs, ge, ok = it.getfield(st, 'g_start').t, it.getfield(st, 'g_end').t, it.getfield(st, 'g_ok').t
  if isinstance(par, VNoneT):
    isnone, pv = z3.BoolVal(True), None
  elif isinstance(par, VOpt):
    isnone, pv = par.isnone, par.val
  else:
    isnone, pv = z3.BoolVal(False), par
  if pv is not None:
    ps, pe, pok = it.getfield(pv, 'g_start').t, it.getfield(pv, 'g_end').t, it.getfield(pv, 'g_ok').t
  else:
    ps, pe, pok = z3.IntVal(0), N, z3.BoolVal(True)
  s = z3.If(isnone, z3.IntVal(0), ps)
  e = z3.If(isnone, N, pe)
  q, r = (e - s) / n, (e - s) % n
  start = s + idx * q + z3.If(idx < r, idx, r)
  ln = q + z3.If(idx < r, 1, 0)
  here_ok = z3.And(0 <= idx, idx < n)
  it.assume(z3.Implies(n >= 1, z3.And(gs == start + off, ge == start + ln)))
  it.assume(ok == z3.And(here_ok, z3.Or(isnone, pok)))


def _isinstance(it, v, cname):
  if isinstance(v, VOpaque):
    if cname == 'MergedSequences':
      return z3.BoolVal(True)
    if cname in ('Iterable',):
      return z3.BoolVal(True)
    if cname in ('Iterator',):
      return z3.BoolVal(False)
  return None
