"""Shared class schemas and spec functions for chainables/io.py (C09, C10)."""
import z3
from pyvc.values import *   # pylint: disable=wildcard-import

IO = 'ml_metrics/_src/chainables/io.py'
ITER = 'ml_metrics/_src/utils/iter_utils.py'


def register(R):
  R.cls('ShardConfig', dict(shard_index='int', num_shards='int', start_index='int', parent='ShardConfig?'),
        frozen=True, lazy=('parent',))
  # `data` is abstracted to a sized opaque object (its own behaviour is verified
  # separately on MergedSequences); its class is MergedSequences (established by
  # __post_init__, which is executed symbolically whenever a source is built).
  R.cls('SequenceDataSource', dict(data='sized', ignore_error='bool', _shard_state='ShardConfig',
                                   _start='int', _end='int?'), frozen=True)
  R.cls('ShardedIterable', dict(data='obj', _shard_state='ShardConfig'), frozen=True)
  R.hasattr_hook = lambda it, v, name: True
  R.isinstance_hook = _isinstance

  @R.spec
  def src_start(it, a, k):          # spec view of a source: its half-open interval
    return it.getfield(a[0], '_start')

  @R.spec
  def src_end(it, a, k):
    s = a[0]
    e = it.getfield(s, '_end')
    n = VInt(len_of(it.getfield(s, 'data').t))
    return it.ite(e.isnone, n, e.val) if isinstance(e, VOpt) else e

  # Partition arithmetic, written from the definition of an even split of the
  # interval [s, e) into k contiguous parts (independent of the code):
  #   q = (e - s) div k, r = (e - s) mod k, part i starts at s + i*q + min(i, r)
  #   and has q + [i < r] elements.
  @R.spec
  def part_start(it, a, k):
    s, e, i, n = (it.to_int(x) for x in a)
    q, r = (e - s) / n, (e - s) % n
    return VInt(s + i * q + z3.If(i < r, i, r))

  @R.spec
  def part_len(it, a, k):
    s, e, i, n = (it.to_int(x) for x in a)
    q, r = (e - s) / n, (e - s) % n
    return VInt(q + z3.If(i < r, 1, 0))


def _isinstance(it, v, cname):
  if isinstance(v, VOpaque):
    if cname == 'MergedSequences':
      return z3.BoolVal(True)
    if cname in ('Iterable',):
      return z3.BoolVal(True)
    if cname in ('Iterator',):
      return z3.BoolVal(False)
  return None
