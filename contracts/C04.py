"""C04 / C05 - IteratorQueue: sequential per-operation contracts (FIFO, nothing lost or duplicated,
terminal signal, error/stop paths). Interleavings, deadlock freedom and liveness are NOT decided here."""
import z3
from pyvc.contracts import Contract
from pyvc.values import *   # pylint: disable=wildcard-import

ITER = 'ml_metrics/_src/utils/iter_utils.py'
PROPS = ['C04', 'C05']

# monitor invariant of _states_lock
INV = ['0 <= self._enqueue_stop', 'self._enqueue_stop <= self._enqueue_start', 'self._enqueue_start <= self._max_enqueuer',
       # the recorded producer failure is never an end-of-stream signal
       'self._exception is None or not is_stop(self._exception)']


def _hold(*locks):
  def setup(it, env):
    q = env['self']
    for l in locks:
      q.f[l].held = 1
      it.__dict__.setdefault('held_locks', []).append(q.f[l])
  return setup


def register(R):
  # lock hierarchy of IteratorQueue: the two conditions are never nested in each other and never acquired under the state lock
  # (that is what _release_and_notify is for); the state lock may be taken while one condition is held
  R.lock_ranks.update({'_enqueue_lock': 0, '_dequeue_lock': 0, '_states_lock': 1})
  R.cls('Progress', dict(cnt='int'))
  R.cls('IteratorQueue', dict(
      _queue='queue[obj]', _max_batch_size='int', name='str', timeout='obj?', _dequeue_lock='cond', _enqueue_lock='cond',
      _states_lock='rlock', _progress='Progress', _returned='list[obj]', _exception='exc?', _exhausted='bool',
      _max_enqueuer='int', _enqueue_start='int', _enqueue_stop='int', ignore_error='bool'))

  @R.spec
  def enq_done(it, a, k):
    '''no producer is running any more: an error was recorded, or all declared producers started and stopped.'''
    q = a[0]
    exc = it.getfield(q, '_exception')
    st, sp, mx = (it.to_int(it.getfield(q, f)) for f in ('_enqueue_start', '_enqueue_stop', '_max_enqueuer'))
    has_exc = z3.Not(exc.isnone) if isinstance(exc, VOpt) else z3.BoolVal(not isinstance(exc, VNoneT))
    return VBool(z3.Or(has_exc, z3.And(mx != 0, st == sp, sp == mx)))

  @R.spec
  def notified(it, a, k):
    return VBool(a[0].f_notify)

  @R.spec
  def lock_free(it, a, k):
    '''this thread does not hold the lock (hold count 0 on this path)'''
    return VBool(a[0].held == 0)

  @R.spec
  def notified_all(it, a, k):
    return VBool(a[0].f_notify_all)

  @R.spec
  def same_seq(it, a, k):
    return VBool(it.eq(_seq(a[0], it), _seq(a[1], it)))

  @R.spec
  def tail_of(it, a, k):          # a == b[1:]
    x, y = _seq(a[0]), _seq(a[1])
    j = z3.Int(it.path.fresh_name('j'))
    return VBool(z3.And(x.n == y.n - 1, z3.ForAll([j], z3.Implies(z3.And(0 <= j, j < x.n), x.arr[j] == y.arr[j + 1]))))

  @R.spec
  def appended(it, a, k):         # a == b + [v]
    x, y, v = _seq(a[0]), _seq(a[1]), a[2]
    j = z3.Int(it.path.fresh_name('j'))
    return VBool(z3.And(x.n == y.n + 1, x.arr[y.n] == it.to_obj(v),
                        z3.ForAll([j], z3.Implies(z3.And(0 <= j, j < y.n), x.arr[j] == y.arr[j]))))

  @R.spec
  def extended(it, a, k):         # a == b + c
    x, y, c = _seq(a[0], it), _seq(a[1], it), _seq(a[2], it)
    j = z3.Int(it.path.fresh_name('j'))
    return VBool(z3.And(x.n == y.n + c.n,
                        z3.ForAll([j], z3.Implies(z3.And(0 <= j, j < y.n), x.arr[j] == y.arr[j])),
                        z3.ForAll([j], z3.Implies(z3.And(0 <= j, j < c.n), x.arr[y.n + j] == c.arr[j]))))

  t = dict(self='IteratorQueue')
  R.add(Contract(f'{ITER}::IteratorQueue.enqueue_done', PROPS, types=t, ret='bool', ensures=['result == enq_done(self)'],
                 cond_tests={'return': ['stop']}))

  R.add(Contract(
      f'{ITER}::IteratorQueue.get_nowait', PROPS, types=t, ret='obj', setup=_hold('_dequeue_lock'),
      # raising Empty means: nothing queued AND producers still running - both wake-up conditions of a consumer were tested
      cond_tests={'queue.Empty': ['content', 'stop']},
      modifies=['self._queue', 'self._exhausted', 'events:self._dequeue_lock'],
      requires=INV,
      ensures=INV + [
          # FIFO, exactly one element removed and it is the one returned
          'result is old(self._queue.content)[0]', 'tail_of(self._queue.content, old(self._queue.content))',
          # exhaustion is only declared once nothing is left and no producer can add more
          'implies(self._exhausted and not old(self._exhausted), len(self._queue.content) == 0 and enq_done(self))',
          'implies(old(self._exhausted), self._exhausted)'],
      raises_ensures={
          'queue.Empty': ['len(old(self._queue.content)) == 0', 'same_seq(self._queue.content, old(self._queue.content))',
                          'not enq_done(self)', 'not self._exhausted'],
          # the terminal signal: clean end-of-stream carries all producers' return values ...
          'StopIteration': ['len(self._queue.content) == 0', 'self._exception is None', 'old(self._exhausted) or enq_done(self)',
                            'same_seq(raised.args, self._returned)', 'self._exhausted'],
          # ... and a producer failure is delivered as that very exception, never as a clean end
          'UserError': ['raised is self._exception', 'len(self._queue.content) == 0', 'self._exhausted'],
      },
      bounded='bounded_queue_sequences',
      note='requires the dequeue condition to be held (as get/get_batch do); the direct public call is finding D10'))
  R.add(Contract(
      f'{ITER}::IteratorQueue.put_nowait', PROPS, types=dict(t, value='obj'),
      modifies=['self._queue', 'self._progress.cnt'],
      ensures=['appended(self._queue.content, old(self._queue.content), value)', 'self._progress.cnt == old(self._progress.cnt) + 1'],
      raises_ensures={'queue.Full': ['same_seq(self._queue.content, old(self._queue.content))',
                                     'self._queue.maxsize > 0 and len(self._queue.content) >= self._queue.maxsize',
                                     'self._progress.cnt == old(self._progress.cnt)']},
      bounded='bounded_queue_sequences'))
  R.add(Contract(
      f'{ITER}::IteratorQueue._start_enqueue', PROPS, types=t, modifies=['self._enqueue_start', 'self._max_enqueuer'],
      requires=INV, ensures=INV + ['self._enqueue_start == old(self._enqueue_start) + 1',
                                  'self._max_enqueuer == max(old(self._max_enqueuer), self._enqueue_start)'],
      bounded='bounded_queue_sequences'))
  R.add(Contract(
      f'{ITER}::IteratorQueue._stop_enqueue', PROPS, types=dict(t, values='seq[obj]'),
      modifies=['self._enqueue_stop', 'self._returned', 'events:self._dequeue_lock', 'events:self._enqueue_lock'],
      # the state lock must not be held by the caller: the hand-off inside releases it ONE level to notify the
      # consumers, a re-entrant outer hold would keep it locked while waiting for the consumers' lock (lock-order deadlock)
      requires=INV + ['lock_free(self._states_lock)'], ensures=INV + [
          'self._enqueue_stop == min(old(self._enqueue_stop) + 1, self._enqueue_start)',
          # every producer's return values are recorded, in order, none dropped
          'extended(self._returned, old(self._returned), values)',
          # the last producer to stop wakes up every waiting consumer
          'implies(enq_done(self), notified_all(self._dequeue_lock))',
          # and a FAILED stream also wakes the other producers (blocked on a full queue nobody will drain any more)
          'implies(enq_done(self) and self._exception is not None, notified_all(self._enqueue_lock))'],
      # publication: whenever the state lock is released after the counter update (in particular around the
      # notification that announces end-of-stream) the producer's return values are already recorded
      at_release={'self._states_lock': ['extended(self._returned, old(self._returned), values)']},
      bounded='bounded_queue_sequences'))
  R.add(Contract(
      f'{ITER}::IteratorQueue.maybe_stop', PROPS, types=dict(t, exc='exc?'),
      modifies=['self._enqueue_stop', 'self._enqueue_start', 'self._exception', 'self._exhausted',
                'events:self._enqueue_lock', 'events:self._dequeue_lock'],
      requires=INV,
      # (a clean stop of a queue for which no producer was ever declared trips the internal assert)
      raises={'AssertionError': 'self._max_enqueuer == 0 and self._exception is None and (exc is None or is_stop(exc))'},
      ensures=INV + [
          'enq_done(self)',
          # a stop request unblocks every blocked producer and consumer
          'notified_all(self._enqueue_lock)', 'notified_all(self._dequeue_lock)',
          # a failure (anything but StopIteration) is recorded and terminates the consumer side at once
          'implies(exc is not None and not is_stop(exc), self._exception is exc and self._exhausted)',
          'implies(exc is None or is_stop(exc), self._exception is old(self._exception) and self._exhausted == old(self._exhausted))'],
      bounded='bounded_queue_sequences',
      note='with max_enqueuer == 0 and a clean stop the assert enqueue_done fails (no producer was ever declared): precondition'))

  # ---- blocking operations: while waiting on a condition other threads change the shared state ------
  def _shared_state_changes(q):
    def on_wait(it, lk):
      # anything protected by _states_lock may have been changed by another thread, within the invariant
      for f in ('_enqueue_start', '_enqueue_stop', '_max_enqueuer', '_exhausted'):
        q.f[f] = it.fresh_like(q.f[f], f'{f}@wait')
      it.havoc_in_place(q.f['_queue'], '_queue@wait')
      it.havoc_in_place(q.f['_returned'], '_returned@wait')
      q.f['_exception'] = it.fresh('exc?', '_exception@wait')
      q.f['_progress'].f['cnt'] = it.fresh_like(q.f['_progress'].f['cnt'], 'cnt@wait')
      for inv in INV:
        it.assume(it.spec(inv, {'self': q}))
    return on_wait

  def _blocking(it, env):
    it.ghost['__on_wait__'] = _shared_state_changes(env['self'])
    # monitor rule for condition waits (no lost wake-up): a waiter is woken by a change of the queue content or by
    # the stop / failure of the producers; both must have been re-tested after the lock was last released
    for l in ('_dequeue_lock', '_enqueue_lock'):
      env['self'].f[l].recheck = ('content', 'stop')
    if 'removed' in it.ghost:
      it.assume(it.ghost['removed'].seq.n == 0)

  def _log_removed(it, env2, old):
    if 'removed' in it.ghost:          # ghost log of the elements taken out of the queue by this operation
      it.list_method(it.ghost['removed'], 'append', [env2['result']], {})
    return None

  R.contract_for(f'{ITER}::IteratorQueue.get_nowait', 'C04').post_hook = _log_removed

  SHARED = ['events:self._enqueue_lock', 'events:self._dequeue_lock', 'self._queue', 'self._enqueue_start', 'self._enqueue_stop', 'self._max_enqueuer', 'self._exhausted',
            'self._returned', 'self._exception', 'self._progress.cnt']
  R.add(Contract(
      f'{ITER}::IteratorQueue.put', PROPS, types=dict(t, value='obj'), setup=_blocking, modifies=SHARED,
      requires=INV,
      # the value is enqueued exactly once, or not at all when the producers were stopped meanwhile
      ensures=INV + ["ncalls('put_nowait') == 1 or (ncalls('put_nowait') == 0 and enq_done(self))",
                     "implies(ncalls('put_nowait') == 1, notified(self._dequeue_lock))"],
      raises_ensures={'TimeoutError': INV + ["ncalls('put_nowait') == 0", 'timed_out()', 'self.timeout is not None']},
      # a wait that timed out is never followed by more waiting (TimeoutError instead of blocking)
      loops={0: dict(invariant=INV + ["ncalls('put_nowait') == 0", 'not timed_out()'], havoc_attrs=[])},
      bounded='bounded_queue_sequences',
      note='a starved put raises TimeoutError when wait() times out, it never enqueues twice'))
  R.add(Contract(
      f'{ITER}::IteratorQueue.get', PROPS, types=t, ret='obj', setup=_blocking, modifies=SHARED,
      requires=INV,
      ensures=INV + ["ncalls('get_nowait') == 1", "result is last_result('get_nowait')", 'notified(self._enqueue_lock)'],
      raises_ensures={'TimeoutError': INV + ["ncalls('get_nowait') == 0", 'timed_out()', 'self.timeout is not None'],
                      'StopIteration': INV + ["ncalls('get_nowait') == 0", 'self._exception is None', 'len(self._queue.content) == 0'],
                      'UserError': INV + ["ncalls('get_nowait') == 0", 'raised is self._exception']},
      loops={0: dict(invariant=INV + ["ncalls('get_nowait') == 0", 'not timed_out()'])},
      bounded='bounded_queue_sequences'))
  R.add(Contract(
      f'{ITER}::IteratorQueue.get_batch', PROPS, types=dict(t, max_batch_size='int', block='bool'), ret='list[obj]',
      setup=_blocking, modifies=SHARED, ghost=dict(removed='list[obj]'),
      # a consumer that already took elements out (made room) tells the producers before it blocks itself: otherwise a
      # producer waiting for room and this consumer waiting for more wait for each other
      at_wait={'self._dequeue_lock': ['implies(len(result) > 0, notified(self._enqueue_lock))']},
      requires=INV + ['max_batch_size >= 0', 'self._max_batch_size >= 1'],
      # every element taken out of the queue is in the returned batch, in order, nothing else is
      ensures=INV + ['same_seq(result, removed)',
                     'len(result) <= ite(max_batch_size > 0, max_batch_size, self._max_batch_size)',
                     'notified(self._enqueue_lock)',
                     # an empty batch is only returned when a producer error was swallowed (ignore_error)
                     'implies(len(result) == 0, self.ignore_error and self._exception is not None)'],
      raises_ensures={'TimeoutError': INV + ['timed_out()', 'self.timeout is not None'],
                      # end-of-stream / failure only surface when nothing was taken out (no element is lost with them)
                      'StopIteration': INV + ['len(removed) == 0', 'self._exception is None'],
                      # a producer failure ends the stream (elements already taken may be dropped with it, none is duplicated)
                      'UserError': INV + ['raised is self._exception', 'not self.ignore_error']},
      loops={0: dict(invariant=INV + ['same_seq(result, removed)', 'len(result) <= max_batch_size', 'not timed_out()'], havoc_ghost=['removed'])},
      bounded='bounded_queue_sequences'))

  # ---- producer side ---------------------------------------------------------------------------------
  def _log_put(it, env2, old):
    if 'puts' in it.ghost:             # ghost log of the values handed to put(), in order
      it.list_method(it.ghost['puts'], 'append', [env2['value']], {})
    return None

  R.contract_for(f'{ITER}::IteratorQueue.put', 'C04').post_hook = _log_put

  def _producer(faulty):
    def setup(it, env):
      _blocking(it, env)
      src = env['iterator']
      src.err = 'UserError'
      if not faulty:
        src.fails = None
      it.ghost['pos0'] = VInt(src.pos)
      it.assume(it.ghost['puts'].seq.n == 0)
    return setup

  R.add(Contract(
      f'{ITER}::IteratorQueue.enqueue_from_iterator', PROPS, variant='fault-free',
      types=dict(t, iterator='iter[obj]'), setup=_producer(False), ghost=dict(puts='list[obj]'),
      modifies=SHARED + ['iterator'],
      # (with ignore_error a put() that times out is swallowed and its element dropped: excluded here, see DESIGN)
      requires=INV + ['not self.ignore_error'],
      # every element taken from the iterator is handed to put() exactly once, in production order,
      # and the producer signs off exactly once with the iterator's return value
      ensures=INV + ['len(puts) == iterator.pos - pos0',
                     'forall(lambda j: puts[j] is iterator.src[pos0 + j], 0, len(puts))',
                     "ncalls('_stop_enqueue') == 1 or (ncalls('_stop_enqueue') == 0 and enq_done(self))",
                     "implies(ncalls('_stop_enqueue') == 1, iterator.pos == len(iterator.src))",
                     # ... and hands over exactly the iterator's return value, whatever it is (0, {}, an array ...)
                     "implies(ncalls('_stop_enqueue') == 1, len(last_arg('_stop_enqueue', 'values')) == 1)",
                     "implies(ncalls('_stop_enqueue') == 1, implies(len(last_arg('_stop_enqueue', 'values')) == 1,"
                     " last_arg('_stop_enqueue', 'values')[0] is iterator.ret))"],
      raises_ensures={'TimeoutError': ['True']},
      loops={0: dict(invariant=INV + ['pos0 <= iterator.pos and iterator.pos <= len(iterator.src)',
                                      'len(puts) == iterator.pos - pos0',
                                      'forall(lambda j: puts[j] is iterator.src[pos0 + j], 0, len(puts))',
                                      "ncalls('_stop_enqueue') == 0", "ncalls('_start_enqueue') == 1"],
                     # every round takes one more element from the iterator: the producer loop terminates
                     decreases='len(iterator.src) - iterator.pos',
                     havoc_ghost=['puts'])},
      bounded='bounded_queue_sequences'))
  R.add(Contract(
      f'{ITER}::IteratorQueue.enqueue_from_iterator', PROPS, variant='failing-iterator',
      types=dict(t, iterator='iter[obj]'), setup=_producer(True), ghost=dict(puts='list[obj]'),
      modifies=SHARED + ['iterator'],
      requires=INV,
      ensures=INV + ["ncalls('_stop_enqueue') == 1 or (ncalls('_stop_enqueue') == 0 and enq_done(self))"],
      # a producer failure is recorded for the consumers, the producer signs off once, and the error is re-raised
      raises_ensures={'UserError': ['not self.ignore_error', "ncalls('_stop_enqueue') == 1",
                                    # the failure is what the consumers will observe ...
                                    'self._exception is raised',
                                    # ... and it is announced: a failed producer ends the stream for everybody (enq_done holds
                                    # as soon as a failure is recorded), so every waiting consumer is woken when it signs off
                                    'notified_all(self._dequeue_lock)',
                                    # the other producers are woken too (D27: one blocked on a full queue stayed blocked)
                                    'notified_all(self._enqueue_lock)'],
                      'TimeoutError': ['True']},
      loops={0: dict(invariant=INV + ["ncalls('_stop_enqueue') == 0", "ncalls('_start_enqueue') == 1", 'not iterator.dead'],
                     havoc_ghost=['puts'])},
      bounded='bounded_queue_sequences',
      note='after the failing put of the exception record, _stop_enqueue runs before other threads are modelled again'))

  # ---- consumer-side iterators ---------------------------------------------------------------------------
  R.cls('DequeueIterator', dict(_iterator_queue='IteratorQueue', _num_steps='int', _cnt='int', _run_until_exhausted='bool',
                                _cache='deque[obj]'))
  DQ = ['self._run_until_exhausted == (self._num_steps < 0)', 'self._cnt >= 0',
        'self._iterator_queue._max_enqueuer >= 1', 'self._iterator_queue._max_batch_size >= 1'] + [c.replace('self.', 'self._iterator_queue.') for c in INV]
  R.add(Contract(
      f'{ITER}::DequeueIterator.__next__', PROPS, types=dict(self='DequeueIterator'), ret='obj',
      setup=lambda it, env: _blocking(it, {'self': env['self'].f['_iterator_queue']}),
      modifies=['self._cnt', 'self._cache'] + [m.replace('self.', 'self._iterator_queue.') for m in SHARED],
      requires=DQ + ['self._run_until_exhausted or self._cnt <= self._num_steps'],
      ensures=['self._cnt == old(self._cnt) + 1',
               'implies(len(old(self._cache)) > 0, result is old(self._cache)[0])',
               'self._run_until_exhausted or self._cnt <= self._num_steps'],
      raises_ensures={
          # after exactly num_steps deliveries the producers are stopped and the iteration ends
          'StopIteration': ['(not self._run_until_exhausted and old(self._cnt) == self._num_steps and enq_done(self._iterator_queue))'
                            ' or (len(old(self._cache)) == 0 and self._iterator_queue._exception is None)'],
          'UserError': ['raised is self._iterator_queue._exception', 'len(old(self._cache)) == 0'],
          'TimeoutError': ['len(old(self._cache)) == 0'],
          'AssertionError': ['False'],
          # (an empty batch is only possible when a recorded failure was swallowed by ignore_error)
          'IndexError': ['self._iterator_queue.ignore_error and self._iterator_queue._exception is not None']},
      bounded='bounded_queue_sequences'))

  R.add(Contract(
      f'{ITER}::DequeueIterator.maybe_stop', PROPS, types=dict(self='DequeueIterator'),
      modifies=[m.replace('self.', 'self._iterator_queue.') for m in SHARED],
      requires=[c for c in DQ if '_run_until' not in c and '_cnt' not in c],
      # stopping the consumer side ALWAYS stops the producers and wakes every blocked producer and consumer,
      # also when the producers were already done (others may still be blocked in put())
      ensures=['enq_done(self._iterator_queue)', 'notified_all(self._iterator_queue._enqueue_lock)',
               'notified_all(self._iterator_queue._dequeue_lock)'],
      bounded='bounded_queue_threads'))

  import importlib.util as _ilu, os as _os
  _sp = _ilu.spec_from_file_location('mux_common', _os.path.join(_os.path.dirname(__file__), 'mux_common.py'))
  _mux_common = _ilu.module_from_spec(_sp); _sp.loader.exec_module(_mux_common)
  _mux_common.register(R, PROPS)
  R.cls('MultiplexIterator', dict(_iterator='iter[obj]', _thread_pool='obj?', _name='str'))

  @R.spec
  def shut_down(it, a, k):        # the helper thread pool was shut down during this operation
    return VBool(any(e[0] == 'call' and e[1] == 'shutdown' for e in it.events))

  def _mux(it, env):
    env['self'].f['_iterator'].err = 'UserError'

  R.add(Contract(
      f'{ITER}::MultiplexIterator.__next__', PROPS + ['C13'], types=dict(self='MultiplexIterator'), ret='obj', setup=_mux,
      modifies=['self._iterator'],
      ensures=['result is self._iterator.src[old(self._iterator.pos)]', 'not shut_down()'],
      # on EVERY non-normal exit (exhausted, failed) the pool is shut down (when there is one)
      raises_ensures={'StopIteration': ['self._thread_pool is None or shut_down()'],
                      'UserError': ['self._thread_pool is None or shut_down()']},
      bounded='bounded_queue_threads'))

  for p_ in PROPS:
    R.bounded_checks[p_] = [
        ('bounded_queue_sequences', 'single-threaded operation sequences on IteratorQueue vs a reference queue (capacities 0-2)'),
        ('bounded_queue_threads', 'producers x consumers x capacities with failures/stops under timeouts: exactly-once, order, terminal signal (sampled schedules)'),
    ]
    if p_ == 'C05':
      R.bounded_checks[p_] = R.bounded_checks[p_] + [('bounded_stop_is_final', 'a producer that only starts after maybe_stop() must not enqueue anything')]
    R.trusted[p_] = ['A2 queue.Queue/SimpleQueue FIFO with atomic get_nowait/put_nowait; threading.Condition/RLock semantics',
                     'A4 sequential semantics: each operation verified as if it ran alone with the needed lock held; NO claim about interleavings, deadlock or lost wake-ups',
                     'A5 Condition.wait may return either way', 'A7 pyvc engine, z3, cvc5']


def _seq(v, it=None):
  if isinstance(v, (VList, VTuple)):
    arr = z3.K(z3.IntSort(), it.to_obj(NONE))
    for i, x in enumerate(v.items):
      arr = z3.Store(arr, i, it.to_obj(x))
    return VSeq(arr, z3.IntVal(len(v.items)), 'obj')
  if isinstance(v, VMList):
    return v.seq
  if isinstance(v, VQueue):
    return v.q.seq
  return v
