"""In-memory mutation of a function's AST: the self-test of the contracts.

A contract that still verifies after the behaviour it should pin down was changed is too weak.  For every
function under contract the self-test applies small syntactic changes to the *real* AST (never written to
/repo), re-runs the verifier and records how many mutants the contract rejects.  Survivors are listed by
source line so that they can be judged (equivalent mutant: only logging / an unreachable or redundant test
changed; or a clause to strengthen)."""
import ast
import copy

_CMP = {ast.Lt: ast.LtE, ast.LtE: ast.Lt, ast.Gt: ast.GtE, ast.GtE: ast.Gt, ast.Eq: ast.NotEq, ast.NotEq: ast.Eq,
        ast.Is: ast.IsNot, ast.IsNot: ast.Is, ast.In: ast.NotIn, ast.NotIn: ast.In}
_BIN = {ast.Add: ast.Sub, ast.Sub: ast.Add, ast.Mult: ast.FloorDiv, ast.FloorDiv: ast.Mult}
_SKIP_CALLS = ('logging.', 'log_every_n_seconds', 'print')


def _is_log(node):
  try:
    s = ast.unparse(node)
  except Exception:   # pylint: disable=broad-exception-caught
    return False
  return any(t in s for t in _SKIP_CALLS)


def sites(fn):
  """All mutation sites of a function definition as (description, applier) pairs, in source order."""
  out = []
  body_nodes = []
  for stmt in fn.body:
    body_nodes.extend(ast.walk(stmt))
  idx = {id(n): k for k, n in enumerate(ast.walk(fn))}

  def add(desc, node, fnc):
    out.append((f'line {getattr(node, "lineno", "?")}: {desc}', idx[id(node)], fnc))

  for n in body_nodes:
    if isinstance(n, ast.Compare) and len(n.ops) == 1 and type(n.ops[0]) in _CMP and not _is_log(n):
      add(f'{type(n.ops[0]).__name__} -> {_CMP[type(n.ops[0])].__name__} in `{ast.unparse(n)[:60]}`', n,
          lambda m: setattr(m, 'ops', [_CMP[type(m.ops[0])]()]))
    elif isinstance(n, ast.BoolOp) and not _is_log(n):
      add(f'{type(n.op).__name__} swapped in `{ast.unparse(n)[:60]}`', n,
          lambda m: setattr(m, 'op', ast.Or() if isinstance(m.op, ast.And) else ast.And()))
    elif isinstance(n, (ast.If, ast.While)) and not isinstance(n.test, ast.Constant):
      add(f'condition negated: `{ast.unparse(n.test)[:60]}`', n,
          lambda m: setattr(m, 'test', ast.UnaryOp(op=ast.Not(), operand=m.test)))
    elif isinstance(n, ast.BinOp) and type(n.op) in _BIN and not _is_log(n):
      add(f'{type(n.op).__name__} -> {_BIN[type(n.op)].__name__} in `{ast.unparse(n)[:60]}`', n,
          lambda m: setattr(m, 'op', _BIN[type(m.op)]()))
    elif isinstance(n, ast.Constant) and isinstance(n.value, int) and not isinstance(n.value, bool):
      add(f'constant {n.value} -> {n.value + 1}', n, lambda m: setattr(m, 'value', m.value + 1))
    elif isinstance(n, (ast.Assign, ast.AugAssign)) and not _is_log(n):
      add(f'statement dropped: `{ast.unparse(n)[:70]}`', n, 'drop')
    elif isinstance(n, ast.Expr) and isinstance(n.value, ast.Call) and not _is_log(n):
      add(f'call dropped: `{ast.unparse(n)[:70]}`', n, 'drop')
  out.sort(key=lambda t: t[1])
  return out


def mutant(fn, site):
  """A deep copy of `fn` with the given site (an element of sites(fn)) mutated."""
  _, k, fnc = site
  new = copy.deepcopy(fn)
  nodes = list(ast.walk(new))
  target = nodes[k]
  if fnc == 'drop':
    for parent in nodes:
      for field in ('body', 'orelse', 'finalbody'):
        lst = getattr(parent, field, None)
        if isinstance(lst, list) and target in lst:
          lst[lst.index(target)] = ast.copy_location(ast.Pass(), target)
          return ast.fix_missing_locations(new)
    return None
  fnc(target)
  return ast.fix_missing_locations(new)


def pick(all_sites, cap):
  """At most `cap` sites, evenly spread over the function (deterministic)."""
  if len(all_sites) <= cap:
    return list(all_sites)
  step = len(all_sites) / cap
  return [all_sites[int(i * step)] for i in range(cap)]
