"""Job scheduler with hard limits: one forked process per job, at most `nproc` at a time.

A job that dies (watchdog exit 77 after a solver call overran its cooperative timeout, or any other abnormal death) is re-run
with the offending solver call answered `unknown`; a job that exceeds the hard wall-clock limit is killed. Either way the
check terminates: the function is reported as not proved (`status='timeout'`), which the verdict policy treats like any other
lost proof (PROOF-LOST, decided by the bounded stand-in) - never as a violation.
"""
import json
import multiprocessing as mp
import multiprocessing.connection as mpc
import os
import tempfile
import time


def _child(fn, job, conn, skip, wd_file):
  from pyvc import path as path_mod
  path_mod.start_watchdog(skip, wd_file)
  try:
    conn.send(fn(job))
  finally:
    conn.close()


def run_jobs(fn, jobs, nproc, hard_limit_s, on_fail, max_retries=3):
  """results[i] = fn(jobs[i]) computed in its own process; on_fail(job, reason, kills) builds the result of a job that could
  not be completed. Every result dict gets `watchdog_kills` (the solver calls that had to be abandoned)."""
  ctx = mp.get_context('fork')
  results = [None] * len(jobs)
  pending = [(i, set(), 0) for i in range(len(jobs))]
  running = {}
  tmpdir = tempfile.mkdtemp(prefix='pyvc-jobs-', dir=os.environ.get('PYVC_TMP') or None)
  try:
    while pending or running:
      while pending and len(running) < nproc:
        i, skip, tries = pending.pop(0)
        r, w = ctx.Pipe(duplex=False)
        wd_file = os.path.join(tmpdir, f'wd{i}.json')
        if os.path.exists(wd_file):
          os.remove(wd_file)
        p = ctx.Process(target=_child, args=(fn, jobs[i], w, skip, wd_file), daemon=False)
        p.start()
        w.close()
        running[i] = (p, r, time.time(), skip, tries, wd_file)
      ready = set(mpc.wait([v[1] for v in running.values()], timeout=1.0))
      now = time.time()
      for i, (p, r, t0, skip, tries, wd_file) in list(running.items()):
        res, dead, reason = None, False, ''
        if r in ready:
          try:
            res = r.recv()
          except (EOFError, OSError):
            dead = True
          p.join(5)
          if p.is_alive():
            p.kill(); p.join()
          if dead:
            reason = f'worker exited with code {p.exitcode}'
        elif now - t0 > hard_limit_s:
          p.kill(); p.join()
          dead, reason = True, f'hard limit of {hard_limit_s}s exceeded'
        else:
          continue
        r.close()
        del running[i]
        if not dead:
          if isinstance(res, dict):
            res['watchdog_kills'] = sorted(skip)
          results[i] = res
          continue
        key = None
        if os.path.exists(wd_file):
          try:
            key = json.load(open(wd_file)).get('key')
          except (ValueError, OSError):
            key = None
        if key is not None and key not in skip and tries < max_retries:
          pending.append((i, skip | {key}, tries + 1))        # re-run without that solver call
        else:
          res = on_fail(jobs[i], reason + (f' (solver call {key} overran its timeout)' if key else ''), sorted(skip | ({key} if key else set())))
          if isinstance(res, dict):
            res['watchdog_kills'] = sorted(skip | ({key} if key else set()))
          results[i] = res
  finally:
    for v in running.values():
      v[0].kill()
    for f in os.listdir(tmpdir):
      os.remove(os.path.join(tmpdir, f))
    os.rmdir(tmpdir)
  return results
