"""Calls, attribute access, builtins and library models (trusted: A2)."""
import ast
import z3

from .values import *   # pylint: disable=wildcard-import
from .path import Unsupported, PathEnd
from .interp import PyRaise, ReturnSig, exc_isinstance, EXC_PARENT, sort_of
from . import world as world_mod

is_stop_fn = z3.Function('is_stop_iteration_exc', Obj, z3.BoolSort())
opaque_call = {}     # name/arity -> z3 Function (uninterpreted user callables)

LIST_METHODS = ('append', 'extend', 'popleft', 'pop', 'clear', 'copy', 'index', 'appendleft')
LOG_FUNCS = ('debug', 'info', 'warning', 'error', 'exception', 'log', 'log_every_n_seconds', 'vlog')


class CallMixin:

  # ---- attribute access --------------------------------------------------------------------
  def getfield(self, obj, name):
    if name in obj.f:
      return obj.f[name]
    if name in obj.types:
      obj.f[name] = self.fresh(obj.types[name], f'{obj.tag}.{name}')
      sch = self.reg.classes.get(obj.cls)
      if sch is not None and sch.on_field is not None:
        sch.on_field(self, obj, name)
      return obj.f[name]
    raise Unsupported(f'no field {name} on {obj.cls}')

  def getattr_(self, v, name):
    if isinstance(v, VOpt):
      if self.spec_mode:
        v = v.val
      else:
        if self.branch(v.isnone):
          self.raise_('AttributeError', VStr(f"'NoneType' object has no attribute '{name}'"))
        v = v.val
    if isinstance(v, VObj):
      if name in v.f or name in v.types:
        return self.getfield(v, name)
      if name == '__class__':
        return VClass(v.cls, *reversed(self.world.class_by_name(v.cls)))
      mod, cls, m = self.world.method(v.cls, name)
      if m is not None:
        if world_mod.is_cached_property(m) and not self.spec_mode and not world_mod.memo_is_stable(cls, m):
          return self.memoised_get(v, mod, cls, m, name)
        if world_mod.is_property(m):
          return self.call_method(v, mod, cls, m, [], {})
        decs = world_mod.decorators(m)
        if 'classmethod' in decs:
          return VFn(name, node=m, module=mod, cls=cls, bound=VClass(v.cls, cls, mod))
        if 'staticmethod' in decs:
          return VFn(name, node=m, module=mod, cls=cls)
        return VFn(name, node=m, module=mod, cls=cls, bound=v)
      # dataclass class-level default?
      d = self.dataclass_default(v.cls, name)
      if d is not None:
        return d
      raise Unsupported(f'attribute {name} on {v.cls}')
    if isinstance(v, VSuper):
      for b in v.cls_node.bases:
        if isinstance(b, ast.Subscript):        # Generic[...] parametrisation of the base class
          b = b.value
        bn = b.id if isinstance(b, ast.Name) else (b.attr if isinstance(b, ast.Attribute) else None)
        if bn:
          if isinstance(b, ast.Attribute) and isinstance(b.value, ast.Name):
            here = self.module_stack[-1] if self.module_stack else None
            dotted = here.imports.get(b.value.id) if here is not None else None
            if dotted:
              self.world.module_by_dotted(dotted)        # make sure the defining module is loaded
          mod, cls, m = self.world.method(bn, name)
          if m is not None:
            if world_mod.is_property(m):
              return self.call_method(v.obj, mod, cls, m, [], {})
            return VFn(name, node=m, module=mod, cls=cls, bound=v.obj)
      raise Unsupported(f'super().{name}')
    if isinstance(v, VModule):
      return self.module_attr(v, name)
    if isinstance(v, VClass):
      return self.class_attr(v, name)
    if isinstance(v, (VList, VMList, VTuple, VSeq)):
      return VFn(f'list.{name}', impl=lambda it, a, k, _v=v, _n=name: it.list_method(_v, _n, a, k))
    if isinstance(v, (VDict, VMap)):
      return VFn(f'dict.{name}', impl=lambda it, a, k, _v=v, _n=name: it.dict_method(_v, _n, a, k))
    if isinstance(v, VVec):
      if name == 'size':
        return VInt(len(v.items))
      raise Unsupported(f'vector attribute {name}')
    if isinstance(v, VQueue):
      if name == 'content':       # ghost view (spec only)
        return v.q.seq
      if name == 'maxsize':
        return VInt(v.cap)
      return VFn(f'queue.{name}', impl=lambda it, a, k, _v=v, _n=name: it.queue_method(_v, _n, a, k))
    if isinstance(v, VLock):
      return VFn(f'lock.{name}', impl=lambda it, a, k, _v=v, _n=name: it.lock_method(_v, _n, a, k))
    if isinstance(v, VExc):
      if name == 'args':
        return VTuple(v.args) if not isinstance(v.args, V) else v.args
      if name == 'value':
        if isinstance(v.args, V):
          raise Unsupported('value of symbolic-args exception')
        return v.args[0] if v.args else NONE
      if name == '__cause__':
        return v.cause if v.cause is not None else NONE
      if name == 'add_note':
        return VFn('add_note', impl=lambda it, a, k, _v=v: (_v.notes.append(a[0]), NONE)[1])
      raise Unsupported(f'exception attribute {name}')
    if isinstance(v, VSlice):
      return {'start': v.lo, 'stop': v.hi, 'step': v.step}[name] if name in ('start', 'stop', 'step') else \
          VFn('slice.indices', impl=lambda it, a, k, _v=v: it.slice_indices(_v, a[0]))
    if isinstance(v, VOpaque):
      return VFn(f'opaque.{name}', impl=lambda it, a, k, _v=v, _n=name: it.opaque_method(_v, _n, a, k))
    if isinstance(v, VIter):          # ghost view of an iterator (spec only)
      if name == 'pos':
        return VInt(v.pos)
      if name == 'src':
        return v.src
      if name == 'dead':
        return VBool(v.dead)
      if name == 'ret':
        return v.ret if v.ret is not None else NONE
      raise Unsupported(f'iterator attribute {name}')
    if isinstance(v, VFn):
      if name in ('__name__', '__qualname__'):
        return VStr(v.name)
      raise Unsupported(f'function attribute {name}')
    if isinstance(v, (VInt, VBool, VReal)):
      return self.scalar_attr(v, name)
    if isinstance(v, VStr):
      if name in ('format', 'join', 'lower', 'upper', 'strip'):
        self.dropped.add('string formatting')
        return VFn(f'str.{name}', impl=lambda it, a, k: VStr(None))
      raise Unsupported(f'str method {name}')
    raise Unsupported(f'getattr {name} on {type(v).__name__}')

  def slice_indices(self, sl, n):
    nn = self.to_int(n)
    lo, hi = self.slice_bounds(sl, nn)
    return VTuple([VInt(z3.simplify(lo)), VInt(z3.simplify(hi)), VInt(1)])

  def memoised_get(self, v, mod, cls, m, name):
    """functools.cached_property whose inputs the class keeps changing: the first read stores the value in the instance and
    every later read returns the stored one.  An object that existed before the verified call may already hold a value
    memoised in ANY earlier state: an unconstrained value of the getter's shape."""
    memo = self.__dict__.setdefault('_memo', {})
    key = (id(v), name)
    if key in memo:
      return memo[key][1]
    val = self.call_method(v, mod, cls, m, [], {})
    if id(v) not in self.__dict__.get('run_created', ()):
      stale = z3.Bool(self.path.fresh_name(f'{v.cls}.{name}.memoised'))
      if self.branch(stale):
        val = self.fresh_like(val, f'{v.cls}.{name}.memo')
        self.__dict__.setdefault('memo_reads', []).append(f'{v.cls}.{name}')
    memo[key] = (v, val)
    return val

  def setattr_(self, obj, name, v):
    if isinstance(obj, VOpt):
      obj = self.unopt(obj)
    if not isinstance(obj, VObj):
      raise Unsupported(f'setattr on {type(obj).__name__}')
    if obj.frozen:
      self.raise_('AttributeError', VStr('frozen instance'))
    # property setter?
    if name not in obj.f and name not in obj.types:
      mod, cls, m = self.world.method(obj.cls, name)
      if m is not None and world_mod.is_property(m):
        for n in cls.body:
          if isinstance(n, ast.FunctionDef) and n.name == name and any(
              d.endswith('.setter') for d in world_mod.decorators(n)):
            return self.call_method(obj, mod, cls, n, [v], {})
    if (name not in obj.f and name not in obj.types and not name.startswith('__') and self.reg.classes.get(obj.cls) is not None
        and id(obj) not in self.__dict__.get('run_created', ()) and not self.spec_mode):
      # an object of the pre-state gets an attribute its class schema (the contract's view of the state) does not know: a
      # renamed / new private field - the clauses cannot speak about it, so this is outside the contract, not a violation
      raise Unsupported(f'write to attribute {name!r} of a {obj.cls}, which the contracts do not describe')
    self.record_write(obj, name)
    obj.f[name] = v

  def record_write(self, obj, name):
    self.events.append(('write', obj, name))
    self.check_monitor(obj, name, f'write of {name}')

  def check_monitor(self, obj, name, what):
    """guarded-by discipline (set up by a contract: it.monitors = [(owner, fields, guarded lock objects, monitor lock)]):
    a guarded field / guarded lock of the owner is only changed while the monitor lock is held."""
    if self.spec_mode:
      return
    for owner, fields, locks, mon in self.__dict__.get('monitors', ()):
      hit = (obj is owner and name in fields) or (name is None and any(obj is l for l in locks))
      if hit and mon.held == 0:
        self.oblige(f'{self.cur_name}/lock-discipline[{what} outside {mon.name.split(".")[-1]}]', z3.BoolVal(False), 'lock-discipline',
                    {'text': f'{what} while {mon.name} is not held (guarded-by discipline of the monitor)'})

  def dataclass_default(self, clsname, field):
    mod, cls = self.world.class_by_name(clsname)
    if cls is None:
      return None
    for n in cls.body:
      if isinstance(n, ast.AnnAssign) and isinstance(n.target, ast.Name) and n.target.id == field and n.value is not None:
        return self.ev(n.value, {'__module__': mod})
    return None

  def setitem(self, base, idx, v):
    base = self.unopt(base)
    if isinstance(base, VList):
      i = z3.simplify(self.to_int(idx))
      if z3.is_int_value(i) and -len(base.items) <= i.as_long() < len(base.items):
        base.items[i.as_long()] = v
        return
      raise Unsupported('symbolic index store in concrete list')
    if isinstance(base, VMList):
      s = base.seq
      ni = self.norm_index(self.to_int(idx), s.n)
      if self.branch(z3.Or(ni < 0, ni >= s.n)):
        self.raise_('IndexError', VStr('assignment index out of range'))
      base.seq = VSeq(z3.Store(s.arr, ni, self.unwrap(s.kind, v)), s.n, s.kind)
      return
    if isinstance(base, VDict):
      base.d[self.hashable(idx)] = v
      return
    if isinstance(base, VMap):
      return self.map_store(base, idx, v)
    if isinstance(base, VObj):
      mod, cls, m = self.world.method(base.cls, '__setitem__')
      if m is not None:
        return self.call_method(base, mod, cls, m, [idx, v], {})
    raise Unsupported(f'setitem on {type(base).__name__}')

  def check_guard(self, m, what):
    # only WRITES outside the lock break the discipline the properties rest on; an unlocked read (a racy pre-check that is
    # repeated under the lock, a monitoring read) is not a violation of any of them
    if what in ('read', 'contains', 'get', 'items', 'keys', 'values', '__len__'):
      # ... but it is remembered: a later write must not be computed from a value read while the lock was free
      if m.guard is not None and not self.spec_mode:
        self.__dict__.setdefault('guarded_reads', []).append((m, m.val, m.has, m.none, getattr(m.guard, 'epoch', 0) if m.guard.held > 0 else -1))
      return
    if m.guard is not None and m.guard.held == 0 and not self.spec_mode:
      self.oblige(f'{self.cur_name}/lock-discipline[{what}]', z3.BoolVal(False), 'lock-discipline',
                  {'text': f'{what} of a map guarded by {m.guard.name} outside the lock'})

  def stale_read_check(self, m, v):
    """check-then-act: the value written into a guarded map (under its lock) must not depend on an entry of that map read
    while the lock was free, unless the map was read again under the lock since (the usual re-check)."""
    reads = [r for r in self.__dict__.get('guarded_reads', ()) if r[0] is m]
    if not reads or m.guard is None or m.guard.held == 0:
      return
    now = getattr(m.guard, 'epoch', 0)       # the current holding of the lock; a read made in an EARLIER holding is stale too
    if any(r[4] == now for r in reads):
      return
    try:
      pv = v.val if isinstance(v, VOpt) else v
      t = self.unwrap(m.vkind, pv) if not isinstance(pv, VNoneT) else None
    except Unsupported:
      return
    if t is None:
      return
    arrays = {a.get_id() for r in reads if r[4] != now for a in r[1:4] if a is not None}
    todo, seen = [t], set()
    while todo:
      x = todo.pop()
      if x.get_id() in seen:
        continue
      seen.add(x.get_id())
      if z3.is_select(x) and x.arg(0).get_id() in arrays:
        self.oblige(f'{self.cur_name}/lock-discipline[write from a read made outside {m.guard.name.split(".")[-1]}]', z3.BoolVal(False), 'lock-discipline',
                    {'text': f'the value written under {m.guard.name} is computed from an entry read before this holding of the lock (outside it, or in an earlier locked section) and not read again (check-then-act)'})
        return
      todo.extend(x.children())

  def map_store(self, m, key, v, move_to_end=False):
    self.check_guard(m, 'write')
    if not self.spec_mode:
      self.stale_read_check(m, v)
    k = self.unwrap_key(m, key)
    m.keys_seen.append(k)
    was = z3.Select(m.has, k)
    m.size = z3.If(was, m.size, m.size + 1)
    if m.stamp is not None:
      # OrderedDict: a new key goes to the end, an existing key keeps its place
      m.stamp = z3.If(was, m.stamp, z3.Store(m.stamp, k, m.clock))
      m.clock = m.clock + 1
    m.has = z3.Store(m.has, k, z3.BoolVal(True))
    if m.none is not None:
      isn = v.isnone if isinstance(v, VOpt) else z3.BoolVal(isinstance(v, VNoneT))
      m.none = z3.Store(m.none, k, isn)
      pv = v.val if isinstance(v, VOpt) else v
      if not isinstance(pv, VNoneT):
        m.val = z3.Store(m.val, k, self.unwrap(m.vkind, pv))
    else:
      m.val = z3.Store(m.val, k, self.unwrap(m.vkind, v))

  def delitem(self, base, idx):
    base = self.unopt(base)
    if isinstance(base, VMap):
      k = self.unwrap_key(base, idx)
      if self.branch(z3.Not(z3.Select(base.has, k))):
        self.raise_('KeyError', idx)
      base.has = z3.Store(base.has, k, z3.BoolVal(False))
      base.size = base.size - 1
      return
    if isinstance(base, VDict):
      del base.d[self.hashable(idx)]
      return
    raise Unsupported(f'del on {type(base).__name__}')

  # ---- library: lists / deques ------------------------------------------------------------
  def list_extend(self, lst, other):
    other = self.unopt(other)
    if isinstance(lst, VList):
      if isinstance(other, (VMList, VSeq)) and (other.seq if isinstance(other, VMList) else other).kind == 'obj':
        self.promote_list(lst)   # a concrete list extended by one of symbolic length: same identity, symbolic length
      else:
        lst.items.extend(self.iter_concrete(other))
        return
    s = lst.seq
    if isinstance(other, (VTuple, VList)):
      arr, n = s.arr, s.n
      for x in other.items:
        arr = z3.Store(arr, n, self.unwrap(s.kind, x))
        n = n + 1
      lst.seq = VSeq(arr, z3.simplify(n), s.kind)
      return
    if isinstance(other, VMList):
      other = other.seq
    if isinstance(other, VOpaque):
      # extending by a sized opaque (e.g. a slice of user data): items by item_of
      j = z3.Int(self.path.fresh_name('j'))
      m = len_of(other.t)
      arr = z3.Lambda([j], z3.If(j < s.n, z3.Select(s.arr, j), item_of(other.t, j - s.n)))
      lst.seq = VSeq(arr, s.n + m, s.kind)
      return
    if isinstance(other, VSeq):
      j = z3.Int(self.path.fresh_name('j'))
      arr = z3.Lambda([j], z3.If(j < s.n, z3.Select(s.arr, j), z3.Select(other.arr, j - s.n)))
      lst.seq = VSeq(arr, s.n + other.n, s.kind)
      return
    raise Unsupported(f'extend by {type(other).__name__}')

  def list_method(self, v, name, a, k):
    if name == 'append':
      if isinstance(v, VList):
        v.items.append(a[0])
      elif isinstance(v, VMList):
        s = v.seq
        ml = getattr(v, 'maxlen', None)
        if ml is not None and not (z3.is_int_value(z3.simplify(ml)) and z3.simplify(ml).as_long() < 0):
          if self.branch(z3.And(ml >= 0, s.n >= ml)):
            # a full bounded deque: the oldest element is silently discarded (maxlen 0: nothing is kept)
            if self.branch(ml == 0):
              return NONE
            j = z3.Int(self.path.fresh_name('j'))
            s = VSeq(z3.Lambda([j], z3.Select(s.arr, j + 1)), s.n - 1, s.kind)
        v.seq = VSeq(z3.Store(s.arr, s.n, self.unwrap(s.kind, a[0])), s.n + 1, s.kind)
        if getattr(v, 'cat', None) is not None:
          v.cat = self.cat_append(v.cat, a[0])
      else:
        raise Unsupported('append on immutable')
      return NONE
    if name == 'insert' and isinstance(v, VList):
      idx = z3.simplify(self.to_int(a[0]))
      if z3.is_int_value(idx):
        i = idx.as_long()
        n = len(v.items)
        i = max(0, n + i) if i < 0 else min(i, n)
        v.items.insert(i, a[1])
        return NONE
    if name == 'extend':
      self.list_extend(v, a[0])
      return NONE
    if name in ('popleft', 'pop'):
      front = name == 'popleft' or (a and z3.is_int_value(self.to_int(a[0])) and self.to_int(a[0]).as_long() == 0)
      if isinstance(v, VList):
        if not v.items:
          self.raise_('IndexError', VStr('pop from empty list'))
        return v.items.pop(0 if front else -1)
      s = v.seq
      if self.branch(s.n <= 0):
        self.raise_('IndexError', VStr('pop from an empty deque'))
      if front:
        x = self.wrap(s.kind, z3.Select(s.arr, 0))
        j = z3.Int(self.path.fresh_name('j'))
        v.seq = VSeq(z3.Lambda([j], z3.Select(s.arr, j + 1)), s.n - 1, s.kind)
      else:
        x = self.wrap(s.kind, z3.Select(s.arr, s.n - 1))
        v.seq = VSeq(s.arr, s.n - 1, s.kind)
      return x
    if name == 'clear':
      if isinstance(v, VList):
        v.items.clear()
      else:
        v.seq = VSeq(v.seq.arr, z3.IntVal(0), v.seq.kind)
      return NONE
    if name == 'copy':
      if isinstance(v, VList):
        return VList(v.items)
      return VMList(v.seq, v.is_deque)
    raise Unsupported(f'list method {name}')

  # ---- library: dicts / OrderedDict ---------------------------------------------------------
  def dict_method(self, v, name, a, k):
    if isinstance(v, VDict):
      if name == 'get':
        key = self.hashable(a[0])
        return v.d.get(key, a[1] if len(a) > 1 else NONE)
      if name == 'items':
        return VList([VTuple([VStr(kk) if isinstance(kk, str) else VInt(kk), vv]) for kk, vv in v.d.items()])
      if name == 'keys':
        return VList([VStr(kk) if isinstance(kk, str) else VInt(kk) for kk in v.d])
      if name == 'values':
        return VList(list(v.d.values()))
      raise Unsupported(f'dict method {name}')
    m = v
    self.check_guard(m, name)
    if name == 'get':
      key = self.unwrap_key(m, a[0])
      default = a[1] if len(a) > 1 else NONE
      present = z3.Select(m.has, key)
      val = self.map_value(m, key)
      return self.ite(present, val, default)
    if name == 'move_to_end':
      key = self.unwrap_key(m, a[0])
      if self.branch(z3.Not(z3.Select(m.has, key))):
        self.raise_('KeyError', a[0])
      m.stamp = z3.Store(m.stamp, key, m.clock)
      m.clock = m.clock + 1
      return NONE
    if m.is_counter and name == 'items' and not a:
      return VCounterView(m)
    if m.is_counter and name == 'most_common':
      n = a[0] if a else k.get('n')
      return VCounterView(m, None if n is None or isinstance(n, VNoneT) else self.to_int(n))
    if name == 'update' and m.is_counter and len(a) == 1 and isinstance(a[0], VMap) and a[0].is_counter and a[0].ksort == m.ksort:
      # collections.Counter.update(other counter): counts are ADDED key by key (a missing key counts 0)
      o = a[0]
      kk = z3.Const(self.path.fresh_name('k'), m.ksort)
      mine = z3.If(z3.Select(m.has, kk), z3.Select(m.val, kk), z3.IntVal(0))
      val = z3.Lambda([kk], z3.If(z3.Select(o.has, kk), mine + z3.Select(o.val, kk), z3.Select(m.val, kk)))
      has = z3.Lambda([kk], z3.Or(z3.Select(m.has, kk), z3.Select(o.has, kk)))
      size = z3.Int(self.path.fresh_name('counter.size'))
      self.assume(z3.And(size >= m.size, size >= o.size, size <= m.size + o.size))
      m.has, m.val, m.size = has, val, size
      return NONE
    if name == 'clear':
      kk = z3.Const(self.path.fresh_name('k'), m.ksort)
      m.has = z3.K(m.ksort, z3.BoolVal(False))
      m.size = z3.IntVal(0)
      return NONE
    raise Unsupported(f'map method {name}')

  def map_first_key(self, m):
    """next(iter(ordered_dict)): the present key with the minimal stamp."""
    if m.stamp is None:
      raise Unsupported('iteration order of an unordered map')
    if self.branch(m.size <= 0):
      self.raise_('StopIteration')
    k = z3.Const(self.path.fresh_name('first'), m.ksort)
    j = z3.Const(self.path.fresh_name('k'), m.ksort)
    # cardinality fact of finite maps (size = |domain|, maintained exactly by the
    # model): a map with >= 2 entries has an entry other than any given key
    for x in m.keys_seen:
      y = z3.Const(self.path.fresh_name('other'), m.ksort)
      self.assume(z3.Implies(z3.And(m.size >= 2, z3.Select(m.has, x)), z3.And(z3.Select(m.has, y), y != x)))
    self.assume(z3.Select(m.has, k))
    self.assume(z3.ForAll([j], z3.Implies(z3.Select(m.has, j), z3.Select(m.stamp, k) <= z3.Select(m.stamp, j))))
    return self.wrap_key(m, k)

  def wrap_key(self, m, k):
    return VInt(k) if m.ksort == z3.IntSort() else VOpaque(k)

  def note_cond_test(self, kinds):
    """The code has just tested (under the lock it holds) wake-up conditions of these kinds."""
    self.seq += 1
    self.last_cond_check = self.seq
    for kd in kinds:
      self.cond_checks[kd] = self.seq

  def queue_method(self, q, name, a, k):
    s = q.q.seq
    if name == 'get_nowait':
      if self.branch(s.n <= 0):
        self.note_cond_test(['content'])
        self.raise_('queue.Empty')
      return self.list_method(q.q, 'popleft', [], {})
    if name == 'put_nowait':
      if self.branch(z3.And(q.cap > 0, s.n >= q.cap)):
        self.note_cond_test(['content'])
        self.raise_('queue.Full')
      return self.list_method(q.q, 'append', [a[0]], {})
    if name == 'empty':
      self.note_cond_test(['content'])
      return VBool(s.n <= 0)
    if name == 'qsize':
      return VInt(s.n)
    raise Unsupported(f'queue method {name}')

  # ---- locks (A4: sequential semantics, ghost hold count + event log) ---------------------------
  def lock_acquire(self, lk):
    if lk.held and not lk.reentrant:
      self.events.append(('deadlock', lk.name))
    # lock hierarchy (declared per property: Registry.lock_ranks, by field name): a lock may only be acquired while the
    # locks already held by this thread rank strictly lower - the per-call rule that excludes lock-order deadlocks
    ranks = getattr(self.reg, 'lock_ranks', None)
    held = self.__dict__.setdefault('held_locks', [])
    if ranks and not self.spec_mode and not lk.held:
      r = next((v for k, v in ranks.items() if lk.name.endswith(k)), None)
      for h in held:
        rh = next((v for k, v in ranks.items() if h.name.endswith(k)), None)
        if h is not lk and r is not None and rh is not None and not rh < r:
          self.oblige(f'{self.cur_name}/lock-order[{h.name.split(".")[-1]}->{lk.name.split(".")[-1]}]', z3.BoolVal(False), 'lock-discipline',
                      {'text': f'{lk.name} (rank {r}) is acquired while {h.name} (rank {rh}) is held: the lock hierarchy is '
                               f'{sorted(ranks.items(), key=lambda kv: kv[1])}'})
    held.append(lk)
    if lk.held == 0:
      lk.epoch = getattr(lk, 'epoch', 0) + 1       # a new holding of the lock
    lk.held += 1
    lk.events.append('acquire')

  def lock_release(self, lk, from_with=False):
    if lk.held <= 0:
      self.raise_('RuntimeError', VStr('release unlocked lock'))
    for h in self.release_hooks:     # what other threads may observe from now on must be complete
      h(self, lk)
    lk.held -= 1
    held = self.__dict__.setdefault('held_locks', [])
    for i in range(len(held) - 1, -1, -1):
      if held[i] is lk:
        del held[i]
        break
    lk.events.append('release')
    self.seq += 1
    lk.last_release = self.seq

  def lock_method(self, lk, name, a, k):
    if name in ('acquire', 'release'):
      self.check_monitor(lk, None, f'{name} of {lk.name.split(".")[-1]}')
    gk = f'{lk.name}.free'
    if gk in self.ghost:       # a lock other threads/owners may hold: symbolic ghost state
      free = self.ghost[gk]
      if name == 'locked':
        return VBool(z3.Not(free.t))
      if name == 'acquire':
        blocking = k.get('blocking', a[0] if a else VBool(True))
        if self.branch(free.t):
          self.ghost[gk] = VBool(False)
          lk.events.append('acquire')
          return VBool(True)
        if self.branch(self.truth(blocking)):
          raise PathEnd()      # blocks until released by another thread (A5: not a per-call fact)
        return VBool(False)
      if name == 'release':
        if self.branch(free.t):
          self.raise_('RuntimeError', VStr('release unlocked lock'))
        self.ghost[gk] = VBool(True)
        lk.events.append('release')
        return NONE
    if name == 'acquire':
      blocking = k.get('blocking', a[0] if a else VBool(True))
      if lk.held and not lk.reentrant:
        # held by this very thread model -> non-blocking acquire fails
        return VBool(False)
      free = self.ghost.get(f'{lk.name}.free')
      if free is not None:
        if self.branch(free.t):
          lk.held += 1
          lk.events.append('acquire')
          self.ghost[f'{lk.name}.free'] = VBool(False)
          return VBool(True)
        return VBool(False)
      self.lock_acquire(lk)
      return VBool(True)
    if name == 'release':
      self.lock_release(lk)
      if f'{lk.name}.free' in self.ghost:
        self.ghost[f'{lk.name}.free'] = VBool(True)
      return NONE
    if name == 'locked':
      free = self.ghost.get(f'{lk.name}.free')
      if free is not None:
        return VBool(z3.Not(free.t))
      return VBool(lk.held > 0)
    if name in ('notify', 'notify_all'):
      if lk.held <= 0:
        self.raise_('RuntimeError', VStr('cannot notify on un-acquired lock'))
      lk.events.append(name)
      lk.f_notify = z3.BoolVal(True)
      if name == 'notify_all':
        lk.f_notify_all = z3.BoolVal(True)
      return NONE
    if name == 'wait':
      if lk.held <= 0:
        self.raise_('RuntimeError', VStr('cannot wait on un-acquired lock'))
      lk.events.append('wait')
      for h in getattr(self, 'wait_hooks', ()):
        h(self, lk)
      if lk.recheck and not self.spec_mode:
        # monitor rule (no lost wake-up): the condition waited for was tested after this lock was last
        # released - otherwise a notification sent in between is missed
        kinds = lk.recheck if isinstance(lk.recheck, (set, frozenset, list, tuple)) else ['content']
        for kd in sorted(kinds):
          self.oblige(f'{self.cur_name}/wait-after-recheck[{lk.name}:{kd}]', z3.BoolVal(self.cond_checks.get(kd, 0) > lk.last_release),
                      'monitor-discipline', {'text': f'the wake-up condition "{kd}" is re-tested after the last release of {lk.name} and before wait() '
                                                     '(a notification sent while the lock was released is otherwise lost)'})
      self.on_wait(lk)
      ok = self.fresh_bool('wait_ok')
      tmo = k.get('timeout', a[0] if a else NONE)
      if isinstance(tmo, VNoneT):
        ok = z3.BoolVal(True)            # without a timeout wait() only returns when notified
      elif isinstance(tmo, VOpt):
        ok = z3.Or(ok, tmo.isnone)
      prev = self.ghost.get('__timed_out__')
      self.ghost['__timed_out__'] = VBool(z3.Or(prev.t, z3.Not(ok)) if prev is not None else z3.Not(ok))
      return VBool(ok)
    raise Unsupported(f'lock method {name}')

  def on_wait(self, lk):
    """Condition.wait releases the lock: other threads may change shared state.
    The contract may register a havoc hook (ghost '__on_wait__')."""
    h = self.ghost.get('__on_wait__')
    if h is not None:
      h(self, lk)

  # ---- opaque objects --------------------------------------------------------------------
  def opaque_method(self, v, name, a, k):
    self.events.append(('call', name, v, list(a)))
    h = self.reg.opaque_methods.get(name)
    if h is not None:
      return h(self, v, a, k)
    self.path.abstracted += 1
    return VOpaque(self.fresh_obj(name))

  def call_opaque(self, f, a, k):
    """Uninterpreted, pure-but-possibly-raising user callable (A6)."""
    self.events.append(('callfn', f, list(a)))
    args = [self.to_obj(x) for x in a]
    key = len(args)
    fn = opaque_call.get(key)
    if fn is None:
      fn = z3.Function(f'apply{key}', *([Obj] * (key + 1)), Obj)
      opaque_call[key] = fn
    r = fn(f.t, *args)
    may = self.ghost.get('__fn_raises__')
    if may is not None and not self.spec_mode:
      c = may(f.t, *args)
      if c is not None and self.branch(c):
        self.raise_(self.reg.opaque_call_error, VStr('user function failed'))
    return VOpaque(r)

  # ---- iterators ---------------------------------------------------------------------------
  def next_(self, it, default=None):
    it = self.unopt(it)
    if isinstance(it, VIter):
      if self.branch(it.dead):
        if default is not None:
          return default
        self.raise_('StopIteration')
      if self.branch(it.pos >= it.src.n):
        if default is not None:
          return default
        raise PyRaise(VExc('StopIteration', [it.ret] if it.ret is not None else []))
      p = it.pos
      it.pos = p + 1
      if it.fails is not None and self.branch(z3.Select(it.fails, p)):
        if not it.resumable:
          it.dead = z3.BoolVal(True)
        self.raise_(it.err, VStr('element failed'))
      if it.wrap_fn is not None:
        return it.wrap_fn(p)
      return self.wrap(it.src.kind, z3.Select(it.src.arr, p))
    if isinstance(it, VObj):
      mod, cls, m = self.world.method(it.cls, '__next__')
      if m is not None:
        try:
          return self.call_method(it, mod, cls, m, [], {})
        except PyRaise as pr:
          if default is not None and exc_isinstance(pr.exc.cls, 'StopIteration'):
            return default
          raise
    raise Unsupported(f'next() on {type(it).__name__}')

  def iter_(self, v):
    v = self.unopt(v)
    if isinstance(v, VIter):
      return v
    if isinstance(v, (VSeq, VMList)):
      s = v.seq if isinstance(v, VMList) else v
      return VIter(s, z3.IntVal(0), None, True, None, tag='iter')
    if isinstance(v, (VTuple, VList)):
      if not v.items:
        return VIter(VSeq(z3.K(z3.IntSort(), none_obj_()), z3.IntVal(0), 'obj'), z3.IntVal(0), None, True, None, tag='empty')
      raise Unsupported('iter() of non-empty concrete list')
    if isinstance(v, VMap):
      return VFirstKeyIter(v)
    if isinstance(v, VObj):
      mod, cls, m = self.world.method(v.cls, '__iter__')
      if m is not None:
        return self.call_method(v, mod, cls, m, [], {})
      mod, cls, m = self.world.method(v.cls, '__next__')
      if m is not None:
        return v
    if isinstance(v, VOpaque):
      h = self.reg.opaque_iter
      if h is not None:
        return h(self, v)
    raise Unsupported(f'iter() of {type(v).__name__}')

  # ---- generators under verification ---------------------------------------------------------
  def do_yield(self, v):
    if self.yield_log is None:
      raise Unsupported('yield outside a generator under verification')
    s = self.yield_log.seq
    self.yield_log.seq = VSeq(z3.Store(s.arr, s.n, self.unwrap(s.kind, v)), s.n + 1, s.kind)
    c = self.cur_contract_for_loops
    if c is not None and c.abandon and self.call_depth <= 1 and self.branch(self.fresh_bool('consumer_closes_here')):
      self.raise_('GeneratorExit')

  def do_yield_from(self, src):
    """`yield from (elt for target in it)` / `yield from it` summarised exactly: every element from the
    iterator's position up to the first failing one (or the end) is yielded, mapped, in order; then the
    iterator is exhausted, or its error is raised at the failing element."""
    if self.yield_log is None:
      raise Unsupported('yield from outside a generator under verification')
    gen = None
    if isinstance(src, VGen):
      gen, it = src, src.it
    elif isinstance(src, VIter):
      it = src
    else:
      raise Unsupported(f'yield from {type(src).__name__}')
    if not (isinstance(it.dead, bool) or z3.is_false(it.dead)):
      if self.branch(it.dead):
        return NONE
    p0, n = it.pos, it.src.n
    if it.fails is not None:
      f = self.fresh_int('first_failure')
      j = self.fresh_int('j')
      self.assume(z3.And(p0 <= f, f <= n))
      self.assume(z3.ForAll([j], z3.Implies(z3.And(p0 <= j, j < f), z3.Not(z3.Select(it.fails, j)))))
      self.assume(z3.Implies(f < n, z3.Select(it.fails, f)))
    else:
      f = n
    # the consumer may close the generator after any yielded element: then only a non-empty proper
    # prefix [p0, a) was yielded and GeneratorExit is raised at that yield
    c = self.cur_contract_for_loops
    abandoned = False
    if c is not None and c.abandon and self.call_depth <= 1 and self.branch(self.fresh_bool('consumer_closes_here')):
      a = self.fresh_int('abandoned_at')
      self.assume(z3.And(p0 < a, a <= f))
      f_full, f, abandoned = f, a, True
    j = self.fresh_int('j')
    elem = it.wrap_fn(j) if it.wrap_fn is not None else self.wrap(it.src.kind, z3.Select(it.src.arr, j))
    if gen is not None:
      e2 = {'__parent__': gen.env}
      self.assign_target(gen.target, elem, e2)
      elem = self.ev(gen.elt, e2)
    out = self.yield_log.seq
    term = self.unwrap(out.kind, elem)
    arr = z3.Array(self.path.fresh_name('out.arr'), z3.IntSort(), out.arr.sort().range())
    i = self.fresh_int('i')
    self.assume(z3.ForAll([i], z3.Implies(z3.And(0 <= i, i < out.n), z3.Select(arr, i) == z3.Select(out.arr, i))))
    self.assume(z3.ForAll([j], z3.Implies(z3.And(p0 <= j, j < f), z3.Select(arr, out.n + j - p0) == term)))
    self.yield_log.seq = VSeq(arr, z3.simplify(out.n + f - p0), out.kind)
    if abandoned:
      it.pos = f
      self.raise_('GeneratorExit')
    it.pos = z3.If(f < n, f + 1, n)
    if it.fails is not None and self.branch(f < n):
      if not it.resumable:
        it.dead = z3.BoolVal(True)
      self.raise_(it.err, VStr('element failed'))
    return it.ret if it.ret is not None else NONE


def none_obj_():
  from .interp import none_obj
  return none_obj


class VFirstKeyIter(V):
  """iter(OrderedDict): only next() once is supported (LRU eviction idiom)."""
  __slots__ = ('m',)

  def __init__(self, m):
    self.m = m
