"""Symbolic interpreter for the Python subset described in DESIGN.md section 1.2.

It executes the *real* AST of repository functions (parsed from /repo on every
run) on symbolic values, forking paths through `Explorer.branch`.
"""
import ast
import z3

from .values import *   # pylint: disable=wildcard-import
from .path import Unsupported, PathEnd, Obligation
from . import world as world_mod


class ReturnSig(Exception):

  def __init__(self, value):
    self.value = value


class BreakSig(Exception):
  pass


class ContinueSig(Exception):
  pass


class PyRaise(Exception):

  def __init__(self, exc):
    self.exc = exc


# ---- exception hierarchy (names) ---------------------------------------------------
EXC_PARENT = {
    'BaseException': None, 'Exception': 'BaseException',
    'KeyboardInterrupt': 'BaseException', 'GeneratorExit': 'BaseException',
    'StopIteration': 'Exception', 'StopAsyncIteration': 'Exception',
    'ArithmeticError': 'Exception', 'ZeroDivisionError': 'ArithmeticError',
    'AssertionError': 'Exception', 'AttributeError': 'Exception',
    'LookupError': 'Exception', 'IndexError': 'LookupError', 'KeyError': 'LookupError',
    'TypeError': 'Exception', 'ValueError': 'Exception',
    'RuntimeError': 'Exception', 'NotImplementedError': 'RuntimeError',
    'OSError': 'Exception', 'TimeoutError': 'OSError',
    'queue.Empty': 'Exception', 'queue.Full': 'Exception',
    'asyncio.QueueEmpty': 'Exception', 'asyncio.QueueFull': 'Exception',
    'futures.CancelledError': 'BaseException',
    # A producer/user error of unknown class (an Exception that is none of the above).
    'UserError': 'Exception',
    'LazyObjectMissingError': 'Exception',
}


def exc_isinstance(cls, parent):
  while cls is not None:
    if cls == parent:
      return True
    cls = EXC_PARENT.get(cls)
  return False


SORTS = {'int': z3.IntSort(), 'nat': z3.IntSort(), 'bool': z3.BoolSort(), 'real': z3.RealSort(),
         'rreal': z3.RealSort(), 'obj': Obj}


def sort_of(kind):
  return SORTS.get(kind, Obj)


# Injections of structured values into Obj (for storing them in opaque containers).
box_int = z3.Function('box_int', z3.IntSort(), Obj)
unbox_int = z3.Function('unbox_int', Obj, z3.IntSort())
box_bool = z3.Function('box_bool', z3.BoolSort(), Obj)
mk_pair = z3.Function('mk_pair', Obj, Obj, Obj)
pair_fst = z3.Function('pair_fst', Obj, Obj)
pair_snd = z3.Function('pair_snd', Obj, Obj)
none_obj = z3.Const('none_obj', Obj)


class InterpBase:

  def __init__(self, world, explorer, registry, prop=''):
    self.world = world
    self.ex = explorer
    self.reg = registry          # contracts.Registry
    self.prop = prop
    self.spec_mode = 0
    self.old_env = None
    self.cur_contract = None
    self.call_depth = 0
    self.module_stack = []
    self.inlined = set()
    self.used_contracts = set()
    self.dropped = set()
    self.ghost = {}              # ghost variables of the function under verification
    self.yield_log = None        # VMList when verifying a generator
    self.events = []             # ghost event log (calls of interest)
    self.obj_ids = []
    self.seq = 0                 # logical time of monitor-relevant events on this path
    self.last_cond_check = 0     # when the waited-for condition (queue empty / full) was last tested
    self.cond_checks = {}        # kind of wake-up condition ('content', 'stop') -> logical time it was last tested
    self.release_hooks = []      # callables(interp, lock) run whenever a lock is released (publication checks)
    self.call_log = []           # (callee short name, result) of contract calls that returned normally
    self.call_args_log = []      # (callee short name, parameter environment) of the same calls

  # ---- path helpers -----------------------------------------------------------------
  @property
  def path(self):
    return self.ex.cur

  def assume(self, b):
    self.path.assume(b)

  def branch(self, cond):
    if self.spec_mode:
      if isinstance(cond, bool):
        return cond
      c = z3.simplify(cond)
      if z3.is_true(c):
        return True
      if z3.is_false(c):
        return False
      raise Unsupported('branch in spec mode')
    return self.ex.branch(cond)

  def oblige(self, name, goal, kind='assert', info=None):
    p = self.path
    if isinstance(goal, bool):
      goal = z3.BoolVal(goal)
    o = Obligation(name, p.pc, goal, kind, info)
    o.loopfree = p.cut_loops == 0
    o.abstracted = p.abstracted > 0
    p.obls.append(o)
    p.pc.append(goal)     # proved once, assumed afterwards
    return o

  def fresh_int(self, base='i'):
    return z3.Int(self.path.fresh_name(base))

  def fresh_bool(self, base='b'):
    return z3.Bool(self.path.fresh_name(base))

  def fresh_obj(self, base='o'):
    return z3.Const(self.path.fresh_name(base), Obj)

  # ---- fresh symbolic values from type descriptors ------------------------------------
  def fresh(self, ty, name):
    ty = ty.strip()
    if ty.endswith('?'):
      inner = self.fresh(ty[:-1], name)
      if isinstance(inner, VObj) or isinstance(inner, (VMList, VList, VTuple, VIter, VMap, VLock)):
        # optional reference: decided by branching lazily -> use VOpt over it
        return VOpt(z3.Bool(self.path.fresh_name(name + '.isnone')), inner)
      return VOpt(z3.Bool(self.path.fresh_name(name + '.isnone')), inner)
    if ty.startswith('const:'):
      import ast as _ast
      c = _ast.literal_eval(ty[6:])
      return VStr(c) if isinstance(c, str) else (VBool(c) if isinstance(c, bool) else (VInt(c) if isinstance(c, int) else NONE))
    if ty == 'int':
      return VInt(z3.Int(self.path.fresh_name(name)))
    if ty == 'nat':
      t = z3.Int(self.path.fresh_name(name))
      self.assume(t >= 0)
      return VInt(t)
    if ty == 'bool':
      return VBool(z3.Bool(self.path.fresh_name(name)))
    if ty == 'real':
      return VReal(z3.Real(self.path.fresh_name(name)), z3.Bool(self.path.fresh_name(name + '.nan')))
    if ty == 'rreal':     # a real that is never NaN
      return VReal(z3.Real(self.path.fresh_name(name)), False)
    if ty == 'obj':
      return VOpaque(z3.Const(self.path.fresh_name(name), Obj))
    if ty == 'sized':     # opaque with a length
      t = z3.Const(self.path.fresh_name(name), Obj)
      self.assume(len_of(t) >= 0)
      return VOpaque(t)
    if ty == 'none':
      return NONE
    if ty == 'str':
      return VStr(None)
    if ty == 'exc':
      return VExc('UserError', [], sym=z3.Const(self.path.fresh_name(name), Obj))
    if ty == 'lock':
      return VLock(name)
    if ty == 'rlock':
      return VLock(name, reentrant=True)
    if ty == 'cond':
      return VLock(name, reentrant=True, cond=True)
    if ty.startswith('queue['):
      inner = self.fresh('list[' + ty[6:-1] + ']', name + '.q')
      cap = z3.Int(self.path.fresh_name(name + '.cap'))
      self.assume(cap >= 0)
      self.assume(z3.Or(cap == 0, inner.seq.n <= cap))
      return VQueue(inner, cap, name)
    if ty.startswith('seq[') or ty.startswith('list[') or ty.startswith('deque[') or ty.startswith('bdeque['):
      kind = ty[ty.index('[') + 1:-1]
      n = z3.Int(self.path.fresh_name(name + '.len'))
      self.assume(n >= 0)
      arr = z3.Array(self.path.fresh_name(name + '.arr'), z3.IntSort(), sort_of(kind))
      seq = VSeq(arr, n, kind)
      if ty.startswith('seq['):
        return seq
      d = VMList(seq, is_deque=ty.startswith('deque[') or ty.startswith('bdeque['))
      if ty.startswith('bdeque['):       # a deque that may be bounded: unbounded (-1) or bounded by a capacity it respects
        d.maxlen = z3.Int(self.path.fresh_name(name + '.maxlen'))
        self.assume(z3.And(d.maxlen >= -1, z3.Or(d.maxlen == -1, n <= d.maxlen)))
      return d
    if ty.startswith('iter['):
      kind = ty[5:-1]
      src = self.fresh(f'seq[{kind}]', name + '.src')
      pos = z3.Int(self.path.fresh_name(name + '.pos'))
      self.assume(pos >= 0)
      self.assume(pos <= src.n)
      fails = z3.Array(self.path.fresh_name(name + '.fails'), z3.IntSort(), z3.BoolSort())
      ret = VOpaque(z3.Const(self.path.fresh_name(name + '.ret'), Obj))
      return VIter(src, pos, fails, True, ret, tag=name)
    if ty.startswith('tuple['):
      parts = _split_top(ty[6:-1])
      return VTuple([self.fresh(p, f'{name}.{i}') for i, p in enumerate(parts)])
    if ty.startswith('map['):
      k, v = _split_top(ty[4:-1])
      return self.fresh_map(k, v, name)
    if ty.startswith('counter['):
      m = self.fresh_map(ty[8:-1], 'int', name)
      m.is_counter = True
      kk = z3.Const(self.path.fresh_name('k'), m.ksort)
      self.assume(z3.ForAll([kk], z3.Implies(z3.Select(m.has, kk), z3.Select(m.val, kk) >= 0)))
      self.assume((m.size == 0) == z3.ForAll([kk], z3.Not(z3.Select(m.has, kk))))      # cardinality fact: empty <=> no key
      return m
    if ty.startswith('omap['):
      k, v = _split_top(ty[5:-1])
      return self.fresh_map(k, v, name, ordered=True)
    schema = self.reg.classes.get(ty)
    if schema is not None:
      obj = VObj(ty, {}, frozen=schema.frozen, types=dict(schema.fields), tag=name)
      for fname, fty in schema.fields.items():
        if not schema.lazy.get(fname):
          obj.f[fname] = self.fresh(fty, f'{name}.{fname}')
      for inv in schema.invariant:
        self.assume(self.spec(inv, {'self': obj}))
      return obj
    raise Unsupported(f'unknown type descriptor {ty!r}')

  def fresh_map(self, k, v, name, ordered=False):
    ks = sort_of(k)
    has = z3.Array(self.path.fresh_name(name + '.has'), ks, z3.BoolSort())
    vopt = v.endswith('?')
    vk = v[:-1] if vopt else v
    val = z3.Array(self.path.fresh_name(name + '.val'), ks, sort_of(vk))
    none = z3.Array(self.path.fresh_name(name + '.none'), ks, z3.BoolSort()) if vopt else None
    stamp = clock = None
    if ordered:
      stamp = z3.Array(self.path.fresh_name(name + '.stamp'), ks, z3.IntSort())
      clock = z3.Int(self.path.fresh_name(name + '.clock'))
    size = z3.Int(self.path.fresh_name(name + '.size'))
    self.assume(size >= 0)
    return VMap(has, val, ks, vk, none=none, stamp=stamp, clock=clock, size=size)

  def fresh_like(self, v, name):
    """A fresh value of the same shape (used to havoc at loop heads)."""
    if isinstance(v, VInt):
      return VInt(z3.Int(self.path.fresh_name(name)))
    if isinstance(v, VBool):
      return VBool(z3.Bool(self.path.fresh_name(name)))
    if isinstance(v, VReal):
      return VReal(z3.Real(self.path.fresh_name(name)), z3.Bool(self.path.fresh_name(name + '.nan')))
    if isinstance(v, VOpaque):
      return VOpaque(z3.Const(self.path.fresh_name(name), Obj))
    if isinstance(v, VNoneT):
      return v
    if isinstance(v, VOpt):
      return VOpt(z3.Bool(self.path.fresh_name(name + '.isnone')), self.fresh_like(v.val, name))
    if isinstance(v, VSeq):
      n = z3.Int(self.path.fresh_name(name + '.len'))
      self.assume(n >= 0)
      return VSeq(z3.Array(self.path.fresh_name(name + '.arr'), z3.IntSort(), sort_of(v.kind)), n, v.kind)
    if isinstance(v, VTuple):
      return VTuple([self.fresh_like(x, f'{name}.{i}') for i, x in enumerate(v.items)])
    if isinstance(v, VVec):
      return VVec([self.fresh_like(x, f'{name}.{i}') for i, x in enumerate(v.items)])
    if isinstance(v, VList):       # a list of buffers: each becomes a fresh symbolic-length list
      return VList([self.fresh_like(x, f'{name}.{i}') for i, x in enumerate(v.items)])
    if isinstance(v, VMList):
      n = z3.Int(self.path.fresh_name(name + '.len'))
      self.assume(n >= 0)
      m = VMList(VSeq(z3.Array(self.path.fresh_name(name + '.arr'), z3.IntSort(), sort_of(v.seq.kind)), n, v.seq.kind), v.is_deque)
      if getattr(v, 'cat', None) is not None:
        m.cat = VOpaque(z3.Const(self.path.fresh_name(name + '.cat'), Obj))
        self.assume(len_of(m.cat.t) >= 0)
      return m
    if isinstance(v, (VStr, VFn, VClass, VModule, VExc)):
      return v
    raise Unsupported(f'cannot havoc a {type(v).__name__}')

  def havoc_in_place(self, v, name):
    """Havoc the mutable content of a heap value, keeping its identity."""
    if isinstance(v, VQueue):
      self.havoc_in_place(v.q, name + '.q')
      self.assume(z3.Or(v.cap == 0, v.q.seq.n <= v.cap))
    elif isinstance(v, VMList):
      v.seq = self.fresh_like(v.seq, name)
    elif isinstance(v, VIter):
      pos = z3.Int(self.path.fresh_name(name + '.pos'))
      self.assume(pos >= 0)
      self.assume(pos <= v.src.n)
      v.pos = pos
      if v.fails is not None:
        v.dead = z3.Bool(self.path.fresh_name(name + '.dead'))
    elif isinstance(v, VMap):
      m = self.fresh_map('x', 'x', name)
      ks = v.ksort
      v.has = z3.Array(self.path.fresh_name(name + '.has'), ks, z3.BoolSort())
      v.val = z3.Array(self.path.fresh_name(name + '.val'), ks, v.val.sort().range())
      if v.none is not None:
        v.none = z3.Array(self.path.fresh_name(name + '.none'), ks, z3.BoolSort())
      if v.stamp is not None:
        v.stamp = z3.Array(self.path.fresh_name(name + '.stamp'), ks, z3.IntSort())
        v.clock = z3.Int(self.path.fresh_name(name + '.clock'))
      v.size = m.size
    else:
      raise Unsupported(f'cannot havoc in place a {type(v).__name__}')

  # ---- conversions ------------------------------------------------------------------
  def raise_(self, cls, *args, cause=None):
    raise PyRaise(VExc(cls, list(args), cause=cause))

  def unopt(self, v, what='value'):
    """Use an optional as its payload; None raises TypeError on its own path."""
    if isinstance(v, VOpt):
      if self.spec_mode:
        return v.val
      if self.branch(v.isnone):
        self.raise_('TypeError', VStr(f'{what} is None'))
      return v.val
    return v

  def to_int(self, v):
    v = self.unopt(v)
    if isinstance(v, VInt):
      return v.t
    if isinstance(v, VBool):
      return z3.If(v.t, z3.IntVal(1), z3.IntVal(0))
    if isinstance(v, VNoneT):
      if self.spec_mode:
        # undefined term inside a specification (meant to be guarded): an unconstrained value
        return z3.Int(self.path.fresh_name('undef'))
      self.raise_('TypeError', VStr('None used as int'))
    raise Unsupported(f'to_int({type(v).__name__})')

  def is_num(self, v):
    return isinstance(v, (VInt, VBool, VReal)) or (isinstance(v, VOpt) and isinstance(v.val, (VInt, VReal)))

  def to_real(self, v):
    v = self.unopt(v)
    if isinstance(v, VReal):
      return v
    if isinstance(v, (VInt, VBool)):
      return VReal(z3.ToReal(self.to_int(v)), False)
    raise Unsupported(f'to_real({type(v).__name__})')

  def truth(self, v):
    """Python truthiness as a z3 Bool (or Python bool)."""
    if isinstance(v, VBool):
      return v.t
    if isinstance(v, VInt):
      return v.t != 0
    if isinstance(v, VReal):
      return z3.Or(v.nan, v.t != 0)
    if isinstance(v, VNoneT):
      return z3.BoolVal(False)
    if isinstance(v, VOpt):
      return z3.And(z3.Not(v.isnone), self.truth(v.val))
    if isinstance(v, VStr):
      if v.s is None:
        raise Unsupported('truthiness of opaque string')
      return z3.BoolVal(bool(v.s))
    if isinstance(v, (VTuple, VList)):
      return z3.BoolVal(bool(v.items))
    if isinstance(v, VDict):
      return z3.BoolVal(bool(v.d))
    if isinstance(v, VSeq):
      return v.n > 0
    if isinstance(v, VMList):
      return v.seq.n > 0
    if isinstance(v, VMap):
      return v.size > 0
    if isinstance(v, VOpaque):
      return truthy_of(v.t)
    if isinstance(v, VObj):
      mod, cls, m = self.world.method(v.cls, '__bool__')
      if m is not None:
        return self.truth(self.call_repo(mod, cls, m, [v], {}))
      mod, cls, m = self.world.method(v.cls, '__len__')
      if m is not None:
        return self.to_int(self.call_repo(mod, cls, m, [v], {})) != 0
      return z3.BoolVal(True)
    if isinstance(v, (VExc, VFn, VClass, VIter, VModule, VLock, VRange)):
      return z3.BoolVal(True)
    raise Unsupported(f'truth({type(v).__name__})')

  def to_obj(self, v):
    """Inject any value into the opaque sort (for storage in opaque containers)."""
    if isinstance(v, VOpaque):
      return v.t
    if isinstance(v, VInt):
      return box_int(v.t)
    if isinstance(v, VBool):
      return box_bool(v.t)
    if isinstance(v, VNoneT):
      return none_obj
    if isinstance(v, VExc) and v.sym is not None:
      return v.sym
    if isinstance(v, VStr) and v.s is not None:      # a string constant as an object: one constant per text
      return self.str_obj(v.s)
    if isinstance(v, VTuple) and not v.items:
      return z3.Const('obj.empty_tuple', Obj)
    if isinstance(v, VObj) and v.frozen and v.cls in self.reg.value_classes:
      # frozen dataclass compared and hashed by value: an injective constructor over its fields
      names = list(self.reg.value_classes[v.cls])
      args = [self.to_obj(self.getfield(v, n)) for n in names]
      mk = z3.Function(f'mk_{v.cls}', *([Obj] * (len(names) + 1)))
      done = getattr(self, '_value_axioms', None)
      if done is None:
        done = self._value_axioms = set()
      if v.cls not in done:          # injectivity, once per path: every field is a projection of the constructor
        done.add(v.cls)
        xs = [z3.Const(f'{v.cls}!x{i}', Obj) for i in range(len(names))]
        self.assume(z3.ForAll(xs, z3.And([z3.Function(f'{v.cls}_{n}', Obj, Obj)(mk(*xs)) == x for n, x in zip(names, xs)])))
      return mk(*args)
    if isinstance(v, VObj):         # heap objects: one identity constant each, pairwise distinct
      if '__id__' not in v.f:
        t = z3.Const(self.path.fresh_name(f'id.{v.cls}'), Obj)
        for other in self.obj_ids:
          self.assume(t != other)
        self.obj_ids.append(t)
        v.f['__id__'] = VOpaque(t)
      return v.f['__id__'].t
    if isinstance(v, VTuple) and len(v.items) >= 1:
      # right-nested pairs: (a, b, c) = pair(a, pair(b, pair(c, none)))
      rest = self.to_obj(VTuple(v.items[1:])) if len(v.items) > 1 else none_obj
      if len(v.items) == 2:
        rest = self.to_obj(v.items[1])
      a = self.to_obj(v.items[0])
      t = mk_pair(a, rest)
      self.assume(pair_fst(t) == a)
      self.assume(pair_snd(t) == rest)
      return t
    if isinstance(v, VOpt):
      return z3.If(v.isnone, none_obj, self.to_obj(v.val))
    raise Unsupported(f'to_obj({type(v).__name__})')

  def str_obj(self, text):
    known = getattr(self, '_str_objs', None)
    if known is None:
      known = self._str_objs = {}
    if text not in known:
      t = z3.Const(f'str.{text}', Obj)
      for other in known.values():
        self.assume(t != other)
      known[text] = t
    return known[text]

  def wrap(self, kind, t):
    if kind in ('int', 'nat'):
      return VInt(t)
    if kind == 'bool':
      return VBool(t)
    if kind in ('real', 'rreal'):
      return VReal(t, False)
    return VOpaque(t)

  def unwrap(self, kind, v):
    if kind in ('int', 'nat'):
      return self.to_int(v)
    if kind == 'bool':
      return self.truth(v) if not isinstance(v, VBool) else v.t
    if kind in ('real', 'rreal'):
      return self.to_real(v).t
    return self.to_obj(v)

  # ---- equality / identity -----------------------------------------------------------
  def eq(self, a, b):
    if isinstance(a, VOpt) or isinstance(b, VOpt):
      return self._eq_opt(a, b)
    if isinstance(a, VNoneT) or isinstance(b, VNoneT):
      return z3.BoolVal(isinstance(a, VNoneT) and isinstance(b, VNoneT))
    if isinstance(a, (VInt, VBool)) and isinstance(b, (VInt, VBool)):
      if isinstance(a, VBool) and isinstance(b, VBool):
        return a.t == b.t
      return self.to_int(a) == self.to_int(b)
    if isinstance(a, VReal) or isinstance(b, VReal):
      if self.is_num(a) and self.is_num(b):
        ra, rb = self.to_real(a), self.to_real(b)
        return z3.And(z3.Not(ra.nan), z3.Not(rb.nan), ra.t == rb.t)
      return z3.BoolVal(False)
    if isinstance(a, VStr) and isinstance(b, VStr):
      if a.s is None or b.s is None:
        raise Unsupported('opaque string equality')
      return z3.BoolVal(a.s == b.s)
    if isinstance(a, (VTuple, VList)) and isinstance(b, (VTuple, VList)):
      if type(a) is not type(b) or len(a.items) != len(b.items):
        return z3.BoolVal(False)
      return z3.And([self.eq(x, y) for x, y in zip(a.items, b.items)] or [z3.BoolVal(True)])
    if isinstance(a, VOpaque) and isinstance(b, VOpaque):
      return a.t == b.t
    if isinstance(a, VOpaque) or isinstance(b, VOpaque):
      return self.to_obj(a) == self.to_obj(b)
    if isinstance(a, VObj) and isinstance(b, VObj):
      if a is b:
        return z3.BoolVal(True)
      if a.cls != b.cls:
        return z3.BoolVal(False)
      if a.frozen and b.frozen:       # dataclass structural equality
        names = list(self.reg.classes[a.cls].fields) if a.cls in self.reg.classes else sorted(set(a.f) | set(b.f))
        return z3.And([self.eq(self.getfield(a, n), self.getfield(b, n)) for n in names] or [z3.BoolVal(True)])
      return z3.BoolVal(False)
    if isinstance(a, VSeq) and isinstance(b, VSeq):
      i = z3.Int(self.path.fresh_name('k'))
      return z3.And(a.n == b.n, z3.ForAll([i], z3.Implies(z3.And(0 <= i, i < a.n), a.arr[i] == b.arr[i])))
    if isinstance(a, VExc) and isinstance(b, VExc):
      return self.ident(a, b)
    if isinstance(a, VClass) and isinstance(b, VClass):
      return z3.BoolVal(a.name == b.name)
    if type(a) is not type(b):
      return z3.BoolVal(False)
    raise Unsupported(f'eq({type(a).__name__}, {type(b).__name__})')

  def _eq_opt(self, a, b):
    an = a.isnone if isinstance(a, VOpt) else z3.BoolVal(isinstance(a, VNoneT))
    bn = b.isnone if isinstance(b, VOpt) else z3.BoolVal(isinstance(b, VNoneT))
    av = a.val if isinstance(a, VOpt) else a
    bv = b.val if isinstance(b, VOpt) else b
    if isinstance(av, VNoneT) or isinstance(bv, VNoneT):
      return z3.And(an, bn)
    return z3.Or(z3.And(an, bn), z3.And(z3.Not(an), z3.Not(bn), self.eq(av, bv)))

  def ident(self, a, b):
    """`a is b`."""
    if isinstance(a, VOpt) or isinstance(b, VOpt):
      an = a.isnone if isinstance(a, VOpt) else z3.BoolVal(isinstance(a, VNoneT))
      bn = b.isnone if isinstance(b, VOpt) else z3.BoolVal(isinstance(b, VNoneT))
      av = a.val if isinstance(a, VOpt) else a
      bv = b.val if isinstance(b, VOpt) else b
      if isinstance(av, VNoneT) or isinstance(bv, VNoneT):
        return z3.And(an, bn)
      return z3.Or(z3.And(an, bn), z3.And(z3.Not(an), z3.Not(bn), self.ident(av, bv)))
    if isinstance(a, VNoneT) or isinstance(b, VNoneT):
      return z3.BoolVal(isinstance(a, VNoneT) and isinstance(b, VNoneT))
    if isinstance(a, VExc) and isinstance(b, VExc):
      if a is b:
        return z3.BoolVal(True)
      if a.sym is not None and b.sym is not None:
        return a.sym == b.sym
      return z3.BoolVal(False)
    if isinstance(a, VOpaque) and isinstance(b, VOpaque):
      return a.t == b.t
    if isinstance(a, VOpaque) or isinstance(b, VOpaque):
      try:
        return self.to_obj(a) == self.to_obj(b)
      except Unsupported:
        return z3.BoolVal(False)
    if isinstance(a, VBool) and isinstance(b, VBool):
      return a.t == b.t
    if isinstance(a, VInt) and isinstance(b, VInt):
      return a.t == b.t
    if isinstance(a, VStr) and isinstance(b, VStr) and a.s is not None and b.s is not None:
      return z3.BoolVal(a.s == b.s)
    if isinstance(a, VClass) and isinstance(b, VClass):
      return z3.BoolVal(a.name == b.name)
    if isinstance(a, VObj) and isinstance(b, VObj) and a is not b and not (a.frozen and a.cls in self.reg.value_classes):
      # a heap object and its pre-state snapshot (old(...)) share the identity constant
      ia, ib = a.f.get('__id__'), b.f.get('__id__')
      if ia is not None and ib is not None:
        return ia.t == ib.t
    return z3.BoolVal(a is b)

  def ite(self, c, a, b):
    """Merge two values of the same shape under condition c."""
    if isinstance(c, bool):
      return a if c else b
    if z3.is_true(c):
      return a
    if z3.is_false(c):
      return b
    if isinstance(a, VOpt) or isinstance(b, VOpt) or isinstance(a, VNoneT) or isinstance(b, VNoneT):
      an = a.isnone if isinstance(a, VOpt) else z3.BoolVal(isinstance(a, VNoneT))
      bn = b.isnone if isinstance(b, VOpt) else z3.BoolVal(isinstance(b, VNoneT))
      av = a.val if isinstance(a, VOpt) else a
      bv = b.val if isinstance(b, VOpt) else b
      if isinstance(av, VNoneT) and isinstance(bv, VNoneT):
        return NONE
      if isinstance(av, VNoneT):
        av = bv
      if isinstance(bv, VNoneT):
        bv = av
      return VOpt(z3.If(c, an, bn), self.ite(c, av, bv))
    if isinstance(a, VReal) or isinstance(b, VReal):
      ra, rb = self.to_real(a), self.to_real(b)
      return VReal(z3.If(c, ra.t, rb.t), z3.If(c, ra.nan, rb.nan))
    if isinstance(a, (VInt, VBool)) and isinstance(b, (VInt, VBool)):
      if isinstance(a, VBool) and isinstance(b, VBool):
        return VBool(z3.If(c, a.t, b.t))
      return VInt(z3.If(c, self.to_int(a), self.to_int(b)))
    if isinstance(a, VOpaque) and isinstance(b, VOpaque):
      return VOpaque(z3.If(c, a.t, b.t))
    if isinstance(a, VTuple) and isinstance(b, VTuple) and len(a.items) == len(b.items):
      return VTuple([self.ite(c, x, y) for x, y in zip(a.items, b.items)])
    if isinstance(a, VSeq) and isinstance(b, VSeq):
      return VSeq(z3.If(c, a.arr, b.arr), z3.If(c, a.n, b.n), a.kind)
    if a is b:
      return a
    if isinstance(a, VExc) and isinstance(b, VExc) and a.sym is not None and b.sym is not None and a.cls == b.cls:
      return VExc(a.cls, a.args, sym=z3.If(c, a.sym, b.sym))
    try:
      return VOpaque(z3.If(c, self.to_obj(a), self.to_obj(b)))
    except Unsupported:
      raise Unsupported(f'ite({type(a).__name__}, {type(b).__name__})')


def _split_top(s):
  parts, depth, cur = [], 0, ''
  for ch in s:
    if ch == '[':
      depth += 1
    elif ch == ']':
      depth -= 1
    if ch == ',' and depth == 0:
      parts.append(cur.strip())
      cur = ''
    else:
      cur += ch
  if cur.strip():
    parts.append(cur.strip())
  return parts
