"""Check driver: `python3-vt -m pyvc.check <Cxx> [--tier quick|thorough]`.

exit 0 held / 1 VIOLATION / 2 undecided / 3 checker broken (see DESIGN 1.7).
"""
import argparse
import json
import multiprocessing as mp
import os
import re
import subprocess
import sys
import time
import traceback

VERIF = os.path.dirname(os.path.dirname(os.path.abspath(__file__)))
REPO = os.environ.get('PYVC_REPO', '/repo')
NATIVE_PY = os.environ.get('PYVC_NATIVE_PY', '/venv/bin/python')


def _verify_one(args):
  kind, name, prop, timeout_ms = args[:4]
  recheck = len(args) > 4 and args[4]
  sys.path.insert(0, VERIF)
  from pyvc.world import World
  from pyvc.contracts import Registry
  from pyvc.engine import verify_function, prove_lemma
  try:
    R = Registry().load_dir(os.path.join(VERIF, 'contracts'), only=[prop])
    W = World(REPO)
    if kind == 'fn':
      c = [c for c in R.for_prop(prop) if c.key == name][0]
      bpath = os.path.join(VERIF, 'baseline', f'{prop}.json')
      alpha = (json.load(open(bpath)).get('alpha', {}) if os.path.exists(bpath) else {}).get(name)
      r = verify_function(W, R, c, prop, timeout_ms, recheck=recheck, sample=recheck, alpha=alpha)
      extra = dict(replay=c.replay, bounded=c.bounded, note=c.note)
    else:
      l = [l for l in R.lemmas if l.name == name and l.prop == prop][0]
      r = prove_lemma(W, R, l, prop, timeout_ms, recheck=recheck)
      extra = dict(replay=None, bounded=None, note=l.note)
    return dict(
        kind=kind, target=r.target, status=r.status, error=r.error, paths=r.paths, secs=round(r.secs, 3),
        hash=r.hash, lines=r.lines, alpha=getattr(r, 'alpha', None), alpha_map=getattr(r, 'alpha_map', {}), inlined=sorted(r.inlined), used_contracts=sorted(r.used_contracts),
        dropped=sorted(r.dropped), exits=r.exits, covers=r.covers, samples=getattr(r, 'samples', []), **extra,
        obligations=[dict(name=o.name, kind=o.kind, result=o.result, secs=round(o.secs, 4), backend=o.backend,
                          text=o.info.get('text'), loopfree=o.loopfree, abstracted=o.abstracted, cvc5=o.info.get('cvc5'),
                          witness=o.info.get('witness'), model=o.info.get('model')) for o in r.obligations])
  except Exception:   # pylint: disable=broad-exception-caught
    return dict(kind=kind, target=name, status='error', error=traceback.format_exc(), paths=0, secs=0, hash=None,
                lines=None, inlined=[], used_contracts=[], dropped=[], exits={}, covers=0, obligations=[],
                replay=None, bounded=None, note='')


def native(prop, fn, payload, timeout=1800):
  """Runs a function of /verif/replay/<prop>.py under the repo's interpreter."""
  cmd = [NATIVE_PY, os.path.join(VERIF, 'replay', 'run.py'), prop, fn]
  env = dict(os.environ, PYTHONPATH=REPO, PYVC_REPO=REPO)
  try:
    p = subprocess.run(cmd, input=json.dumps(payload), capture_output=True, text=True, timeout=timeout, env=env, cwd=REPO)
  except subprocess.TimeoutExpired:
    return dict(error='timeout')
  for line in reversed(p.stdout.strip().split('\n')):
    if line.startswith('{'):
      try:
        return json.loads(line)
      except json.JSONDecodeError:
        pass
  return dict(error=f'no result; rc={p.returncode}; stderr={p.stderr[-2000:]}')


def clause_id(name):
  return name


def load_known(prop):
  p = os.path.join(VERIF, 'known_findings.json')
  if not os.path.exists(p):
    return []
  # the property's own findings first; then those of other properties: a stand-in written for another property runs here
  # when a contract shared with that property loses its proof, and the same failing input is still that listed finding
  fs = json.load(open(p)).get('findings', [])
  return [f for f in fs if f['property'] == prop] + [f for f in fs if f['property'] != prop]


def matches_finding(f, viol):
  m = f.get('match', {})
  if m.get('check') and m['check'] != viol.get('check'):
    return False
  w = viol.get('witness') or {}
  expr = m.get('where')
  if expr:
    try:
      return bool(eval(expr, {'__builtins__': {'len': len, 'any': any, 'all': all, 'min': min, 'max': max, 'abs': abs, 'isinstance': isinstance, 'list': list, 'str': str, 'int': int, 'float': float, 'sorted': sorted, 'set': set, 'sum': sum}}, {'w': w}))
    except Exception:   # pylint: disable=broad-exception-caught
      return False
  return True


def main(argv=None):
  ap = argparse.ArgumentParser()
  ap.add_argument('prop')
  ap.add_argument('--tier', default=os.environ.get('VERIF_TIER', 'quick'))
  ap.add_argument('--update-baseline', action='store_true')
  ap.add_argument('--replay')
  ap.add_argument('--jobs', type=int, default=int(os.environ.get('PYVC_JOBS', '16')))
  ap.add_argument('-v', '--verbose', action='store_true')
  a = ap.parse_args(argv)
  prop, tier = a.prop, a.tier
  seed = int(os.environ.get('VERIF_SEED', '0') or 0)
  t0 = time.time()
  if a.replay:
    return do_replay(prop, a.replay)
  import shutil
  shutil.rmtree(os.path.join(VERIF, 'replays', prop), ignore_errors=True)     # replay files of earlier runs
  sys.path.insert(0, VERIF)
  from pyvc.contracts import Registry
  R = Registry().load_dir(os.path.join(VERIF, 'contracts'), only=[prop])
  timeout_ms = 20000 if tier == 'quick' else 120000
  recheck = tier == 'thorough'       # thorough: every z3-discharged obligation is re-proved by cvc5 on the SMT-LIB dump
  jobs = [('fn', c.key, prop, timeout_ms, recheck) for c in R.for_prop(prop)]
  jobs += [('lemma', l.name, prop, timeout_ms, recheck) for l in R.lemmas if l.prop == prop]
  if not jobs and not R.bounded_checks.get(prop):
    print(f'CHECKER-ERROR property={prop}: no contracts registered')
    return 3
  from pyvc.jobs import run_jobs
  def _lost(job, reason, kills):
    c = next((c for c in R.for_prop(prop) if c.key == job[1]), None) if job[0] == 'fn' else None
    return dict(kind=job[0], target=job[1], status='timeout', error=f'job abandoned: {reason}', paths=0, secs=0, hash=None, lines=None,
                inlined=[], used_contracts=[], dropped=[], exits={}, covers=0, obligations=[], replay=None,
                bounded=c.bounded if c is not None else None, note=c.note if c is not None else '')
  hard_limit = float(os.environ.get('PYVC_HARD_LIMIT_S', 600 if tier == 'quick' else 3600))
  results = run_jobs(_verify_one, jobs, min(a.jobs, max(1, len(jobs))), hard_limit, _lost) if jobs else []

  # ---- baseline of discharged clause ids ----------------------------------------------------
  bpath = os.path.join(VERIF, 'baseline', f'{prop}.json')
  discharged_ids = sorted({o['name'] for r in results for o in r['obligations'] if o['result'] == 'unsat'})
  all_ids = sorted({o['name'] for r in results for o in r['obligations']})
  if a.update_baseline:
    bad = [r for r in results if r['status'] != 'proved']
    if bad:        # never shrink the baseline to what happens to verify: fix the contract / engine first
      print(f'baseline NOT written: not proved: {[(r["target"], r["status"], (r["error"] or "")[:120]) for r in bad]}')
      return 3
    json.dump(dict(property=prop, clause_ids=discharged_ids,
                   functions={r['target']: r['hash'] for r in results},
                   alpha={r['target']: r['alpha'] for r in results if r.get('alpha')}), open(bpath, 'w'), indent=1)
    print(f'baseline written: {len(discharged_ids)} clause ids; not proved: {[(r["target"], r["status"]) for r in bad]}')
  baseline = json.load(open(bpath)) if os.path.exists(bpath) else None

  violations, proof_lost, undecided, broken, known_seen = [], [], [], [], []
  bounded_runs = []
  known = load_known(prop)

  def record_violation(v):
    for f in known:
      if matches_finding(f, v):
        if f['id'] not in [k['id'] for k in known_seen]:
          known_seen.append(f)
        return
    violations.append(v)

  def run_bounded(name, why):
    r = native(prop, name, dict(tier=tier, seed=seed))
    r['name'] = name
    r['why'] = why
    bounded_runs.append(r)
    if r.get('error'):
      undecided.append(f'bounded {name}: {r["error"][-400:]}')
      return None
    for v in r.get('violations', []):
      v['check'] = name
      record_violation(dict(check=name, obligation=why, witness=v.get('witness'), detail=v.get('detail'), kind='bounded-witness'))
    return r

  bounded_done = set()
  bounded_outcome = {}
  for r in results:
    if r['status'] in ('vacuous',):
      broken.append(f'{r["target"]}: {r["error"]}')
      continue
    if r['kind'] == 'fn' and r['status'] == 'proved' and baseline is not None:
      missing = [i for i in baseline['clause_ids'] if i.startswith(f'{prop}/{r["target"]}/') and i not in discharged_ids]
      if missing:
        r['status'] = 'failed'
        r['error'] = f'clauses of the baseline no longer generated: {missing[:3]}'
    if r['status'] == 'proved':
      continue
    failed = [o for o in r['obligations'] if o['result'] != 'unsat']
    decided = False
    # 1. replay the solver's counterexample on the real code
    if r.get('replay'):
      seen = set()
      for o in failed:
        if o['result'] != 'sat' or not o.get('witness'):
          continue
        key = json.dumps(o['witness'], sort_keys=True, default=str)
        if key in seen:
          continue
        seen.add(key)
        rr = native(prop, r['replay'], dict(witness=o['witness'], obligation=o['name']))
        if rr.get('violated'):
          record_violation(dict(check=r['replay'], obligation=o['name'], witness=o['witness'], detail=rr.get('detail'),
                                kind='replayed-counterexample', solver=dict(result=o['result'], backend=o['backend'], model=o.get('model'))))
          decided = True
          break
    # 2. bounded native search for a witness (run once per stand-in, its outcome is reused)
    def strict_failures():
      # an obligation that is discharged on the pinned tree (baseline) and now has a model (`sat`, not
      # `unknown`), on a path that used no abstraction of an opaque call
      # (a lock-discipline obligation only exists when the rule is broken: it counts when the function itself is in
      # the baseline, i.e. was free of such accesses on the pinned tree)
      fn_in_baseline = baseline is not None and any(i.startswith(f'{prop}/{r["target"]}/') for i in baseline['clause_ids'])
      return [o for o in failed if o['result'] == 'sat' and not o['abstracted'] and o['kind'] != 'impl-postcondition' and baseline is not None
              and (o['name'] in baseline['clause_ids'] or (o['kind'] == 'lock-discipline' and fn_in_baseline))]

    if not decided and r.get('bounded'):
      name = r['bounded']
      if name not in bounded_done:
        bounded_done.add(name)
        before = len(violations)
        br = run_bounded(name, f'{r["target"]}: {r["status"]}')
        bounded_outcome[name] = (br is not None, len(violations) > before)
      ran_ok, found = bounded_outcome.get(name, (False, False))
      if found:      # a witness that is not a listed known finding
        decided = True
      elif ran_ok:
        # a failed loop invariant alone says that the loop is no longer the one the sidecar invariant describes - a different
        # algorithm may keep the property - so with a stand-in that ran and found nothing it is a lost proof, not a violation
        strict = [o for o in strict_failures() if o['kind'] != 'loop-invariant']
        if strict:
          o = strict[0]
          record_violation(dict(check='obligation', obligation=o['name'], witness=o.get('witness'), kind='no-failing-input-found',
                                detail=f'{o["text"]}', solver=dict(result='sat', backend=o['backend'], model=o.get('model'),
                                                                 loop_free_path=o['loopfree'])))
        else:
          proof_lost.append(dict(target=r['target'], status=r['status'], error=(r['error'] or '')[:500],
                                 failed=[o['name'] for o in failed][:5], bounded=name))
        decided = True
    if not decided:
      strict = strict_failures()
      if strict:
        o = strict[0]
        record_violation(dict(check='obligation', obligation=o['name'], witness=o.get('witness'), kind='no-failing-input-found',
                              detail=f'{o["text"]}', solver=dict(result='sat', backend=o['backend'], model=o.get('model'),
                                                               loop_free_path=o['loopfree'])))
      elif r['kind'] == 'fn' and r['status'] in ('unsupported', 'failed', 'error') and R.bounded_checks.get(prop):
        # no stand-in is named for this function: the property's registered stand-ins (run below in any case) decide
        proof_lost.append(dict(target=r['target'], status=r['status'], error=(r['error'] or '')[:500],
                               failed=[o['name'] for o in failed][:5], bounded='(the stand-ins registered for the property)'))
      elif r['status'] == 'timeout':        # the solver hung and the job was killed: a lost proof, nothing is known against the code
        proof_lost.append(dict(target=r['target'], status=r['status'], error=(r['error'] or '')[:500], failed=[], bounded='(none)'))
      elif r['status'] in ('failed',) and r['kind'] == 'lemma':
        broken.append(f'lemma {r["target"]} no longer proves: {[o["name"] for o in failed][:3]}')
      else:
        undecided.append(f'{r["target"]}: {r["status"]}: {(r["error"] or "")[:300]} {[o["name"] for o in failed][:3]}')

  # ---- bounded stand-ins registered for the property (functions outside the verifier's reach)
  for name, desc in R.bounded_checks.get(prop, []):
    if name not in bounded_done:
      bounded_done.add(name)
      run_bounded(name, f'stand-in: {desc}')

  # ---- thorough: independent re-proof by cvc5 (done in the workers) and mutation self-test of the contracts ----
  cross = None
  mutation = None
  cpy = None
  if tier == 'thorough' and jobs:
    rechecked = [o for r in results for o in r['obligations'] if o['result'] == 'unsat' and o['backend'] != 'cvc5']
    agree = sum(1 for o in rechecked if o.get('cvc5') == 'unsat')
    disagree = [o['name'] for o in rechecked if o.get('cvc5') == 'sat']
    cross = dict(rechecked=len(rechecked), cvc5_unsat=agree, cvc5_no_answer=sum(1 for o in rechecked if o.get('cvc5') is None), cvc5_sat=disagree)
    for name in disagree:          # the two solvers contradict each other: nothing this run says can be trusted
      broken.append(f'z3 discharged {name} but cvc5 finds a model')
    # engine vs CPython: for every returning path of a function over scalars / flat records a model of the path
    # condition gives concrete inputs and the engine's predicted result; the real function is run natively on them
    work = [dict(target=r['target'].split('#')[0], inputs=s_['inputs'], predicted=s_['predicted'])
            for r in results if r['kind'] == 'fn' for s_ in r.get('samples', [])]
    if work:
      rr = native('crosscheck', 'crosscheck', dict(cases=work))
      cpy = dict(cases=len(work), agree=rr.get('agree'), skipped=rr.get('skipped'), disagree=rr.get('disagree', [])[:5], error=rr.get('error'))
      for d_ in rr.get('disagree', []):
        broken.append(f'engine and CPython disagree on {d_}')
    else:
      cpy = None
    try:
      sys.path.insert(0, os.path.join(VERIF, 'tools'))
      import mutation_selftest
      m = mutation_selftest.selftest(prop, cap=int(os.environ.get('PYVC_MUTANTS', '6')), timeout_ms=10000, jobs=a.jobs)
      mutation = dict(mutants=m['mutants'], killed=m['killed'],
                      survivors={k.split('::')[-1]: f['survivors'] for k, f in m['functions'].items() if f['survivors']})
    except Exception:   # pylint: disable=broad-exception-caught
      mutation = dict(error=traceback.format_exc()[-500:])
  wall = time.time() - t0
  n_obl = sum(len(r['obligations']) for r in results)
  n_dis = sum(1 for r in results for o in r['obligations'] if o['result'] == 'unsat')
  backends = {}
  for r in results:
    for o in r['obligations']:
      b = backends.setdefault(o['backend'] or 'none', dict(count=0, secs=0.0, max_secs=0.0))
      b['count'] += 1
      b['secs'] = round(b['secs'] + o['secs'], 3)
      b['max_secs'] = max(b['max_secs'], o['secs'])
  samples = []
  for r in results:
    for o in r['obligations'][:2]:
      samples.append(dict(obligation=o['name'], kind=o['kind'], clause=o['text'], result=o['result'], backend=o['backend'], secs=o['secs']))
  samples = samples[:12]

  # ---- replay files + verdict ------------------------------------------------------------------------
  rc = 0
  out_lines = []
  for f in known_seen:
    out_lines.append(f'KNOWN-FINDING: property={f["property"]} {f["id"]} {f["what"]}')
  for i, v in enumerate(violations):
    d = os.path.join(VERIF, 'replays', prop)
    os.makedirs(d, exist_ok=True)
    fn = re.sub(r'[^A-Za-z0-9_.-]+', '_', (v.get('obligation') or v['check']))[-120:]
    path = os.path.join(d, f'{fn}.{i}.json')
    json.dump(dict(property=prop, **v), open(path, 'w'), indent=1, default=str)
    suffix = ' no-failing-input-found' if v['kind'] == 'no-failing-input-found' else ''
    out_lines.append(f'VIOLATION property={prop} replay={path}{suffix}')
    rc = 1
  for pl in proof_lost:
    out_lines.append(f'PROOF-LOST property={prop} function={pl["target"]} status={pl["status"]} (bounded stand-in {pl["bounded"]} passed)')
  if rc == 0 and broken:
    for b in broken:
      out_lines.append(f'CHECKER-ERROR property={prop} {b}')
    rc = 3
  if rc == 0 and undecided:
    for u in undecided:
      out_lines.append(f'UNDECIDED property={prop} {u}')
    rc = 2

  # ---- evidence -----------------------------------------------------------------------------------------
  fully_proved = (n_obl > 0 and n_dis == n_obl and not proof_lost and not undecided and not broken
                  and all(r['status'] == 'proved' for r in results))
  bounded_summary = [dict(name=b['name'], why=b['why'], cases=b.get('cases'), bounds=b.get('bounds'),
                          exhaustive=b.get('exhaustive'), violations=len(b.get('violations', [])), error=b.get('error'))
                     for b in bounded_runs]
  trusted = list(R.trusted.get(prop, []))
  coverage = dict(
      obligations=n_obl, discharged=n_dis,
      checker_cmd=f'python3-vt -m pyvc.check {prop} --tier {tier}',
      trusted_base=trusted,
      samples=samples,
      functions=[dict(target=r['target'], kind=r['kind'], status=r['status'], lines=r['lines'], sha256_16=r['hash'],
                      paths=r['paths'], exits=r['exits'], obligations=len(r['obligations']),
                      discharged=sum(1 for o in r['obligations'] if o['result'] == 'unsat'),
                      inlined_real_code=r['inlined'], callee_contracts_used=r['used_contracts'],
                      dropped_by_extraction=r['dropped'], solver_secs=round(sum(o['secs'] for o in r['obligations']), 3),
                      note=r.get('note'), error=(r['error'] or None) and r['error'][:400],
                      solver_calls_abandoned_by_watchdog=r.get('watchdog_kills') or [],
                      contract_read_through_renaming_of_locals=r.get('alpha_map') or {}) for r in results],
      backends=backends,
      bounded=bounded_summary,
      vacuity=dict(functions_with_reachable_exit=sum(1 for r in results if r['covers'] > 0), functions=len(results)),
      baseline_clause_ids=len(baseline['clause_ids']) if baseline else None,
      clause_ids_now=len(all_ids),
      known_findings_seen=[f['id'] for f in known_seen],
      proof_lost=proof_lost, undecided=undecided,
  )
  if cross is not None:
    coverage['cvc5_cross_check'] = cross
  if mutation is not None:
    coverage['mutation_self_test'] = mutation
  if cpy is not None:
    coverage['cpython_cross_check'] = cpy
  level = 'proof'
  if not jobs:
    # no function of this property is under contract (yet): the bounded stand-ins are all there is
    level = 'exploration'
    nb = sum((b.get('cases') or 0) for b in bounded_runs)
    coverage['evaluations'] = max(1, nb)
    coverage['distinct_nontrivial'] = max(2, nb)
    coverage['rule'] = ('exhaustive small-scope enumeration of inputs by the native stand-ins listed under "bounded" (bounds given there); '
                        'every case is a distinct input by construction (no sampling with replacement) and exercises the real code against an independent oracle')
    coverage['samples'] = [dict(stand_in=b['name'], bounds=b.get('bounds'), cases=b.get('cases')) for b in bounded_runs] or [dict(none=True)]
    coverage['exhaustive'] = all(bool(b.get('exhaustive')) for b in bounded_runs) if bounded_runs else False
  elif not fully_proved:
    level = 'other'
    coverage['explanation'] = (
        'Deductive obligations discharged: %d of %d. ' % (n_dis, n_obl)
        + ('Known findings re-observed on this run: %s. ' % [f['id'] for f in known_seen] if known_seen else '')
        + ('Functions downgraded to their bounded stand-in on this run: %s. ' % [p['target'] for p in proof_lost] if proof_lost else '')
        + ('Undecided: %s. ' % undecided if undecided else ''))
    nb = sum((b.get('cases') or 0) for b in bounded_runs)
    coverage['evaluations'] = max(1, nb + n_obl)
    coverage['distinct_nontrivial'] = max(2, nb + n_dis)
  ev = dict(property_id=prop, tier=tier, seed=seed, level=level, coverage=coverage,
            assumptions=trusted, wall_s=round(wall, 2), violations=len(violations))
  os.makedirs(os.path.join(VERIF, 'evidence'), exist_ok=True)
  json.dump(ev, open(os.path.join(VERIF, 'evidence', f'{prop}.json'), 'w'), indent=1, default=str)
  for l in out_lines:
    print(l)
  print(f'{prop} [{tier}] functions={len(results)} obligations={n_obl} discharged={n_dis} '
        f'bounded_runs={len(bounded_runs)} violations={len(violations)} known={len(known_seen)} wall={wall:.1f}s exit={rc}')
  if a.verbose:
    for r in results:
      print(' ', r['target'], r['status'], r['paths'], r['secs'], (r['error'] or '')[:300])
      for o in r['obligations']:
        if o['result'] != 'unsat':
          print('     ', o['name'], o['result'], o.get('witness'))
  return rc


def do_replay(prop, path):
  d = json.load(open(path))
  if d.get('kind') == 'no-failing-input-found' or not d.get('witness') or d.get('check') == 'obligation':
    print(json.dumps(dict(replayed=False, reason='no failing input was found; the file carries the failed obligation and the solver output',
                          obligation=d.get('obligation'), solver=d.get('solver')), indent=1))
    return 1
  fn = d['check']
  if fn.startswith('bounded_'):
    r = native(prop, fn, dict(tier='quick', seed=0, only=d['witness']))
    print(json.dumps(r, indent=1, default=str))
    return 1 if r.get('violations') else 0
  r = native(prop, fn, dict(witness=d['witness'], obligation=d.get('obligation')))
  print(json.dumps(r, indent=1, default=str))
  return 1 if r.get('violated') else 0


if __name__ == '__main__':
  sys.exit(main())
