"""numpy / math models for the *pointwise* view of array code (assumption A3):
an array-valued expression is evaluated for one generic element; elementwise
numpy functions are the scalar functions below; reductions are uninterpreted."""
import ast
import z3
from .path import guarded_check

from .values import *   # pylint: disable=wildcard-import
from .path import Unsupported
from .interp import PyRaise

sqrt_fn = z3.Function('sqrt', z3.RealSort(), z3.RealSort())
log2_fn = z3.Function('log2', z3.RealSort(), z3.RealSort())
log_fn = z3.Function('log', z3.RealSort(), z3.RealSort())


class NumericMixin:

  def scalar_attr(self, v, name):
    """Attributes of numpy scalars / 0-d arrays in the pointwise view."""
    if name == 'ndim':
      return VInt(0)
    if name == 'size':
      return VInt(1)
    if name == 'shape':
      return VTuple([])
    if name in ('item', 'copy'):
      return VFn(name, impl=lambda it, a, k, _v=v: _v)
    if name == 'astype':
      def astype(it, a, k, _v=v):
        t = a[0]
        tn = t.name if isinstance(t, (VClass, VFn)) else (t.name.split('.')[-1] if isinstance(t, VModule) else None)
        if isinstance(_v, VBool):
          if tn and tn.startswith('float'):
            return VReal(z3.If(_v.t, z3.RealVal(1), z3.RealVal(0)), False)
          return VInt(z3.If(_v.t, z3.IntVal(1), z3.IntVal(0)))
        if isinstance(_v, VInt) and tn and tn.startswith('float'):
          return VReal(z3.ToReal(_v.t), False)
        return _v
      return VFn('astype', impl=astype)
    raise Unsupported(f'scalar attribute {name}')

  # ---- elementwise numpy --------------------------------------------------------------------
  def np_divide(self, it, a, k):
    x, y = self.to_real(a[0]), self.to_real(a[1])
    q = self.real_binop(ast.Div(), x, y)
    if 'where' in k:
      out = self.to_real(k['out']) if 'out' in k else VReal(self.path.fresh_name('uninit'), False)
      return self.ite(self.truth(k['where']), q, out)
    return q

  def np_zeros_like(self, it, a, k):
    return VReal(0, False)

  def np_ones_like(self, it, a, k):
    return VReal(1, False)

  def np_asarray(self, it, a, k):
    return a[0]

  np_array = np_asarray
  np_copy = np_asarray

  def np_isnan(self, it, a, k):
    v = self.unopt(a[0])
    if isinstance(v, VReal):
      return VBool(v.nan)
    return VBool(False)

  def _reduce_bool(self, this, is_any):
    """np.any / np.all over an array seen through one generic element: the other
    elements contribute an unknown Boolean, unless the facts that hold for every
    element alike (requires, callee postconditions, type facts - not the branch
    decisions taken for this element) already decide the generic element."""
    this = z3.simplify(this)
    if z3.is_true(this) or z3.is_false(this):
      return VBool(this)
    s = z3.Solver()
    s.set('timeout', 2000)
    for c in self.path.assumed:
      s.add(c)
    s.add(this if is_any else z3.Not(this))
    if guarded_check('reduce', s, 2000) == z3.unsat:
      return VBool(not is_any)       # impossible (any) / certain (all) for every element
    others = self.fresh_bool('other_elements')
    return VBool(z3.Or(this, others) if is_any else z3.And(this, others))

  def np_any(self, it, a, k):
    return self._reduce_bool(self.truth(a[0]), True)

  def np_all(self, it, a, k):
    return self._reduce_bool(self.truth(a[0]), False)

  def np_sqrt(self, it, a, k):
    """A3: sqrt(x) >= 0 and sqrt(x)^2 == x for x >= 0; NaN for x < 0."""
    x = self.to_real(a[0])
    r = sqrt_fn(x.t)
    self.assume(z3.Implies(x.t >= 0, z3.And(r >= 0, r * r == x.t)))
    return VReal(r, z3.Or(x.nan, x.t < 0))

  def np_where(self, it, a, k):
    c = self.truth(a[0])
    return self.ite(c, a[1], a[2])

  def np_min(self, it, a, k):
    """np.min over a tuple of (pointwise) operands: elementwise minimum, NaN propagates (A3)."""
    if isinstance(a[0], (VTuple, VList)):
      return self._minmax([a[0]], {}, True)
    raise Unsupported('np.min (reduction over an array axis)')

  def np_max(self, it, a, k):
    if isinstance(a[0], (VTuple, VList)):
      return self._minmax([a[0]], {}, False)
    raise Unsupported('np.max (reduction over an array axis)')

  def np_nanmin(self, it, a, k):
    """np.nanmin over a tuple of operands: NaN operands are ignored (NaN only when all are NaN)."""
    return self._nanminmax(a, True)

  def np_nanmax(self, it, a, k):
    return self._nanminmax(a, False)

  def _nanminmax(self, a, is_min):
    if not isinstance(a[0], (VTuple, VList)) or len(a[0].items) != 2:
      raise Unsupported('np.nanmin/nanmax (reduction)')
    x, y = (self.to_real(v) for v in a[0].items)
    c = (y.t < x.t) if is_min else (y.t > x.t)
    both = z3.If(c, y.t, x.t)
    return VReal(z3.If(x.nan, y.t, z3.If(y.nan, x.t, both)), z3.And(x.nan, y.nan))

  def np_fmin(self, it, a, k):        # elementwise, NaN-ignoring
    return self._nanminmax([VTuple([a[0], a[1]])], True)

  def np_fmax(self, it, a, k):
    return self._nanminmax([VTuple([a[0], a[1]])], False)

  def np_minimum(self, it, a, k):
    return self._minmax(a, k, True)

  def np_maximum(self, it, a, k):
    return self._minmax(a, k, False)

  def np_abs(self, it, a, k):
    return self.bi_abs(it, a, k)

  # elementwise logic: an operand counts as true when it is non-zero (NaN is non-zero)
  def np_logical_and(self, it, a, k):
    return VBool(z3.And(self.truth(a[0]), self.truth(a[1])))

  def np_logical_or(self, it, a, k):
    return VBool(z3.Or(self.truth(a[0]), self.truth(a[1])))

  def np_logical_xor(self, it, a, k):
    return VBool(z3.Xor(self.truth(a[0]), self.truth(a[1])))

  def np_logical_not(self, it, a, k):
    return VBool(z3.Not(self.truth(a[0])))

  def np_log2(self, it, a, k):
    x = self.to_real(a[0])
    return VReal(log2_fn(x.t), z3.Or(x.nan, x.t <= 0))

  def np_log(self, it, a, k):
    x = self.to_real(a[0])
    return VReal(log_fn(x.t), z3.Or(x.nan, x.t <= 0))

  def np_allclose(self, it, a, k):
    return VBool(self.eq(a[0], a[1]))

  def np_mean(self, it, a, k):
    raise Unsupported('np.mean (reduction)')
