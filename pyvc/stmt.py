"""Statement execution of the symbolic interpreter."""
import ast
import z3

from .values import *   # pylint: disable=wildcard-import
from .path import Unsupported, PathEnd
from .interp import PyRaise, ReturnSig, BreakSig, ContinueSig, exc_isinstance


class StmtMixin:

  def exec_block(self, stmts, env):
    for s in stmts:
      self.exec_stmt(s, env)

  def exec_stmt(self, node, env):
    m = getattr(self, 'st_' + type(node).__name__, None)
    if m is None:
      raise Unsupported(f'statement {type(node).__name__}')
    return m(node, env)

  # ---- simple statements ---------------------------------------------------------------
  def st_Pass(self, node, env):
    pass

  def st_Expr(self, node, env):
    if isinstance(node.value, ast.Constant):
      return        # docstring
    self.ev(node.value, env)

  def st_Return(self, node, env):
    raise ReturnSig(self.ev(node.value, env) if node.value else NONE)

  def st_Break(self, node, env):
    raise BreakSig()

  def st_Continue(self, node, env):
    raise ContinueSig()

  def st_Global(self, node, env):
    pass

  def st_Nonlocal(self, node, env):
    for n in node.names:
      env.setdefault('__nonlocal__', set()).add(n)

  def st_Assert(self, node, env):
    c = self.truth(self.ev(node.test, env))
    if self.branch(z3.Not(c)):
      # an `assert` states a belief of the developers that often rests on facts outside the model: an exit through it is
      # explored, but what fails on that path is not counted as a refutation of the property (abstraction counter)
      self.path.abstracted += 1
      self.raise_('AssertionError')

  def st_Assign(self, node, env):
    v = self.ev(node.value, env)
    for t in node.targets:
      self.assign_target(t, v, env)

  def st_AnnAssign(self, node, env):
    if node.value is not None:
      self.assign_target(node.target, self.ev(node.value, env), env)

  def st_AugAssign(self, node, env):
    t = node.target
    if isinstance(t, ast.Name):
      cur = self.lookup(t.id, env)
    elif isinstance(t, ast.Attribute):
      base = self.ev(t.value, env)
      cur = self.getattr_(base, t.attr)
    elif isinstance(t, ast.Subscript):
      base = self.ev(t.value, env)
      idx = self.ev(t.slice, env)
      cur = self.getitem(base, idx)
    else:
      raise Unsupported('augassign target')
    rhs = self.ev(node.value, env)
    if isinstance(cur, (VList, VMList)) and isinstance(node.op, ast.Add) and not isinstance(rhs, VVec):
      self.list_extend(cur, rhs)      # in-place +=
      return
    new = self.binop(node.op, cur, rhs)
    if isinstance(t, ast.Name):
      self.set_name(t.id, new, env)
    elif isinstance(t, ast.Attribute):
      self.setattr_(base, t.attr, new)
    else:
      self.setitem(base, idx, new)

  def set_name(self, name, v, env):
    nl = env.get('__nonlocal__')
    if nl and name in nl:
      e = env.get('__parent__')
      while e is not None:
        if name in e:
          e[name] = v
          return
        e = e.get('__parent__')
    env[name] = v

  def assign_target(self, t, v, env):
    if isinstance(t, ast.Name):
      self.set_name(t.id, v, env)
    elif isinstance(t, (ast.Tuple, ast.List)):
      items = self.unpack(v, len(t.elts))
      for tt, x in zip(t.elts, items):
        self.assign_target(tt, x, env)
    elif isinstance(t, ast.Attribute):
      self.setattr_(self.ev(t.value, env), t.attr, v)
    elif isinstance(t, ast.Subscript):
      self.setitem(self.ev(t.value, env), self.ev(t.slice, env), v)
    else:
      raise Unsupported(f'assignment target {type(t).__name__}')

  def unpack(self, v, n):
    v = self.unopt(v)
    if isinstance(v, (VTuple, VList)):
      if len(v.items) != n:
        self.raise_('ValueError', VStr('unpack mismatch'))
      return v.items
    if isinstance(v, (VMList, VSeq)):
      # a sequence of symbolic length unpacked into n targets: ValueError unless it has exactly n items
      sq = v.seq if isinstance(v, VMList) else v
      if self.branch(sq.n != n):
        self.raise_('ValueError', VStr('unpack mismatch'))
      return [self.wrap(sq.kind, z3.Select(sq.arr, i)) for i in range(n)]
    if isinstance(v, VOpaque) and n == 1:
      return [VOpaque(item_of(v.t, 0))]          # a one-element tuple of outputs
    if isinstance(v, VOpaque) and n == 2:
      # an opaque element that is unpacked into two is a pair (zip / enumerate / (output, input) tuples)
      from .interp import pair_fst, pair_snd
      return [VOpaque(pair_fst(v.t)), VOpaque(pair_snd(v.t))]
    raise Unsupported(f'unpack {type(v).__name__}')

  def st_Delete(self, node, env):
    for t in node.targets:
      if isinstance(t, ast.Subscript):
        self.delitem(self.ev(t.value, env), self.ev(t.slice, env))
      elif isinstance(t, ast.Name):
        env.pop(t.id, None)
      else:
        raise Unsupported('del target')

  def st_Raise(self, node, env):
    if node.exc is None:
      cur = env.get('__handling__')
      e = env
      while cur is None and e is not None:
        cur = e.get('__handling__')
        e = e.get('__parent__')
      if cur is None:
        raise Unsupported('bare raise outside handler')
      raise PyRaise(cur)
    exc = self.ev(node.exc, env)
    exc = self.unopt(exc)
    if isinstance(exc, VClass):
      exc = VExc(exc.name, [])
    if not isinstance(exc, VExc):
      raise Unsupported(f'raise of {type(exc).__name__}')
    if node.cause is not None:
      c = self.ev(node.cause, env)
      exc.cause = c
    raise PyRaise(exc)

  def st_FunctionDef(self, node, env):
    env[node.name] = VFn(node.name, node=node, module=self._module_of(env), closure=env)

  def st_Import(self, node, env):
    pass

  def st_ImportFrom(self, node, env):
    pass

  # ---- control flow ----------------------------------------------------------------------
  def st_If(self, node, env):
    c = self.truth(self.ev(node.test, env))
    if self.branch(c):
      self.exec_block(node.body, env)
    else:
      self.exec_block(node.orelse, env)

  def st_With(self, node, env):
    entered = []
    for item in node.items:
      cm = self.ev(item.context_expr, env)
      if isinstance(cm, VLock):
        self.lock_acquire(cm)
        entered.append(cm)
        if item.optional_vars is not None:
          self.assign_target(item.optional_vars, cm, env)
      else:
        raise Unsupported(f'with {type(cm).__name__}')
    try:
      self.exec_block(node.body, env)
    finally:
      for cm in reversed(entered):
        self.lock_release(cm, from_with=True)

  def st_Try(self, node, env):
    try:
      try:
        self.exec_block(node.body, env)
      except PyRaise as pr:
        exc = pr.exc
        for h in node.handlers:
          if self.handler_matches(h, exc, env):
            saved = env.get('__handling__')
            env['__handling__'] = exc
            if h.name:
              env[h.name] = exc
            try:
              try:
                self.exec_block(h.body, env)
              except PyRaise as pr2:
                if pr2.exc is not exc and pr2.exc.ctx is None:
                  pr2.exc.ctx = exc
                raise
            finally:
              env['__handling__'] = saved
            break
        else:
          raise
      else:
        self.exec_block(node.orelse, env)
    finally:
      # `finally` runs on every exit, including PathEnd (harmless) and Return.
      if node.finalbody:
        import sys
        et = sys.exc_info()[0]
        if et is None or not issubclass(et, (PathEnd, Unsupported)):
          self.exec_block(node.finalbody, env)

  def handler_matches(self, h, exc, env):
    if h.type is None:
      return True
    t = self.ev(h.type, env)
    names = []
    for c in (t.items if isinstance(t, VTuple) else [t]):
      if not isinstance(c, VClass):
        raise Unsupported('except of non-class')
      names.append(c.name)
    return any(self.exc_is(exc, n) for n in names)

  def exc_is(self, exc, clsname):
    """isinstance(exc, clsname) for exception values; symbolic user errors carry
    a symbolic 'is StopIteration' bit decided by branching."""
    if exc.cls == 'UserError' and exc.sym is not None and clsname in ('StopIteration',):
      from .calls import is_stop_fn
      return self.branch(is_stop_fn(exc.sym))
    return exc_isinstance(exc.cls, clsname)

  # ---- loops -------------------------------------------------------------------------------
  def loop_spec(self, node):
    c = self.cur_contract_for_loops
    if c is None:
      return None
    fn = self.cur_fn_node
    ordinal = None
    k = 0
    for n in ast.walk(fn):
      if isinstance(n, (ast.While, ast.For)):
        if n is node:
          ordinal = k
          break
        k += 1
    if ordinal is None:
      return None
    return c.loops.get(ordinal), ordinal

  def assigned_names(self, body):
    names, attrs, mutated = set(), set(), set()
    class Vis(ast.NodeVisitor):
      def visit_FunctionDef(s, n):   # do not descend into nested defs
        pass
      def visit_Lambda(s, n):
        pass
    for stmt in body:
      for n in ast.walk(stmt):
        if isinstance(n, (ast.Assign, ast.AugAssign, ast.AnnAssign, ast.For, ast.NamedExpr, ast.withitem, ast.comprehension)):
          tg = []
          if isinstance(n, ast.Assign):
            tg = n.targets
          elif isinstance(n, (ast.AugAssign, ast.AnnAssign, ast.For, ast.NamedExpr, ast.comprehension)):
            tg = [n.target]
          elif isinstance(n, ast.withitem) and n.optional_vars is not None:
            tg = [n.optional_vars]
          for t in tg:
            for x in ast.walk(t):
              if isinstance(x, ast.Name) and isinstance(x.ctx, ast.Store):
                names.add(x.id)
              elif isinstance(x, ast.Attribute) and isinstance(x.ctx, ast.Store):
                attrs.add(x.attr)
              elif isinstance(x, ast.Subscript) and isinstance(x.ctx, ast.Store):
                mutated.add(ast.unparse(x.value))
        elif isinstance(n, ast.ExceptHandler) and n.name:
          names.add(n.name)
        elif isinstance(n, ast.Call) and isinstance(n.func, ast.Attribute):
          if n.func.attr in ('append', 'extend', 'popleft', 'pop', 'clear', 'appendleft', 'update', 'move_to_end', 'add', 'discard', 'remove', 'insert'):
            mutated.add(ast.unparse(n.func.value))
        elif isinstance(n, ast.Call) and isinstance(n.func, ast.Name) and n.func.id == 'next' and n.args:
          mutated.add(ast.unparse(n.args[0]))
    return names, attrs, mutated

  def havoc_loop(self, node, env, spec, extra_names=()):
    names, attrs, mutated = self.assigned_names(node.body + node.orelse)
    names |= set(extra_names)
    amap = self.__dict__.get('alpha_map') or {}
    if spec and amap:
      spec = dict(spec)
      if spec.get('havoc'):
        spec['havoc'] = [amap.get(n, n) for n in spec['havoc']]
      if spec.get('retype'):
        spec['retype'] = {amap.get(n, n): t for n, t in spec['retype'].items()}
    if spec:
      names |= set(spec.get('havoc', ()))
      attrs |= set(spec.get('havoc_attrs', ()))
      mutated |= set(spec.get('havoc_objs', ()))
    retype = (spec or {}).get('retype', {})
    for nme in sorted(names):
      if nme in retype:
        env[nme] = self.fresh(retype[nme], f'{nme}@loop')
      elif nme in env:
        v = env[nme]
        if isinstance(v, VList) and v.items and all(isinstance(x, VList) for x in v.items):
          for x in v.items:       # a list of buffers that the loop grows
            self.promote_list(x, track_cat=True)
        env[nme] = self.fresh_like(env[nme], f'{nme}@loop')
    # attribute writes: havoc that field on every heap object reachable from env
    if attrs or (spec and spec.get('calls_modify')):
      seen = set()
      for v in list(env.values()):
        self._havoc_attrs(v, attrs, seen)
    for expr in sorted(mutated):
      try:
        from .expr import parse_expr
        target = self.ev(parse_expr(expr), env)
      except (Unsupported, PyRaise):
        continue
      if isinstance(target, VOpt):
        target = target.val
      if isinstance(target, (VMList, VIter, VMap, VQueue)):
        self.havoc_in_place(target, expr + '@loop')
      elif isinstance(target, VList):
        self.promote_list(target)
        self.havoc_in_place(target, expr + '@loop')
    for g in (spec or {}).get('havoc_ghost', ()):
      if isinstance(self.ghost[g], (VMList, VIter, VMap, VQueue)):
        self.havoc_in_place(self.ghost[g], g + '@loop')
      else:
        self.ghost[g] = self.fresh_like(self.ghost[g], g + '@loop')
    if self.yield_log is not None:
      self.havoc_in_place(self.yield_log, 'out@loop')

  def promote_list(self, lst, track_cat=False):
    """A concrete-length list that a loop mutates becomes a symbolic-length list (same identity).
    With track_cat the list of chunks carries a ghost `cat`: the concatenation of its chunks."""
    arr = z3.K(z3.IntSort(), self.to_obj(NONE))
    items = list(lst.items)
    for i, x in enumerate(items):
      arr = z3.Store(arr, i, self.to_obj(x))
    n = len(items)
    del lst.items
    lst.__class__ = VMList
    lst.seq = VSeq(arr, z3.IntVal(n), 'obj')
    lst.is_deque = False
    if track_cat:
      lst.cat = self.empty_cat()
      for x in items:
        lst.cat = self.cat_append(lst.cat, x)

  def empty_cat(self):
    t = z3.Const(self.path.fresh_name('cat0'), Obj)
    self.assume(len_of(t) == 0)
    return VOpaque(t)

  def cat_append(self, cat, x):
    """ghost concatenation cat ++ x (x a sized opaque chunk): lengths add, items are kept in order."""
    xt = self.to_obj(x)
    t = z3.Const(self.path.fresh_name('cat'), Obj)
    j = z3.Int(self.path.fresh_name('j'))
    n0 = len_of(cat.t)
    self.assume(len_of(t) == n0 + len_of(xt))
    self.assume(z3.ForAll([j], z3.Implies(z3.And(0 <= j, j < n0), item_of(t, j) == item_of(cat.t, j))))
    self.assume(z3.ForAll([j], z3.Implies(z3.And(0 <= j, j < len_of(xt)), item_of(t, n0 + j) == item_of(xt, j))))
    return VOpaque(t)

  def _havoc_attrs(self, v, attrs, seen):
    if isinstance(v, VOpt):
      v = v.val
    if isinstance(v, VObj):
      if id(v) in seen:
        return
      seen.add(id(v))
      for a in list(v.f):
        if a in attrs and not v.frozen:
          fv = v.f[a]
          if isinstance(fv, (VMList, VIter, VMap, VQueue)):
            self.havoc_in_place(fv, f'{v.tag}.{a}@loop')
          else:
            v.f[a] = self.fresh_like(fv, f'{v.tag}.{a}@loop')
        else:
          self._havoc_attrs(v.f[a], attrs, seen)
    elif isinstance(v, (VTuple, VList)):
      for x in v.items:
        self._havoc_attrs(x, attrs, seen)

  def check_invariants(self, spec, env, ordinal, when):
    for k, inv in enumerate(spec.get('invariant', ())):
      g = self.spec(inv, env, self.entry_old)
      self.oblige(f'{self.cur_name}/loop{ordinal}/invariant#{k}/{when}', g, 'loop-invariant', {'text': inv})

  def st_While(self, node, env):
    ls = self.loop_spec(node)
    spec, ordinal = ls if ls else (None, -1)
    if spec is None:
      return self.unrolled_while(node, env)
    self.check_invariants(spec, env, ordinal, 'entry')
    self.havoc_loop(node, env, spec)
    self.path.cut_loops += 1
    for inv in spec.get('invariant', ()):
      self.assume(self.spec(inv, env, self.entry_old))
    dec0 = self.spec_val(spec['decreases'], env, self.entry_old) if spec.get('decreases') else None
    c = self.truth(self.ev(node.test, env))
    if self.branch(c):
      try:
        self.exec_block(node.body, env)
      except BreakSig:
        return
      except ContinueSig:
        pass
      self.check_invariants(spec, env, ordinal, 'preserved')
      if dec0 is not None:
        dec1 = self.spec_val(spec['decreases'], env, self.entry_old)
        self.oblige(f'{self.cur_name}/loop{ordinal}/decreases',
                    z3.And(self.to_int(dec0) >= 0, self.to_int(dec1) < self.to_int(dec0)), 'decreases')
      raise PathEnd()
    self.exec_block(node.orelse, env)

  def unrolled_while(self, node, env, bound=8):
    """No invariant given: unroll while the condition is decided concretely."""
    for _ in range(bound):
      c = z3.simplify(self.truth(self.ev(node.test, env)))
      if z3.is_false(c):
        self.exec_block(node.orelse, env)
        return
      if not z3.is_true(c):
        raise Unsupported(f'while loop without invariant in {self.cur_name} (line {node.lineno})')
      try:
        self.exec_block(node.body, env)
      except BreakSig:
        return
      except ContinueSig:
        continue
    raise Unsupported('unroll bound exceeded')

  def st_For(self, node, env):
    it = self.ev(node.iter, env)
    it = self.unopt(it)
    ls = self.loop_spec(node)
    spec, ordinal = ls if ls else (None, -1)
    # concrete iterables: unroll
    concrete = None
    if spec is None:
      try:
        concrete = self.iter_concrete(it)
      except Unsupported:
        concrete = None
    if concrete is not None:
      for x in concrete:
        self.assign_target(node.target, x, env)
        try:
          self.exec_block(node.body, env)
        except BreakSig:
          return
        except ContinueSig:
          continue
      self.exec_block(node.orelse, env)
      return
    if spec is None:
      raise Unsupported(f'for loop without invariant in {self.cur_name} (line {node.lineno})')
    if isinstance(it, VRange):
      return self.for_range(node, env, it, spec, ordinal)
    if isinstance(it, (VSeq, VMList)):
      s = it.seq if isinstance(it, VMList) else it
      return self.for_range(node, env, VRange(z3.IntVal(0), s.n), spec, ordinal, seq=s)
    if isinstance(it, VZip):
      return self.for_zip(node, env, it, spec, ordinal)
    if isinstance(it, VIter) and it.fails is None and it.wrap_fn is None:
      # the rest of a fault-free iterator: its elements from the current position on; it is exhausted afterwards
      lo, n = it.pos, it.src.n
      it.pos = n
      return self.for_range(node, env, VRange(lo, n), spec, ordinal, seq=it.src)
    raise Unsupported(f'for over {type(it).__name__}')

  def for_zip(self, node, env, zp, spec, ordinal):
    """for x in zip(it_0, ..., it_k, strict=True) over fresh iterators (pos 0): the element of round t
    is the tuple of the t-th elements; with strict unequal lengths raise ValueError at the end."""
    if isinstance(node.target, ast.Name):
      tname = node.target.id
    elif isinstance(node.target, ast.Tuple) and node.target.elts and isinstance(node.target.elts[0], ast.Name):
      tname = node.target.elts[0].id          # `for a, b in zip(...)`: the index ghost is idx_a
    else:
      raise Unsupported('for-zip target')
    if not zp.its:
      self.exec_block(node.orelse, env)
      return
    var = f'idx_{tname}'
    n0 = zp.its[0].src.n
    env[var] = VInt(0)
    self.check_invariants(spec, env, ordinal, 'entry')
    self.havoc_loop(node, env, spec, extra_names=[var])
    self.path.cut_loops += 1
    i = self.to_int(env[var])
    self.assume(i >= 0)
    shortest = n0
    for it_ in zp.its[1:]:
      shortest = z3.If(it_.src.n < shortest, it_.src.n, shortest)
    self.assume(i <= shortest)
    for inv in spec.get('invariant', ()):
      self.assume(self.spec(inv, env, self.entry_old))
    if self.branch(i < shortest):
      elems = []
      for it_ in zp.its:
        ev_ = self.wrap(it_.src.kind, z3.Select(it_.src.arr, i))
        if it_.on_elem is not None:
          it_.on_elem(i, ev_)
        elems.append(ev_)
      self.assign_target(node.target, VTuple(elems), env)
      try:
        self.exec_block(node.body, env)
      except BreakSig:
        return
      except ContinueSig:
        pass
      env[var] = VInt(i + 1)
      self.check_invariants(spec, env, ordinal, 'preserved')
      raise PathEnd()
    if zp.strict:
      same = z3.And([it_.src.n == n0 for it_ in zp.its[1:]] or [z3.BoolVal(True)])
      if self.branch(z3.Not(same)):
        self.raise_('ValueError', VStr('zip() arguments have different lengths'))
    self.exec_block(node.orelse, env)

  def for_range(self, node, env, rng, spec, ordinal, seq=None):
    """for x in range(lo, hi): cut at the invariant; in invariants the loop
    variable denotes the index of the *next* iteration."""
    if isinstance(node.target, ast.Name):
      tname = node.target.id
    elif seq is not None and isinstance(node.target, ast.Tuple) and node.target.elts and isinstance(node.target.elts[0], ast.Name):
      tname = node.target.elts[0].id        # `for a, b in seq_of_pairs`: the index ghost is idx_a
    else:
      raise Unsupported('for-range target')
    var = tname if seq is None else f'idx_{tname}'
    had = env.get(tname)
    env[var] = VInt(rng.lo)
    self.check_invariants(spec, env, ordinal, 'entry')
    self.havoc_loop(node, env, spec, extra_names=[var])
    self.path.cut_loops += 1
    i = self.to_int(env[var])
    self.assume(i >= rng.lo)
    self.assume(z3.Or(i <= rng.hi, i == rng.lo))
    for inv in spec.get('invariant', ()):
      self.assume(self.spec(inv, env, self.entry_old))
    if self.branch(i < rng.hi):
      if seq is not None:
        self.assign_target(node.target, self.wrap(seq.kind, z3.Select(seq.arr, i)), env)
      try:
        self.exec_block(node.body, env)
      except BreakSig:
        return
      except ContinueSig:
        pass
      env[var] = VInt(i + 1)
      self.check_invariants(spec, env, ordinal, 'preserved')
      raise PathEnd()
    # loop finished: python leaves the last value in the loop variable
    if seq is None:
      if had is not None:
        env[var] = self.ite(rng.hi > rng.lo, VInt(rng.hi - 1), had)
      else:
        env[var] = VInt(rng.hi - 1)
    self.exec_block(node.orelse, env)

  def st_Match(self, node, env):
    subj = self.ev(node.subject, env)
    for case in node.cases:
      e2 = env
      if self.match_pattern(case.pattern, subj, e2):
        if case.guard is not None and not self.branch(self.truth(self.ev(case.guard, e2))):
          continue
        self.exec_block(case.body, e2)
        return

  def match_pattern(self, pat, subj, env):
    if isinstance(pat, ast.MatchAs):
      if pat.pattern is not None and not self.match_pattern(pat.pattern, subj, env):
        return False
      if pat.name:
        env[pat.name] = subj
      return True
    if isinstance(pat, ast.MatchValue):
      return self.branch(self.eq(subj, self.ev(pat.value, env)))
    if isinstance(pat, ast.MatchSingleton):
      return self.branch(self.ident(subj, self.ev(ast.Constant(pat.value), env)))
    if isinstance(pat, ast.MatchOr):
      return any(self.match_pattern(p, subj, env) for p in pat.patterns)
    raise Unsupported(f'match pattern {type(pat).__name__}')
