"""Call dispatch: repository functions (by contract or inlined), classes, builtins."""
import ast
import z3
from .path import guarded_check

from .values import *   # pylint: disable=wildcard-import
from .path import Unsupported, PathEnd
from .interp import PyRaise, ReturnSig, exc_isinstance, EXC_PARENT, sort_of, none_obj
from .calls import VFirstKeyIter, is_stop_fn, LOG_FUNCS
from .values import VSuper, VPartial, VVec, VZip
from . import world as world_mod

MAX_DEPTH = 40


class Call2Mixin:

  def call_node(self, node, env):
    # special forms in specs
    if isinstance(node.func, ast.Name):
      sf = getattr(self, 'sf_' + node.func.id, None)
      if sf is not None and (self.spec_mode or node.func.id in ('isinstance', 'hasattr', 'super')) and not (
          node.func.id in env):
        return sf(node, env)
    # logging.* calls are dropped (no effect on state)
    if isinstance(node.func, ast.Attribute) and isinstance(node.func.value, ast.Name) \
        and node.func.value.id == 'logging' and node.func.attr in LOG_FUNCS:
      self.dropped.add('logging')
      return NONE
    f = self.ev(node.func, env)
    args = []
    for a in node.args:
      if isinstance(a, ast.Starred):
        sv = self.unopt(self.ev(a.value, env))
        if isinstance(sv, VMList) or isinstance(sv, VSeq):
          args.append(('*', sv))
        else:
          args.extend(self.iter_concrete(sv))
      else:
        args.append(self.ev(a, env))
    kwargs = {}
    for kw in node.keywords:
      if kw.arg is None:
        d = self.ev(kw.value, env)
        if not isinstance(d, VDict):
          raise Unsupported('**kwargs of non-concrete dict')
        kwargs.update(d.d)
      else:
        kwargs[kw.arg] = self.ev(kw.value, env)
    return self.call_value(f, args, kwargs)

  def call_value(self, f, args, kwargs):
    f = self.unopt(f)
    if isinstance(f, VFn):
      if f.impl is not None:
        return f.impl(self, args, kwargs)
      a = ([f.bound] if f.bound is not None else []) + list(args)
      return self.call_repo(f.module, f.cls, f.node, a, kwargs, closure=f.closure)
    if isinstance(f, VPartial):
      return self.call_value(f.fn, list(f.args) + list(args), dict(f.kwargs, **kwargs))
    if isinstance(f, VClass):
      return self.instantiate(f, args, kwargs)
    if isinstance(f, VOpaque):
      if kwargs:
        # keyword arguments of an uninterpreted callable: passed as (name, value) pairs in name order
        extra = []
        for name in sorted(kwargs):
          extra.extend([VStr(f'kw:{name}'), kwargs[name]])
        return self.call_opaque(f, list(args) + extra, {})
      return self.call_opaque(f, args, kwargs)
    if isinstance(f, VObj):
      mod, cls, m = self.world.method(f.cls, '__call__')
      if m is not None:
        return self.call_method(f, mod, cls, m, args, kwargs)
    raise Unsupported(f'call of {type(f).__name__}')

  def call_method(self, obj, mod, cls, m, args, kwargs):
    return self.call_repo(mod, cls, m, [obj] + list(args), kwargs)

  def qualname(self, mod, cls, node):
    q = (cls.name + '.' if cls is not None else '') + getattr(node, 'name', '<lambda>')
    return f'{mod.relpath}::{q}' if mod is not None else q

  def call_repo(self, mod, cls, node, args, kwargs, closure=None):
    qn = self.qualname(mod, cls, node)
    c = self.reg.contract_for(qn, self.prop, (self, args, kwargs))
    if c is not None and not c.inline and not (self.verifying == qn and self.call_depth == 0):
      return self.apply_contract(c, mod, cls, node, args, kwargs)
    if self.call_depth > MAX_DEPTH:
      raise Unsupported(f'call depth exceeded at {qn}')
    if isinstance(node, ast.Lambda):
      env = self.bind_params(node.args, args, kwargs, mod, closure)
      return self.ev(node.body, env)
    if isinstance(node, ast.AsyncFunctionDef):
      raise Unsupported('async function')
    if any(isinstance(n, (ast.Yield, ast.YieldFrom)) for n in _walk_fn(node)) and not (self.verifying == qn and self.call_depth == 0):
      raise Unsupported(f'call of generator function {qn} without contract')
    self.inlined.add(qn)
    env = self.bind_params(node.args, args, kwargs, mod, closure)
    if cls is not None:
      env['__class_node__'] = cls
    self.call_depth += 1
    if self.call_depth == 1:
      self.top_env = env             # locals of the function under verification (for at_wait clauses)
    self.module_stack.append(mod)
    try:
      try:
        self.exec_block(node.body, env)
      except ReturnSig as r:
        return r.value
      return NONE
    finally:
      self.module_stack.pop()
      self.call_depth -= 1

  def bind_params(self, a, args, kwargs, mod, closure=None):
    env = {'__module__': mod}
    if closure is not None:
      env['__parent__'] = closure
    kwargs = dict(kwargs)
    pos = list(a.posonlyargs) + list(a.args)
    defaults = [None] * (len(pos) - len(a.defaults)) + list(a.defaults)
    args = list(args)
    star_sym = [x for x in args if isinstance(x, tuple) and x and x[0] == '*']
    if star_sym:
      if a.vararg is None or len(args) != len(pos) + 1 and not (len(args) >= 1 and args[-1] is star_sym[0]):
        pass
    i = 0
    for p, d in zip(pos, defaults):
      if i < len(args) and not (isinstance(args[i], tuple) and args[i] and args[i][0] == '*'):
        env[p.arg] = args[i]
        i += 1
      elif p.arg in kwargs:
        env[p.arg] = kwargs.pop(p.arg)
      elif d is not None:
        env[p.arg] = self.ev(d, {'__module__': mod})
      else:
        raise PyRaise(VExc('TypeError', [VStr(f'missing argument {p.arg}')]))
    rest = args[i:]
    if a.vararg is not None:
      if len(rest) == 1 and isinstance(rest[0], tuple) and rest[0][0] == '*':
        env[a.vararg.arg] = rest[0][1]         # symbolic-length *args
      else:
        env[a.vararg.arg] = VTuple(rest)
    elif rest:
      raise PyRaise(VExc('TypeError', [VStr('too many positional arguments')]))
    for p, d in zip(a.kwonlyargs, a.kw_defaults):
      if p.arg in kwargs:
        env[p.arg] = kwargs.pop(p.arg)
      elif d is not None:
        env[p.arg] = self.ev(d, {'__module__': mod})
      else:
        raise PyRaise(VExc('TypeError', [VStr(f'missing keyword argument {p.arg}')]))
    if a.kwarg is not None:
      env[a.kwarg.arg] = VDict(kwargs)
    elif kwargs:
      raise PyRaise(VExc('TypeError', [VStr(f'unexpected keyword {list(kwargs)}')]))
    return env

  # ---- contracts at call sites --------------------------------------------------------------
  def apply_contract(self, c, mod, cls, node, args, kwargs):
    self.used_contracts.add(c.target)
    env = self.bind_params(node.args, args, kwargs, mod)
    env = {k: v for k, v in env.items() if not k.startswith('__')}
    site = f'{self.cur_name}/call:{c.short}'
    for g, fn in c.site_ghost.items():      # ghost arguments chosen by the call site (checked by the requires below)
      env[g] = fn(self, env)
    for k, r in enumerate(c.requires):
      self.oblige(f'{site}/requires#{k}', self.spec(r, env), 'call-precondition', {'text': r})
    old = self.snapshot(env)
    # exceptional behaviour
    for exc, cond in c.raises.items():
      if self.spec_mode:        # a call inside a specification must not raise
        self.oblige(f'{site}/does-not-raise[{exc}]', z3.Not(self.spec(cond, env)), 'call-precondition', {'text': f'not ({cond})'})
      elif self.branch(self.spec(cond, env)):
        self.raise_(exc, VStr(f'{c.short} raises {exc}'))
    for exc in c.may_raise:
      if not self.spec_mode and self.branch(self.fresh_bool(f'{c.short}.raises.{exc}')):
        self.raise_(exc, VStr(f'{c.short} may raise {exc}'))
    for exc, cond in c.raises_unless.items():
      ct = self.spec(cond, env)
      sv = z3.Solver()
      sv.set('timeout', 2000)
      for f in self.path.assumed:
        sv.add(f)
      sv.add(z3.Not(ct))
      if guarded_check('raises-unless', sv, 2000) != z3.unsat:        # not guaranteed for every element: the call may raise
        if not self.spec_mode and self.branch(self.fresh_bool(f'{c.short}.raises.{exc}')):
          self.raise_(exc, VStr(f'{c.short} may raise {exc}'))
      self.assume(ct)                   # a normal return implies the condition
    # exceptional exits described by raises_ensures: the call may raise exc; then its exceptional
    # postconditions hold for the (havocked) state
    if not self.spec_mode:
      for exc, posts in c.raises_ensures.items():
        if exc in c.raises:
          continue
        if self.branch(self.fresh_bool(f'{c.short}.raises.{exc}')):
          for path in c.modifies:
            self.havoc_path(env, path)
          if exc == 'UserError':
            ev_ = VExc('UserError', [], sym=self.fresh_obj(f'{c.short}.exc'))
          else:
            ev_ = VExc(exc, [])
            n_ = self.fresh_int('nargs')
            self.assume(n_ >= 0)
            ev_.args = VSeq(z3.Array(self.path.fresh_name('excargs'), z3.IntSort(), Obj), n_, 'obj')
          if exc in c.cond_tests:                      # the callee tested wake-up conditions before raising
            self.note_cond_test(c.cond_tests[exc])
          elif exc in ('queue.Empty', 'queue.Full'):
            self.note_cond_test(['content'])
          env3 = dict(env)
          env3['raised'] = ev_
          for e in posts:
            if _internal(e, c):
              continue
            self.path.ctx = f'assumed exceptional postcondition [{exc}] of {c.short}: {e}'
            self.assume(self.spec(e, env3, old))
          # the callee raises exc only where its exceptional postconditions can hold: if they contradict what
          # is known here, this exit does not exist at this call site (no vacuity alarm: the callee is verified
          # against the same clauses, so a state in which it does raise satisfies them)
          if not self.ex.feasible(self.path.pc, z3.BoolVal(True)):
            raise PathEnd()
          raise PyRaise(ev_)
    # frame: havoc what the callee may modify
    for path in c.modifies:
      self.havoc_path(env, path)
    res = self.fresh(c.ret, f'{c.short}.result') if c.ret else NONE
    env2 = dict(env)
    env2['result'] = res
    gen_iter = None
    if c.yields and not self.spec_mode:
      # a call of a contracted GENERATOR function: the caller gets an iterator over what a whole run yields (the
      # ghost log `out` of the callee's contract); the callee's effects are taken as done (whole-run semantics)
      if c.raises_ensures or c.may_raise or c.raises:
        raise Unsupported(f'call of generator {c.short} whose contract allows exceptions')
      out = self.fresh(f'seq[{c.yields}]', f'{c.short}.out')
      if not c.ret:                      # the generator's return value (StopIteration.value)
        res = VOpaque(self.fresh_obj(f'{c.short}.return'))
        env2['result'] = res
      gen_iter = VIter(out, z3.IntVal(0), None, False, res, tag=c.short)
      env2['out'] = VMList(out)
    if c.post_hook is not None:       # binds parts of the fresh result to existing objects (identity)
      res = c.post_hook(self, env2, old) or res
      env2['result'] = res
    for e in c.ensures:
      if _internal(e, c):
        continue
      self.path.ctx = f'assumed postcondition of {c.short}: {e}'
      self.assume(self.spec(e[5:].strip() if e.startswith('impl:') else e, env2, old))
    self.call_log.append((c.short, res))
    self.call_args_log.append((c.short, dict(env)))
    if 'return' in c.cond_tests and not self.spec_mode:
      self.note_cond_test(c.cond_tests['return'])
    if gen_iter is not None:
      return gen_iter
    return res

  def havoc_path(self, env, path):
    if path.startswith('events:'):        # the callee may notify waiters of this condition
      lk = self.spec_val(path[7:], env)
      lk.f_notify = z3.Or(lk.f_notify, self.fresh_bool(f'{lk.name}.notified'))
      lk.f_notify_all = z3.Or(lk.f_notify_all, z3.And(lk.f_notify, self.fresh_bool(f'{lk.name}.notified_all')))
      return
    if path.startswith('lock:'):
      lk = self.spec_val(path[5:], env)
      self.ghost[f'{lk.name}.free'] = VBool(self.fresh_bool(f'{lk.name}.free'))
      return
    parts = path.split('.')
    v = env[parts[0]] if parts[0] in env else self.lookup(parts[0], env)
    for p in parts[1:-1]:
      v = self.getattr_(v, p)
    if len(parts) == 1:
      self.havoc_in_place(v, path)
      return
    v = self.unopt(v)
    cur = self.getfield(v, parts[-1])
    if isinstance(cur, (VMList, VIter, VMap, VQueue)):
      self.havoc_in_place(cur, path)
    else:
      v.f[parts[-1]] = self.fresh_like(cur, path)

  def snapshot(self, env):
    memo = {}
    return {k: self.clone(v, memo) for k, v in env.items()}

  def clone(self, v, memo):
    if id(v) in memo:
      return memo[id(v)]
    if isinstance(v, VObj):
      self.to_obj(v)      # fix the identity before cloning so that old/new share it
      o = VObj(v.cls, {}, v.frozen, v.types, v.tag)
      memo[id(v)] = o
      # instantiate lazily-typed fields first so old/new agree on them
      for k, x in v.f.items():
        o.f[k] = self.clone(x, memo)
      o_f_missing = [k for k in v.types if k not in v.f]
      if o_f_missing:
        o.types = dict(v.types)
        # share lazily created fields: create them now on the live object
        for k in o_f_missing:
          if self.reg.classes.get(v.cls) and not self.reg.classes[v.cls].lazy.get(k):
            o.f[k] = self.clone(self.getfield(v, k), memo)
      return o
    if isinstance(v, VMList):
      o = VMList(v.seq, v.is_deque)
      if getattr(v, 'maxlen', None) is not None:
        o.maxlen = v.maxlen
    elif isinstance(v, VList):
      o = VList([self.clone(x, memo) for x in v.items])
    elif isinstance(v, VTuple):
      o = VTuple([self.clone(x, memo) for x in v.items])
    elif isinstance(v, VDict):
      o = VDict({k: self.clone(x, memo) for k, x in v.d.items()})
    elif isinstance(v, VQueue):
      o = VQueue(self.clone(v.q, memo), v.cap, v.name)
    elif isinstance(v, VOpt):
      o = VOpt(v.isnone, self.clone(v.val, memo))
    elif isinstance(v, VIter):
      o = VIter(v.src, v.pos, v.fails, v.resumable, v.ret, v.tag, v.err)
      o.dead = v.dead
    elif isinstance(v, VMap):
      o = VMap(v.has, v.val, v.ksort, v.vkind, v.none, v.stamp, v.clock, v.size)
      o.guard = None
      o.is_counter = v.is_counter
      o.keys_seen = list(v.keys_seen)
    elif isinstance(v, VLock):
      o = VLock(v.name, v.reentrant, v.cond)
      o.held = v.held
      o.events = list(v.events)
      o.f_notify, o.f_notify_all = v.f_notify, v.f_notify_all
    else:
      return v
    memo[id(v)] = o
    return o

  # ---- classes ---------------------------------------------------------------------------------
  def instantiate(self, c, args, kwargs):
    name = c.name
    if name in EXC_PARENT or c.node is None:
      if name in EXC_PARENT:
        if len(args) == 1 and isinstance(args[0], tuple) and args[0][0] == '*':
          e = VExc(name, [])
          sv = args[0][1]
          e.args = sv.seq if isinstance(sv, VMList) else sv      # symbolic-length args (StopIteration(*returned))
          return e
        return VExc(name, list(args))
      return self.builtin_class(name, args, kwargs)
    mod, cls = c.module, c.node
    decs = world_mod.decorators(cls)
    is_dc = any(d.endswith('dataclass') for d in decs)
    frozen = False
    for d in cls.decorator_list:
      if isinstance(d, ast.Call):
        for kw in d.keywords:
          if kw.arg == 'frozen' and isinstance(kw.value, ast.Constant):
            frozen = bool(kw.value.value)
    # exception classes defined in the repo
    if self.is_exception_class(cls):
      EXC_PARENT.setdefault(name, 'Exception')
      return VExc(name, list(args))
    schema = self.reg.classes.get(name)
    obj = VObj(name, {}, frozen=False, types=dict(schema.fields) if schema else {}, tag=self.path.fresh_name(name))
    self.__dict__.setdefault('run_created', set()).add(id(obj))
    self.__dict__.setdefault('run_created_keep', []).append(obj)     # keeps id() unique for the path's lifetime
    if schema:
      for k in schema.lazy:
        pass
    if is_dc:
      self.dataclass_init(obj, mod, cls, args, kwargs)
      _, _, post = self.world.method(name, '__post_init__')
      if post is not None:
        self.call_repo(mod, cls, post, [obj], {})
      obj.frozen = frozen
      if schema is not None and schema.on_new is not None:
        schema.on_new(self, obj)
      return obj
    m2, c2, init = self.world.method(name, '__init__')
    if init is not None:
      self.call_repo(m2, c2, init, [obj] + list(args), kwargs)
    return obj

  def is_exception_class(self, cls):
    for b in cls.bases:
      n = b.id if isinstance(b, ast.Name) else (b.attr if isinstance(b, ast.Attribute) else None)
      if n in EXC_PARENT:
        return True
    return False

  def dataclass_fields(self, mod, cls):
    """[(name, default_expr|None, factory_expr|None, kw_only, init)] incl. bases."""
    out = []
    for b in cls.bases:
      bn = b.id if isinstance(b, ast.Name) else (b.attr if isinstance(b, ast.Attribute) else None)
      if bn:
        bm, bc = self.world.class_by_name(bn)
        if bc is not None and any(d.endswith('dataclass') for d in world_mod.decorators(bc)):
          out.extend(self.dataclass_fields(bm, bc))
    kw_default = False
    for d in cls.decorator_list:
      if isinstance(d, ast.Call):
        for kw in d.keywords:
          if kw.arg == 'kw_only' and isinstance(kw.value, ast.Constant):
            kw_default = bool(kw.value.value)
    for n in cls.body:
      if isinstance(n, ast.AnnAssign) and isinstance(n.target, ast.Name):
        ann = ast.unparse(n.annotation)
        if 'ClassVar' in ann:
          continue
        default = factory = None
        kw_only, init = kw_default, True
        if 'InitVar' in ann:
          init = 'initvar'
        v = n.value
        if isinstance(v, ast.Call) and ast.unparse(v.func).endswith('field'):
          for kw in v.keywords:
            if kw.arg == 'default':
              default = kw.value
            elif kw.arg == 'default_factory':
              factory = kw.value
            elif kw.arg == 'kw_only':
              kw_only = bool(kw.value.value)
            elif kw.arg == 'init':
              init = bool(kw.value.value) if init is True else init
        elif v is not None:
          default = v
        out = [f for f in out if f[0] != n.target.id]
        out.append((n.target.id, default, factory, kw_only, init))
    return out

  def dataclass_init(self, obj, mod, cls, args, kwargs):
    fields = self.dataclass_fields(mod, cls)
    kwargs = dict(kwargs)
    args = list(args)
    menv = {'__module__': mod}
    for fname, default, factory, kw_only, init in fields:
      if init is False:
        if default is not None:
          obj.f[fname] = self.ev(default, menv)
        elif factory is not None:
          obj.f[fname] = self.call_value(self.ev(factory, menv), [], {})
        continue
      if not kw_only and args:
        obj.f[fname] = args.pop(0)
      elif fname in kwargs:
        obj.f[fname] = kwargs.pop(fname)
      elif default is not None:
        obj.f[fname] = self.ev(default, menv)
      elif factory is not None:
        obj.f[fname] = self.call_value(self.ev(factory, menv), [], {})
      else:
        raise PyRaise(VExc('TypeError', [VStr(f'missing field {fname}')]))
    if args or kwargs:
      raise PyRaise(VExc('TypeError', [VStr(f'unexpected arguments to {cls.name}: {list(kwargs)}')]))

  def class_attr(self, c, name):
    if name == '__name__':
      return VStr(c.name)
    if c.node is not None:
      m = world_mod.World._member(c.node, name)
      if m is None:
        mod2, cls2, m = self.world.method(c.name, name)
      else:
        mod2, cls2 = c.module, c.node
      if m is not None:
        decs = world_mod.decorators(m)
        if 'classmethod' in decs:
          return VFn(name, node=m, module=mod2, cls=cls2, bound=c)
        return VFn(name, node=m, module=mod2, cls=cls2)
      for n in c.node.body:     # class constants / enum members
        if isinstance(n, ast.Assign) and any(isinstance(t, ast.Name) and t.id == name for t in n.targets):
          return self.ev(n.value, {'__module__': c.module})
    raise Unsupported(f'class attribute {c.name}.{name}')

  # ---- spec special forms --------------------------------------------------------------------------
  def sf_old(self, node, env):
    if self.old_env is None:
      return self.ev(node.args[0], env)      # evaluated in a pre-state already (call-site precondition)
    saved, self.old_env = self.old_env, None
    try:
      e = dict(saved)
      e.update(getattr(self, 'bound_vars', {}))      # quantifier-bound variables stay visible
      for kname, v in env.items():                   # so do pure values that did not exist at entry
        if kname not in e and isinstance(v, (VInt, VBool, VReal, VOpaque, VStr)):
          e[kname] = v
      return self.ev(node.args[0], e)
    finally:
      self.old_env = saved

  def sf_implies(self, node, env):
    a = self.truth(self.ev(node.args[0], env))
    a = z3.simplify(a)
    if z3.is_false(a):
      return VBool(True)
    b = self.truth(self.ev(node.args[1], env))
    return VBool(z3.Implies(a, b))

  def sf_is_stop(self, node, env):
    v = self.ev(node.args[0], env)
    v = v.val if isinstance(v, VOpt) else v
    from .calls import is_stop_fn
    if isinstance(v, VExc) and v.sym is not None and v.cls == 'UserError':
      return VBool(is_stop_fn(v.sym))
    return VBool(isinstance(v, VExc) and exc_isinstance(v.cls, 'StopIteration'))

  def sf_local(self, node, env):
    """local('x'): the current value of local variable x of the function under verification."""
    name = self.ev(node.args[0], env).s
    name = (self.__dict__.get('alpha_map') or {}).get(name, name)
    te = getattr(self, 'top_env', None)
    if te is None or name not in te:
      raise Unsupported(f'no local {name}')
    return te[name]

  def sf_ncalls(self, node, env):
    name = self.ev(node.args[0], env).s
    return VInt(sum(1 for n, _ in self.call_log if n.endswith(name)))

  def sf_last_result(self, node, env):
    name = self.ev(node.args[0], env).s
    for n, r in reversed(self.call_log):
      if n.endswith(name):
        return r
    raise Unsupported(f'no call of {name} on this path')

  def sf_last_arg(self, node, env):
    """last_arg('callee', 'param'): the value bound to that parameter at the last contract call of the callee."""
    name, param = self.ev(node.args[0], env).s, self.ev(node.args[1], env).s
    for n, e in reversed(self.call_args_log):
      if n.endswith(name):
        if param not in e:
          raise Unsupported(f'{name} has no parameter {param}')
        return e[param]
    raise Unsupported(f'no call of {name} on this path')

  def sf_timed_out(self, node, env):
    g = self.ghost.get('__timed_out__')
    return g if g is not None else VBool(False)

  def sf_truthy(self, node, env):
    return VBool(self.truth(self.ev(node.args[0], env)))

  def sf_ite(self, node, env):
    c = self.truth(self.ev(node.args[0], env))
    return self.ite(c, self.ev(node.args[1], env), self.ev(node.args[2], env))

  def _quant(self, node, env, forall):
    lam = node.args[0]
    names = [a.arg for a in lam.args.args]
    kind = 'int'
    if len(node.args) == 2 and isinstance(node.args[1], ast.Constant) and isinstance(node.args[1].value, str):
      kind = node.args[1].value          # forall(lambda k: ..., 'obj')
    bound = [z3.Const(self.path.fresh_name(n), sort_of(kind)) for n in names]
    e2 = {'__parent__': env}
    bv = dict(getattr(self, 'bound_vars', {}))
    for n, b in zip(names, bound):
      e2[n] = self.wrap(kind, b)
    saved_bv = getattr(self, 'bound_vars', {})
    self.bound_vars = dict(saved_bv, **{n: e2[n] for n in names})
    try:
      body = self.truth(self.ev(lam.body, e2))
    finally:
      self.bound_vars = saved_bv
    if len(node.args) >= 3:
      lo, hi = self.to_int(self.ev(node.args[1], env)), self.to_int(self.ev(node.args[2], env))
      rng = z3.And([z3.And(lo <= b, b < hi) for b in bound])
      body = z3.Implies(rng, body) if forall else z3.And(rng, body)
    return VBool(z3.ForAll(bound, body) if forall else z3.Exists(bound, body))

  def sf_forall(self, node, env):
    return self._quant(node, env, True)

  def sf_exists(self, node, env):
    return self._quant(node, env, False)

  def sf_isinstance(self, node, env):
    v = self.ev(node.args[0], env)
    t = self.ev(node.args[1], env)
    return VBool(self.isinstance_(v, t))

  def isinstance_(self, v, t):
    names = [c for c in (t.items if isinstance(t, VTuple) else [t])]
    res = []
    for c in names:
      res.append(self.isinstance1(v, c))
    return z3.Or(res) if len(res) > 1 else res[0]

  def isinstance1(self, v, c):
    cname = c.name if isinstance(c, VClass) else (c.name if isinstance(c, VFn) else (
        c.name.split('.')[-1] if isinstance(c, VModule) else None))
    if isinstance(v, VOpt):
      return z3.And(z3.Not(v.isnone), self.isinstance1(v.val, c))
    if cname == 'int':
      return z3.BoolVal(isinstance(v, (VInt, VBool)))
    if cname == 'bool':
      return z3.BoolVal(isinstance(v, VBool))
    if cname == 'float':
      return z3.BoolVal(isinstance(v, VReal))
    if cname == 'str':
      return z3.BoolVal(isinstance(v, VStr))
    if cname == 'slice':
      return z3.BoolVal(isinstance(v, VSlice))
    if cname == 'tuple':
      return z3.BoolVal(isinstance(v, VTuple))
    if cname == 'list':
      return z3.BoolVal(isinstance(v, (VList, VMList)))
    if cname == 'dict':
      return z3.BoolVal(isinstance(v, (VDict, VMap)))
    if isinstance(v, VExc):
      if v.cls == 'UserError' and v.sym is not None and cname == 'StopIteration':
        return is_stop_fn(v.sym)
      return z3.BoolVal(exc_isinstance(v.cls, cname))
    if isinstance(v, VObj) and cname:
      return z3.BoolVal(self.is_subclass(v.cls, cname))
    h = self.reg.isinstance_hook
    if h is not None:
      r = h(self, v, cname)
      if r is not None:
        return r
    if isinstance(v, (VNoneT, VInt, VBool, VReal, VStr, VTuple, VList, VIter, VSeq, VMList, VDict, VMap)):
      return z3.BoolVal(False)       # a builtin value is not an instance of a repository class
    raise Unsupported(f'isinstance({type(v).__name__}, {cname})')

  def is_subclass(self, cname, parent):
    if cname == parent:
      return True
    mod, cls = self.world.class_by_name(cname)
    if cls is None:
      return False
    for b in cls.bases:
      bn = b.id if isinstance(b, ast.Name) else (b.attr if isinstance(b, ast.Attribute) else (
          b.value.attr if isinstance(b, ast.Subscript) and isinstance(b.value, ast.Attribute) else (
              b.value.id if isinstance(b, ast.Subscript) and isinstance(b.value, ast.Name) else None)))
      if bn and (bn == parent or self.is_subclass(bn, parent)):
        return True
    return False

  def sf_hasattr(self, node, env):
    v = self.ev(node.args[0], env)
    name = self.ev(node.args[1], env).s
    v = v.val if isinstance(v, VOpt) else v
    if isinstance(v, VObj):
      if name in v.f or name in v.types:
        return VBool(True)
      return VBool(self.world.method(v.cls, name)[2] is not None)
    if isinstance(v, VOpaque):
      h = self.reg.hasattr_hook
      if h is not None:
        return VBool(h(self, v, name))
    if isinstance(v, (VSeq, VMList, VList, VTuple)):
      return VBool(name in ('__getitem__', '__len__', '__iter__'))
    if isinstance(v, (VInt, VBool, VReal, VNoneT, VStr)):
      return VBool(False)      # pointwise view: a generic array element is a scalar
    raise Unsupported(f'hasattr({type(v).__name__}, {name})')

  def sf_super(self, node, env):
    slf = env.get('self')
    cn = env.get('__class_node__')
    if slf is None or cn is None:
      raise Unsupported('super() outside method')
    return VSuper(slf, cn)


def _internal(clause, c=None):
  import re as _re
  if c is not None and any(_re.search(r'\b' + g + r'\b', clause) for g in c.ghost if g not in c.site_ghost):
    return True
  return _internal0(clause)


def _internal0(clause):
  """Clauses about the callee's own execution trace (ghost call counters, time-out flag) are proved
  for the callee but are not facts about the caller's state: they are not assumed at call sites."""
  return any(tok in clause for tok in ('ncalls(', 'timed_out(', 'last_result(', 'local(', 'last_arg('))


def _walk_fn(node):
  """ast.walk that does not descend into nested function definitions."""
  todo = list(ast.iter_child_nodes(node))
  while todo:
    n = todo.pop()
    yield n
    if not isinstance(n, (ast.FunctionDef, ast.AsyncFunctionDef, ast.Lambda)):
      todo.extend(ast.iter_child_nodes(n))
