"""Sidecar contract registry and the small DSL used by /verif/contracts/*.py."""
import importlib.util
import os


class ClassSchema:

  def __init__(self, name, fields, frozen=False, invariant=(), lazy=(), on_new=None, on_field=None, ghost=()):
    self.name, self.fields, self.frozen = name, dict(fields), frozen
    self.invariant = list(invariant)
    self.lazy = {k: True for k in lazy}
    self.on_new = on_new          # hook(interp, obj): ghost definitions for a constructed object
    self.on_field = on_field      # hook(interp, obj, field): when a lazy field is first read
    self.ghost = set(ghost)       # ghost fields: not copied by dataclasses.replace (re-defined by on_new)


class Contract:

  def __init__(self, target, prop, **kw):
    self.target = target                    # 'path.py::Class.method'
    self.props = [prop] if isinstance(prop, str) else list(prop)
    self.types = kw.pop('types', {})        # parameter -> type descriptor
    self.ret = kw.pop('ret', None)          # type descriptor of the result (for call sites)
    self.requires = list(kw.pop('requires', ()))
    self.ensures = list(kw.pop('ensures', ()))
    self.raises = dict(kw.pop('raises', {}))        # exc -> condition (iff)
    self.raises_ensures = dict(kw.pop('raises_ensures', {}))   # exc -> [post clauses on exceptional exit]
    self.may_raise = list(kw.pop('may_raise', ()))
    # exc -> cond: may raise exc unless cond holds for EVERY element of the (pointwise viewed) array;
    # a normal return implies cond for the generic element
    self.raises_unless = dict(kw.pop('raises_unless', {}))
    self.loops = dict(kw.pop('loops', {}))
    self.modifies = list(kw.pop('modifies', ()))
    self.inline = kw.pop('inline', False)
    self.ghost = dict(kw.pop('ghost', {}))          # ghost name -> type descriptor
    self.setup = kw.pop('setup', None)              # python hook(interp, env) before requires
    self.post_hook = kw.pop('post_hook', None)
    self.witness = dict(kw.pop('witness', {}))      # name -> spec expression (model extraction)
    self.replay = kw.pop('replay', None)            # name of the native replay function
    self.bounded = kw.pop('bounded', None)          # name of the native bounded search
    self.yields = kw.pop('yields', None)            # element kind of a generator's output log
    self.always = list(kw.pop('always', ()))        # clauses checked on normal AND exceptional exit
    self.note = kw.pop('note', '')
    self.canary = kw.pop('canary', True)
    self.at_release = dict(kw.pop('at_release', {}))
    self.at_wait = dict(kw.pop('at_wait', {}))         # condition expr -> clauses (over the locals) that must hold whenever it is waited on   # lock expr -> clauses that must hold whenever it is released
    self.site_ghost = dict(kw.pop('site_ghost', {}))   # ghost name -> fn(interp, env): its value at a call site
    self.cond_tests = dict(kw.pop('cond_tests', {}))   # exit ('return' | exception) -> kinds of wake-up condition the callee tested
    self.abandon = kw.pop('abandon', False)          # generator: the consumer may close() it at any yield (GeneratorExit)
    self.when = kw.pop('when', None)                # fn(interp, args, kwargs) -> bool: does this variant describe that call?
    self.variant = kw.pop('variant', '')            # distinguishes several contracts of one target
    if kw:
      raise TypeError(f'unknown contract keys {list(kw)}')

  @property
  def short(self):
    return self.target.split('::')[1]

  @property
  def key(self):
    return self.target + (f'#{self.variant}' if self.variant else '')


class Lemma:
  """A fact over spec functions/contracts only, proved by the solver."""

  def __init__(self, name, prop, types, requires, ensures, note=''):
    self.name, self.prop, self.types = name, prop, types
    self.requires, self.ensures, self.note = list(requires), list(ensures), note


class Registry:

  def __init__(self):
    self.contracts = {}       # target -> [Contract]
    self.classes = {}
    self.spec_fns = {}        # name -> python callable(interp, args, kwargs) -> V
    self.lemmas = []
    self.value_classes = {}   # frozen dataclass name -> field names: compared / hashed by value
    self.opaque_methods = {}
    self.opaque_iter = None
    self.isinstance_hook = None
    self.lock_ranks = {}          # lock hierarchy by field name (lower rank first); see calls.lock_acquire
    self.hasattr_hook = None
    self.opaque_item_error = 'ValueError'
    self.opaque_call_error = 'ValueError'
    self.default_elem_kind = 'obj'
    self.ghost_factories = {}   # ghost name -> fn(interp) creating it on first use
    self.bounded_checks = {}  # prop -> [(name, description)]
    self.trusted = {}         # prop -> [strings]

  def add(self, c):
    self.contracts.setdefault(c.target, []).append(c)
    return c

  def contract_for(self, target, prop, call=None):
    """The contract of `target` to apply at a call site; `call` = (interp, args, kwargs) lets variants
    that declare `when` choose by the shape of the arguments."""
    cs = self.contracts.get(target)
    if not cs:
      return None
    ordered = [c for c in cs if prop in c.props] + [c for c in cs if prop not in c.props]
    if call is not None:
      for c in ordered:
        if c.when is not None and c.when(*call):
          return c
      for c in ordered:
        if c.when is None:
          return c
      return None          # every variant declined this call shape: the callee's real body is used
    return ordered[0]

  def for_prop(self, prop):
    return [c for cs in self.contracts.values() for c in cs if prop in c.props and not c.inline]

  def cls(self, name, fields, frozen=False, invariant=(), lazy=(), **kw):
    self.classes[name] = ClassSchema(name, fields, frozen, invariant, lazy, **kw)

  def spec(self, fn):
    self.spec_fns[fn.__name__] = fn
    return fn

  def lemma(self, *a, **k):
    l = Lemma(*a, **k)
    self.lemmas.append(l)
    return l

  def load_dir(self, path, only=None):
    for fn in sorted(os.listdir(path)):
      if fn.endswith('.py') and not fn.startswith('_') and fn[0] == 'C' and fn[1:3].isdigit():
        if only and not any(fn.startswith(o) for o in only):
          continue
        spec = importlib.util.spec_from_file_location('contracts_' + fn[:-3], os.path.join(path, fn))
        mod = importlib.util.module_from_spec(spec)
        mod.R = self
        spec.loader.exec_module(mod)
        if hasattr(mod, 'register'):
          mod.register(self)
    return self
