"""Symbolic values of the pyvc interpreter.

Every run-time value of the interpreted Python code is one of the classes below.
Scalars wrap z3 terms; containers of concrete length are Python lists of values;
containers of symbolic length are (z3 Array, z3 Int length) pairs.
"""
import z3

Obj = z3.DeclareSort('Obj')          # opaque Python objects (user data, elements, callables)

# Uninterpreted observers on opaque objects (ghost functions).
len_of = z3.Function('len_of', Obj, z3.IntSort())
item_of = z3.Function('item_of', Obj, z3.IntSort(), Obj)
truthy_of = z3.Function('truthy_of', Obj, z3.BoolSort())


class V:
  """Base class of symbolic values."""


class VInt(V):
  __slots__ = ('t',)

  def __init__(self, t):
    self.t = z3.IntVal(t) if isinstance(t, int) else t

  def __repr__(self):
    return f'VInt({self.t})'


class VBool(V):
  __slots__ = ('t',)

  def __init__(self, t):
    self.t = z3.BoolVal(t) if isinstance(t, bool) else t

  def __repr__(self):
    return f'VBool({self.t})'


class VReal(V):
  """A float: real number plus a NaN flag (assumption A1)."""
  __slots__ = ('t', 'nan')

  def __init__(self, t, nan=False):
    if isinstance(t, (int, float)):
      t = z3.RealVal(t)
    self.t = t
    self.nan = z3.BoolVal(nan) if isinstance(nan, bool) else nan

  def __repr__(self):
    return f'VReal({self.t}, nan={self.nan})'


class VNoneT(V):
  __slots__ = ()

  def __repr__(self):
    return 'NONE'


NONE = VNoneT()


class VOpt(V):
  """T | None with a symbolic discriminator."""
  __slots__ = ('isnone', 'val')

  def __init__(self, isnone, val):
    self.isnone = isnone
    self.val = val

  def __repr__(self):
    return f'VOpt({self.isnone}, {self.val})'


class VStr(V):
  __slots__ = ('s',)

  def __init__(self, s):
    self.s = s

  def __repr__(self):
    return f'VStr({self.s!r})'


class VTuple(V):
  __slots__ = ('items',)

  def __init__(self, items):
    self.items = list(items)

  def __repr__(self):
    return f'VTuple({self.items})'


class VList(V):
  """Mutable list of concrete length (no __slots__: may be promoted in place to VMList)."""

  def __init__(self, items):
    self.items = list(items)

  def __repr__(self):
    return f'VList({self.items})'


class VSeq(V):
  """Immutable sequence of symbolic length: elements arr[0..n)."""
  __slots__ = ('arr', 'n', 'kind')

  def __init__(self, arr, n, kind):
    self.arr, self.n, self.kind = arr, n, kind

  def __repr__(self):
    return f'VSeq(n={self.n}, kind={self.kind})'


class VMList(V):
  """Mutable list / deque of symbolic length (a cell holding a VSeq)."""

  def __init__(self, seq, is_deque=False):
    self.seq = seq
    self.is_deque = is_deque

  def __repr__(self):
    return f'VMList({self.seq})'


class VObj(V):
  """Heap object / record with named fields."""
  __slots__ = ('cls', 'f', 'frozen', 'types', 'tag')

  def __init__(self, cls, fields=None, frozen=False, types=None, tag=''):
    self.cls = cls
    self.f = dict(fields or {})
    self.frozen = frozen
    self.types = types or {}
    self.tag = tag

  def __repr__(self):
    return f'VObj<{self.cls}#{self.tag}>'


class VOpaque(V):
  __slots__ = ('t',)

  def __init__(self, t):
    self.t = t

  def __repr__(self):
    return f'VOpaque({self.t})'


class VExc(V):
  """An exception value. `cls` is a concrete class name; `sym` an optional Obj
  term giving it identity when it came from symbolic state."""
  __slots__ = ('cls', 'args', 'cause', 'sym', 'notes', 'ctx')

  def __init__(self, cls, args=(), cause=None, sym=None):
    self.cls = cls
    self.args = list(args)
    self.cause = cause
    self.sym = sym
    self.notes = []
    self.ctx = None

  def __repr__(self):
    return f'VExc({self.cls}, {self.args})'


class VFn(V):
  """A callable: builtin/spec (impl) or repository function (node)."""
  __slots__ = ('name', 'impl', 'node', 'module', 'cls', 'closure', 'bound')

  def __init__(self, name, impl=None, node=None, module=None, cls=None,
               closure=None, bound=None):
    self.name, self.impl, self.node = name, impl, node
    self.module, self.cls, self.closure, self.bound = module, cls, closure, bound

  def __repr__(self):
    return f'VFn({self.name})'


class VClass(V):
  __slots__ = ('name', 'node', 'module')

  def __init__(self, name, node=None, module=None):
    self.name, self.node, self.module = name, node, module

  def __repr__(self):
    return f'VClass({self.name})'


class VModule(V):
  __slots__ = ('name',)

  def __init__(self, name):
    self.name = name

  def __repr__(self):
    return f'VModule({self.name})'


class VSlice(V):
  __slots__ = ('lo', 'hi', 'step')

  def __init__(self, lo, hi, step):
    self.lo, self.hi, self.step = lo, hi, step


class VRange(V):
  __slots__ = ('lo', 'hi')

  def __init__(self, lo, hi):
    self.lo, self.hi = lo, hi


class VIter(V):
  """Ghost model of an iterator: yields src[pos], src[pos+1], ...; element i
  raises instead of being yielded when fails[i]; `resumable` says whether
  next() may be called again after it raised (true for random-access readers,
  false for generator objects)."""
  __slots__ = ('src', 'pos', 'fails', 'resumable', 'ret', 'dead', 'tag', 'err', 'on_elem', 'wrap_fn', 'kept')

  def __init__(self, src, pos, fails=None, resumable=True, ret=None, tag='',
               err='ValueError'):
    self.src, self.pos, self.fails = src, pos, fails
    self.resumable, self.ret, self.tag = resumable, ret, tag
    self.dead = z3.BoolVal(False)
    self.err = err
    self.on_elem = None      # hook(index term, value): facts about the element just taken
    self.wrap_fn = None      # builds the Python-level value of element i (default: wrap(src.kind, src[i]))
    self.kept = None         # (count function, ...) of a filtered generator expression

  def __repr__(self):
    return f'VIter<{self.tag}>(pos={self.pos})'


class VDict(V):
  """Dict with concrete (Python-hashable) keys."""
  __slots__ = ('d',)

  def __init__(self, d=None):
    self.d = dict(d or {})


class VMap(V):
  """Mutable map with symbolic keys: presence + value arrays.  `none` (if not
  None) is an array saying the stored value is Python None; `stamp` (if not
  None) gives OrderedDict recency as a logical time stamp per key."""
  __slots__ = ('has', 'val', 'none', 'stamp', 'clock', 'ksort', 'vkind', 'size', 'guard', 'keys_seen', 'is_counter')

  def __init__(self, has, val, ksort, vkind, none=None, stamp=None, clock=None,
               size=None):
    self.has, self.val, self.ksort, self.vkind = has, val, ksort, vkind
    self.none, self.stamp, self.clock, self.size = none, stamp, clock, size
    self.keys_seen = []
    self.guard = None      # VLock that must be held for every access (lock discipline)
    self.is_counter = False     # collections.Counter: a missing key counts 0, update() ADDS the other counter


class VCounterView(V):
  """(key, count) pairs of a collections.Counter - `.items()`, `.most_common(n)`, `sorted(...)` of those, a prefix slice, or
  `dict(...)` of one: SOME `limit` of its entries (all of them when limit is None).  Which entries a sort puts first is not
  modelled: every choice of `limit` entries is possible - enough to decide whether counts survive."""
  __slots__ = ('m', 'limit')

  def __init__(self, m, limit=None):
    self.m, self.limit = m, limit


class VLock(V):
  __slots__ = ('name', 'held', 'events', 'reentrant', 'cond', 'f_notify', 'f_notify_all', 'recheck', 'last_release')

  def __init__(self, name, reentrant=False, cond=False):
    self.name = name
    self.held = 0          # concrete hold count on this path
    self.events = []       # ('acquire'|'release'|'notify'|'notify_all'|'wait')
    self.reentrant = reentrant
    self.cond = cond
    self.f_notify = z3.BoolVal(False)       # ghost: some waiter was notified during the operation
    self.f_notify_all = z3.BoolVal(False)   # ghost: all waiters were notified
    self.recheck = False        # monitor rule: the waited-for condition must be re-tested after the last release
    self.last_release = 0

  def __repr__(self):
    return f'VLock({self.name}, held={self.held})'


class VSuper(V):
  __slots__ = ('obj', 'cls_node')

  def __init__(self, obj, cls_node):
    self.obj, self.cls_node = obj, cls_node


class VQueue(V):
  """queue.Queue / SimpleQueue model (A2): FIFO content + capacity (0 = unbounded)."""
  __slots__ = ('q', 'cap', 'name')

  def __init__(self, q, cap, name='queue'):
    self.q, self.cap, self.name = q, cap, name


class VVec(V):
  """numpy vector of concrete length (np.zeros(k, dtype=int)): elementwise arithmetic."""
  __slots__ = ('items',)

  def __init__(self, items):
    self.items = list(items)


class VZip(V):
  """zip(*iterators, strict=...) over symbolic-length iterators."""
  __slots__ = ('its', 'strict')

  def __init__(self, its, strict):
    self.its, self.strict = its, strict


class VPartial(V):
  __slots__ = ('fn', 'args', 'kwargs')

  def __init__(self, fn, args, kwargs):
    self.fn, self.args, self.kwargs = fn, args, kwargs


class VGen(V):
  """A lazy generator expression `(elt for target in it)` over a ghost iterator (no conditions)."""
  __slots__ = ('it', 'target', 'elt', 'env')

  def __init__(self, it, target, elt, env):
    self.it, self.target, self.elt, self.env = it, target, elt, env


class VPArr(VReal):
  """A numpy array in the pointwise view (A3): the value of ONE generic element.  Subscripting it (`a[:, k - 1]`,
  `a[:, np.newaxis]`) yields that generic element; arithmetic is the scalar arithmetic of VReal."""
  __slots__ = ()


class VPCols(V):
  """A 2-D numpy array in the pointwise view whose COLUMN matters: one generic row, `a[:, j]` is col(j)."""
  __slots__ = ('col',)

  def __init__(self, col):
    self.col = col


class VSet(V):
  """A finite set of objects: membership array + exact size (with the cardinality facts assumed at creation)."""
  __slots__ = ('has', 'size')

  def __init__(self, has, size):
    self.has, self.size = has, size


class VLazy(V):
  """A generator expression over a concrete collection: its elements are computed (with their side effects) when it is
  first consumed, not when it is created."""
  __slots__ = ('thunk', 'items')

  def __init__(self, thunk):
    self.thunk, self.items = thunk, None

  def force(self):
    if self.items is None:
      self.items = self.thunk()
    return self.items
