"""The interpreter assembled from its mixins, and the per-function verifier."""
import ast
import time
import traceback
import z3

from .values import *   # pylint: disable=wildcard-import
from .path import Explorer, Obligation, Unsupported, PathEnd, discharge, guarded_check
from .interp import InterpBase, PyRaise, ReturnSig, exc_isinstance
from .expr import ExprMixin
from .stmt import StmtMixin
from .calls import CallMixin
from .calls2 import Call2Mixin
from .builtins_ import BuiltinMixin
from .numeric import NumericMixin
from .treeheap import TreeHeapMixin
from . import world as world_mod


class Interp(TreeHeapMixin, InterpBase, ExprMixin, StmtMixin, CallMixin, Call2Mixin, BuiltinMixin, NumericMixin):

  def __init__(self, world, explorer, registry, prop=''):
    super().__init__(world, explorer, registry, prop)
    self.verifying = None
    self.cur_name = ''
    self.cur_contract_for_loops = None
    self.cur_fn_node = None
    self.entry_old = None


class FnResult:

  def __init__(self, target):
    self.target = target
    self.obligations = []
    self.paths = 0
    self.status = 'proved'        # proved | failed | unsupported | error
    self.error = None
    self.hash = None
    self.lines = None
    self.inlined = set()
    self.used_contracts = set()
    self.dropped = set()
    self.secs = 0.0
    self.exits = {}
    self.canary_ok = None
    self.alpha = None
    self.alpha_map = {}
    self.covers = 0
    self.samples = []         # (inputs, predicted result) per returning path, from a model of its path condition


def verify_function(world, reg, c, prop, timeout_ms=20000, mutate=None, recheck=False, sample=False, alpha=None):
  """Checks the real source of c.target against contract c. Returns FnResult."""
  res = FnResult(c.key)
  t0 = time.time()
  preload(world, reg)
  try:
    mod, cls, node = world.find(c.target)
  except (KeyError, FileNotFoundError, SyntaxError) as e:
    res.status, res.error = 'missing', f'{type(e).__name__}: {e}'
    return res
  if mutate is not None:
    node = mutate(node)
  res.hash = world_mod.fn_hash(node)
  res.alpha = world_mod.alpha_form(node)
  alpha_map = {}
  if alpha and alpha[0] == res.alpha[0] and list(alpha[1]) != list(res.alpha[1]) and len(alpha[1]) == len(res.alpha[1]):
    pairs = [(o, n) for o, n in zip(alpha[1], res.alpha[1]) if o != n]
    if not ({o for o, _ in pairs} & set(res.alpha[1])):       # no old name is reused for another variable
      alpha_map = dict(pairs)
  res.alpha_map = alpha_map
  res.lines = (node.lineno, node.end_lineno)
  ex = Explorer()
  meta = {}

  def run(path):
    it = Interp(world, ex, reg, prop)
    meta['it'] = it
    it.alpha_map = alpha_map
    it.verifying = world_qual(mod, cls, node)
    it.cur_name = f'{prop}/{c.key}'
    it.cur_contract_for_loops = c
    it.cur_fn_node = node
    it.module_stack.append(mod)
    # symbolic pre-state
    env = {}
    params = [a.arg for a in node.args.posonlyargs + node.args.args + node.args.kwonlyargs]
    if node.args.vararg:
      params.append(node.args.vararg.arg)
    if node.args.kwarg and node.args.kwarg.arg not in c.types:
      env[node.args.kwarg.arg] = VDict({})          # the verified instance passes no keyword arguments
    # a parameter the contract does not know but that has a default (an option added later): the contract describes the
    # calls that do not pass it, so it takes its default value
    a_ = node.args
    pos = a_.posonlyargs + a_.args
    defaults = {x.arg: d for x, d in zip(pos[len(pos) - len(a_.defaults):], a_.defaults)}
    defaults.update({x.arg: d for x, d in zip(a_.kwonlyargs, a_.kw_defaults) if d is not None})
    for p in params:
      ty = c.types.get(p)
      if ty is None and p in defaults:
        env[p] = it.ev(defaults[p], {'__module__': mod})
        continue
      if ty is None:
        raise Unsupported(f'no type for parameter {p} of {c.target}')
      env[p] = it.fresh(ty, p)
    for g, ty in c.ghost.items():
      it.ghost[g] = it.fresh(ty, g)
    if c.yields:
      it.yield_log = it.fresh(f'list[{c.yields}]', 'out')
      it.assume(it.yield_log.seq.n == 0)
      it.ghost['out'] = it.yield_log
    if c.setup is not None:
      c.setup(it, env)
    for r in c.requires:
      it.assume(it.spec(r, env))
    path.witness_terms = {}
    for wname, wexpr in c.witness.items():
      try:
        path.witness_terms[wname] = it.spec_val(wexpr, env)
      except (Unsupported, PyRaise):
        pass
    # pre-state: parameters and the contract's ghost / closure variables
    old = it.snapshot({**{g: v for g, v in it.ghost.items() if g in c.ghost}, **env})
    it.entry_old = old
    it.ghost_at_entry = dict(it.ghost)
    if c.at_release:
      locks = {it.spec_val(expr, env): (expr, clauses) for expr, clauses in c.at_release.items()}

      def on_release(itp, lk, _locks=locks, _env=env, _old=old):
        if lk in _locks:
          expr, clauses = _locks[lk]
          for k_, cl in enumerate(clauses):
            itp.oblige(f'{prop}/{c.key}/at-release[{expr}]#{k_}', itp.spec(cl, _env, _old), 'publication',
                       {'text': f'whenever {expr} is released: {cl}'})
      it.release_hooks.append(on_release)
    if c.at_wait:
      conds = {it.spec_val(expr, env): (expr, clauses) for expr, clauses in c.at_wait.items()}

      def on_wait_check(itp, lk, _conds=conds, _old=old):
        if lk in _conds:
          expr, clauses = _conds[lk]
          for k_, cl in enumerate(clauses):
            itp.oblige(f'{prop}/{c.key}/at-wait[{expr}]#{k_}', itp.spec(cl, getattr(itp, 'top_env', env), _old), 'monitor-discipline',
                       {'text': f'whenever {expr} is waited on: {cl}'})
      it.wait_hooks = [on_wait_check]
    outcome, val = None, None
    try:
      args = [env[a.arg] for a in node.args.posonlyargs + node.args.args]
      kwargs = {a.arg: env[a.arg] for a in node.args.kwonlyargs}
      if node.args.vararg:
        va = env[node.args.vararg.arg]
        args.append(('*', va) if isinstance(va, (VSeq, VMList)) else va)
        if isinstance(va, VTuple):
          args = args[:-1] + va.items
      val = it.call_repo(mod, cls, node, args, kwargs)
      outcome = 'return'
    except PyRaise as pr:
      outcome, val = 'raise', pr.exc
    finally:
      res.inlined |= it.inlined
      res.used_contracts |= it.used_contracts
      res.dropped |= it.dropped
    res.exits[outcome if outcome == 'return' else f'raise {val.cls}'] = res.exits.get(
        outcome if outcome == 'return' else f'raise {val.cls}', 0) + 1
    env2 = dict(env)
    name = f'{prop}/{c.key}'
    if outcome == 'return':
      env2['result'] = val
      for exc, cond in c.raises.items():
        it.oblige(f'{name}/raises-iff[{exc}]/normal-exit', z3.Not(it.spec(cond, env2, old)), 'raises-iff',
                  {'text': f'returns normally only if not ({cond})'})
      for exc, cond in c.raises_unless.items():
        it.oblige(f'{name}/raises-unless[{exc}]/normal-exit', it.spec(cond, env2, old), 'raises-unless',
                  {'text': f'returns normally only if {cond}'})
      for k, e in enumerate(c.ensures):
        # a clause marked `impl:` pins the implementation more tightly than the property does (a refinement): it carries the
        # proof, but its failure alone is not a violation of the property (decided by the property-level clauses / stand-in)
        impl = e.startswith('impl:')
        it.oblige(f'{name}/ensures#{k}', it.spec(e[5:].strip() if impl else e, env2, old), 'impl-postcondition' if impl else 'postcondition', {'text': e})
    else:
      env2['raised'] = val
      allowed = False
      for exc, cond in c.raises.items():
        if exc_isinstance(val.cls, exc):
          allowed = True
          it.oblige(f'{name}/raises-iff[{exc}]/exceptional-exit', it.spec(cond, env2, old), 'raises-iff',
                    {'text': f'raises {exc} only if {cond}'})
      for exc in list(c.may_raise) + list(c.raises_unless):
        if exc_isinstance(val.cls, exc):
          allowed = True
      for exc, posts in c.raises_ensures.items():
        if exc_isinstance(val.cls, exc):
          allowed = True
          for k, e in enumerate(posts):
            it.oblige(f'{name}/raises[{exc}]/ensures#{k}', it.spec(e, env2, old), 'exceptional-postcondition', {'text': e})
      if not allowed:
        it.oblige(f'{name}/no-unexpected-exception[{val.cls}]', z3.BoolVal(False), 'unexpected-exception',
                  {'text': f'{val.cls} escapes but the contract does not allow it: {val.args}'})
    if sample and outcome == 'return' and isinstance(val, (VInt, VBool, VReal)) and len(meta.setdefault('samples', [])) < 8:
      meta['samples'].append((list(path.pc), dict(env), val))
    frame_check(it, c, env, old, name)
    for k, e in enumerate(c.always):
      it.oblige(f'{name}/always#{k}', it.spec(e, env2, old), 'postcondition-all-exits', {'text': e})
    # vacuity: this exit must be reachable (cover) under everything assumed on the way
    if not ex.feasible(path.pc, z3.BoolVal(True)):
      path.notes.append('DEAD')
    path.notes.append(outcome)

  try:
    obls, paths = ex.explore(run)
    res.paths = len(paths)
    res.covers = sum(1 for p in paths if p.notes and 'DEAD' not in p.notes)
    if res.covers == 0:
      res.status, res.error = 'vacuous', 'no path reaches an exit: requires are contradictory'
    elif any('DEAD' in p.notes for p in paths):
      res.status = 'vacuous'
      res.error = 'some path became infeasible by an assumption (contradictory contract/invariant/hook): ' + '; '.join(
          sorted({str(n) for p in paths for n in p.notes if str(n).startswith('dead-after')}))[:600]
    for o in obls:
      discharge(o, timeout_ms)
      if recheck and o.result == 'unsat' and o.backend != 'cvc5':
        from .path import recheck_cvc5
        o.info['cvc5'] = recheck_cvc5(o, 10000)        # independent re-proof (thorough tier)
      if o.result == 'sat' and o.model is not None:
        o.info['model'] = model_dict(o.model)
        wt = {}
        for p in paths:
          if o in p.obls:
            for wn, wv in p.witness_terms.items():
              wt[wn] = eval_witness(o.model, wv)
        o.info['witness'] = wt
      o.model = None
    for pc, env_, val_ in meta.get('samples', []):
      sv = z3.Solver()
      sv.set('timeout', 3000)
      for f_ in pc:
        sv.add(f_)
      if guarded_check('sample', sv, 3000) != z3.sat:
        continue
      m_ = sv.model()
      inputs = {}
      for pn, pv in env_.items():
        if isinstance(pv, (VInt, VBool, VReal)):
          inputs[pn] = eval_witness(m_, pv)
        elif isinstance(pv, VStr) and pv.s is not None:
          inputs[pn] = {'__str__': pv.s}
        elif isinstance(pv, VNoneT):
          inputs[pn] = None
        elif isinstance(pv, VObj):
          inputs[pn] = {'__class__': pv.cls, **{fn_: eval_witness(m_, fv) for fn_, fv in pv.f.items()
                                                 if isinstance(fv, (VInt, VBool, VReal)) and not fn_.startswith('__')}}
          # an object with opaque / structured fields cannot be rebuilt faithfully: no cross-check for this sample
          declared = set(pv.types) | set(pv.f)
          if any(not isinstance(pv.f.get(fn_), (VInt, VBool, VReal, VNoneT)) for fn_ in declared if not fn_.startswith('__')):
            inputs[pn]['__partial__'] = True
        else:
          inputs[pn] = {'__partial__': True}
      res.samples.append(dict(inputs=inputs, predicted=eval_witness(m_, val_)))
    res.obligations = obls
    # a failed obligation takes precedence: assuming a false goal afterwards is what
    # made the rest of that path infeasible
    if res.status in ('proved', 'vacuous') and any(o.result != 'unsat' for o in obls):
      res.status = 'failed'
  except Unsupported as e:
    res.status, res.error = 'unsupported', str(e)
  except RecursionError as e:
    res.status, res.error = 'unsupported', 'recursion limit'
  except Exception as e:   # pylint: disable=broad-exception-caught
    res.status, res.error = 'error', traceback.format_exc()
  res.secs = time.time() - t0
  return res


def frame_check(it, c, env, old, name):
  """Frame obligations: every heap location reachable from the parameters that
  the contract does not list under `modifies` is unchanged at exit (so that call
  sites may keep what they know about it)."""
  mods = set(c.modifies)

  def listed(p):
    return any(p == m or p.startswith(m + '.') for m in mods)

  seen = set()

  def walk(live, was, p):
    if isinstance(live, VOpt) and isinstance(was, VOpt):
      if isinstance(live.val, (VObj, VMList, VMap, VIter)):
        return walk(live.val, was.val, p)
    if isinstance(was, VObj):
      if id(was) in seen or not isinstance(live, VObj):
        return
      seen.add(id(was))
      for fname, wv in was.f.items():
        if fname.startswith('__'):
          continue
        fp = f'{p}.{fname}'
        if listed(fp):
          continue
        lv = live.f.get(fname)
        if lv is None:
          continue
        if isinstance(wv, (VObj, VMList, VMap, VIter, VQueue)) or (isinstance(wv, VOpt) and isinstance(wv.val, (VObj, VMList, VMap, VIter))):
          walk(lv, wv, fp)
        elif isinstance(wv, VLock):
          gk = f'{wv.name}.free'
          if gk in it.ghost and gk in it.ghost_at_entry and not listed('lock:' + fp):
            it.oblige(f'{name}/frame[lock:{fp}]', it.ghost[gk].t == it.ghost_at_entry[gk].t, 'frame',
                      {'text': f'lock {fp} is in the same state as at entry (not listed in modifies)'})
        elif isinstance(wv, VTuple) and isinstance(lv, VTuple) and wv.items and all(isinstance(x, VObj) for x in wv.items) and not was.frozen:
          # a tuple of heap objects: the same objects (identity, not dataclass equality), each framed on its own
          same = z3.BoolVal(len(lv.items) == len(wv.items)) if len(lv.items) != len(wv.items) else z3.And([it.ident(a, b) for a, b in zip(lv.items, wv.items)])
          it.oblige(f'{name}/frame[{fp}]', same, 'frame', {'text': f'{fp} holds the same objects (not listed in modifies)'})
          if len(lv.items) == len(wv.items):
            for i, (a, b) in enumerate(zip(lv.items, wv.items)):
              walk(a, b, f'{fp}[{i}]')
        elif isinstance(wv, (VInt, VBool, VReal, VOpt, VOpaque, VNoneT, VTuple)) and not was.frozen:
          try:
            same = it.ident(lv, wv) if isinstance(wv, (VOpt, VOpaque, VNoneT)) else it.eq(lv, wv)
            if isinstance(wv, VReal):
              same = z3.And(lv.t == wv.t, lv.nan == wv.nan) if isinstance(lv, VReal) else z3.BoolVal(False)
          except Unsupported:
            continue
          it.oblige(f'{name}/frame[{fp}]', same, 'frame', {'text': f'{fp} unchanged (not listed in modifies)'})
    elif isinstance(was, VQueue) and isinstance(live, VQueue):
      if not listed(p):
        it.oblige(f'{name}/frame[{p}]', it.eq(live.q.seq, was.q.seq), 'frame', {'text': f'{p} content unchanged'})
    elif isinstance(was, VMList) and isinstance(live, VMList):
      if not listed(p):
        it.oblige(f'{name}/frame[{p}]', it.eq(live.seq, was.seq), 'frame', {'text': f'{p} unchanged'})
    elif isinstance(was, VMap) and isinstance(live, VMap):
      if not listed(p):
        g = z3.And(live.has == was.has, live.val == was.val)
        if was.none is not None:
          g = z3.And(g, live.none == was.none)
        if was.stamp is not None:
          g = z3.And(g, live.stamp == was.stamp)
        it.oblige(f'{name}/frame[{p}]', g, 'frame', {'text': f'{p} unchanged'})
    elif isinstance(was, VIter) and isinstance(live, VIter):
      if not listed(p):
        it.oblige(f'{name}/frame[{p}]', live.pos == was.pos, 'frame', {'text': f'{p} cursor unchanged'})

  for pname, was in old.items():
    if pname.startswith('__') or pname not in env:
      continue
    walk(env[pname], was, pname)


def world_qual(mod, cls, node):
  q = (cls.name + '.' if cls is not None else '') + node.name
  return f'{mod.relpath}::{q}'


def model_dict(m):
  out = {}
  for d in m.decls():
    if d.arity() == 0:
      try:
        out[d.name()] = str(m[d])
      except z3.Z3Exception:
        pass
  return out


def eval_witness(m, v):
  """Concrete Python value of a symbolic value under a model."""
  def ev(t):
    r = m.eval(t, model_completion=True)
    if z3.is_int_value(r):
      return r.as_long()
    if z3.is_true(r):
      return True
    if z3.is_false(r):
      return False
    if z3.is_rational_value(r):
      f = r.as_fraction()
      return float(f)
    return str(r)
  if isinstance(v, VInt) or isinstance(v, VBool):
    return ev(v.t)
  if isinstance(v, VReal):
    return float('nan') if ev(v.nan) is True else ev(v.t)
  if isinstance(v, VNoneT):
    return None
  if isinstance(v, VOpt):
    return None if ev(v.isnone) is True else eval_witness(m, v.val)
  if isinstance(v, (VTuple, VList)):
    return [eval_witness(m, x) for x in v.items]
  if isinstance(v, (VSeq, VMList)):
    s = v.seq if isinstance(v, VMList) else v
    n = ev(s.n)
    if isinstance(n, int) and 0 <= n <= 64:
      return [ev(z3.Select(s.arr, i)) for i in range(n)]
    return f'<seq of length {n}>'
  if isinstance(v, VOpaque):
    return ev(v.t)
  if isinstance(v, VStr):
    return v.s
  return repr(v)


def preload(world, reg):
  for target in reg.contracts:
    try:
      world.module(target.split('::')[0])
    except (OSError, SyntaxError):
      pass


def prove_lemma(world, reg, lemma, prop, timeout_ms=20000, recheck=False):
  res = FnResult(f'lemma::{lemma.name}')
  t0 = time.time()
  preload(world, reg)
  ex = Explorer()

  def run(path):
    it = Interp(world, ex, reg, prop)
    it.cur_name = f'{prop}/lemma:{lemma.name}'
    env = {p: it.fresh(ty, p) for p, ty in lemma.types.items()}
    for p, ty in lemma.types.items():
      if ty == 'region':             # a lemma's region variable plays the role of the ghost region at call sites
        it.ghost[p] = env[p]
    it.entry_old = it.snapshot({})
    for r in lemma.requires:
      it.assume(it.spec(r, env))
    for k, e in enumerate(lemma.ensures):
      it.oblige(f'{prop}/lemma:{lemma.name}/ensures#{k}', it.spec(e, env), 'lemma', {'text': e})
    # vacuity: the hypotheses (and the callee contracts used) must be satisfiable
    # (checked on the pc before the last goal was assumed)
    if path.obls and not ex.feasible(path.obls[-1].pc, z3.BoolVal(True)):
      path.notes.append('DEAD')
    path.notes.append('lemma')

  try:
    obls, paths = ex.explore(run)
    res.paths = len(paths)
    res.covers = sum(1 for p in paths if 'DEAD' not in p.notes)
    if any('DEAD' in p.notes for p in paths):
      res.status, res.error = 'vacuous', 'hypotheses (or the callee contracts used) are contradictory'
    # vacuity of the lemma's hypotheses
    for o in obls:
      discharge(o, timeout_ms)
      if recheck and o.result == 'unsat' and o.backend != 'cvc5':
        from .path import recheck_cvc5
        o.info['cvc5'] = recheck_cvc5(o, 10000)
      if o.result == 'sat' and o.model is not None:
        o.info['model'] = model_dict(o.model)
      o.model = None
    res.obligations = obls
    if res.status == 'proved' and any(o.result != 'unsat' for o in obls):
      res.status = 'failed'
  except Unsupported as e:
    res.status, res.error = 'unsupported', str(e)
  except Exception:   # pylint: disable=broad-exception-caught
    res.status, res.error = 'error', traceback.format_exc()
  res.secs = time.time() - t0
  return res
