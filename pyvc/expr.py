"""Expression evaluation of the symbolic interpreter."""
import ast
import z3

from .values import *   # pylint: disable=wildcard-import
from .path import Unsupported, PathEnd
from .interp import PyRaise, ReturnSig, exc_isinstance, EXC_PARENT, sort_of
from . import world as world_mod

_PARSE_CACHE = {}


def parse_expr(s):
  if s not in _PARSE_CACHE:
    _PARSE_CACHE[s] = ast.parse(s.strip(), mode='eval').body
  return _PARSE_CACHE[s]


class ExprMixin:

  # ---- entry points ---------------------------------------------------------------
  def spec(self, text, env, old_env=None):
    """Evaluates a contract clause (pure, no path forking) to a z3 Bool."""
    self.spec_mode += 1
    saved = self.old_env
    if old_env is not None:
      self.old_env = old_env
    try:
      v = self.ev(parse_expr(text), env)
      return self.truth(v)
    finally:
      self.spec_mode -= 1
      self.old_env = saved

  def spec_val(self, text, env, old_env=None):
    self.spec_mode += 1
    saved = self.old_env
    if old_env is not None:
      self.old_env = old_env
    try:
      return self.ev(parse_expr(text), env)
    finally:
      self.spec_mode -= 1
      self.old_env = saved

  def ev(self, node, env):
    m = getattr(self, 'ev_' + type(node).__name__, None)
    if m is None:
      raise Unsupported(f'expression {type(node).__name__}')
    return m(node, env)

  # ---- leaves -----------------------------------------------------------------------
  def ev_Constant(self, node, env):
    v = node.value
    if isinstance(v, bool):
      return VBool(v)
    if isinstance(v, int):
      return VInt(v)
    if isinstance(v, float):
      if v != v:
        return VReal(0, True)
      if v in (float('inf'), float('-inf')):
        raise Unsupported('inf literal')
      return VReal(z3.RealVal(repr(v)), False)
    if v is None:
      return NONE
    if isinstance(v, str):
      return VStr(v)
    raise Unsupported(f'constant {v!r}')

  def ev_Name(self, node, env):
    return self.lookup(node.id, env)

  def lookup(self, name, env):
    e = env
    while e is not None:
      if name in e:
        return e[name]
      e = e.get('__parent__')
    amap = self.__dict__.get('alpha_map')
    if amap and self.spec_mode and name.startswith('idx_') and name[4:] in amap and name not in self.ghost:
      return self.lookup('idx_' + amap[name[4:]], env)       # the index ghost of a `for x in seq` loop is named after x
    if amap and self.spec_mode and name in amap and name not in self.ghost:
      # the contract names a local of the function as it was when the contract was written; the function now differs
      # from that version only by a renaming of locals (world.alpha_form): read the clause through the renaming
      return self.lookup(amap[name], env)
    if name in self.ghost:
      return self.ghost[name]
    if name in self.reg.ghost_factories:
      self.reg.ghost_factories[name](self)
      return self.ghost[name]
    sp = self.reg.spec_fns.get(name)
    if sp is not None:
      return VFn(name, impl=sp)
    mod = self._module_of(env)
    if mod is not None:
      r = self.module_global(mod, name)
      if r is not None:
        return r
    b = self.builtin(name)
    if b is not None:
      return b
    raise Unsupported(f'unbound name {name!r}')

  def _module_of(self, env):
    e = env
    while e is not None:
      if '__module__' in e:
        return e['__module__']
      e = e.get('__parent__')
    return self.module_stack[-1] if self.module_stack else None

  def module_global(self, mod, name):
    if name in mod.funcs:
      return VFn(name, node=mod.funcs[name], module=mod)
    if name in mod.classes:
      return VClass(name, node=mod.classes[name], module=mod)
    if name in mod.imports:
      dotted = mod.imports[name]
      m2 = self.world.module_by_dotted(dotted)
      if m2 is not None:
        return VModule(dotted)
      # from x import Name  (a function/class of a repo module)
      if '.' in dotted:
        base, attr = dotted.rsplit('.', 1)
        m3 = self.world.module_by_dotted(base)
        if m3 is not None:
          return self.module_global(m3, attr)
      return VModule(dotted)
    if name in mod.assigns:
      return self.ev(mod.assigns[name], {'__module__': mod})
    return None

  def ev_JoinedStr(self, node, env):
    self.dropped.add('f-string')
    return VStr(None)

  def ev_Tuple(self, node, env):
    return VTuple(self._elts(node.elts, env))

  def ev_List(self, node, env):
    return VList(self._elts(node.elts, env))

  def _elts(self, elts, env):
    out = []
    for e in elts:
      if isinstance(e, ast.Starred):
        out.extend(self.iter_concrete(self.ev(e.value, env)))
      else:
        out.append(self.ev(e, env))
    return out

  def ev_Dict(self, node, env):
    d = {}
    for k, v in zip(node.keys, node.values):
      if k is None:
        src = self.ev(v, env)
        if not isinstance(src, VDict):
          raise Unsupported('** of non-concrete dict')
        d.update(src.d)
        continue
      kv = self.ev(k, env)
      d[self.hashable(kv)] = self.ev(v, env)
    return VDict(d)

  def hashable(self, v):
    if isinstance(v, VStr) and v.s is not None:
      return v.s
    if isinstance(v, VInt) and z3.is_int_value(v.t):
      return v.t.as_long()
    if isinstance(v, VTuple):
      return tuple(self.hashable(x) for x in v.items)
    raise Unsupported('symbolic dict key')

  def ev_Lambda(self, node, env):
    return VFn('<lambda>', node=node, module=self._module_of(env), closure=env)

  def ev_NamedExpr(self, node, env):
    v = self.ev(node.value, env)
    env[node.target.id] = v
    return v

  def ev_Slice(self, node, env):
    lo = self.ev(node.lower, env) if node.lower else NONE
    hi = self.ev(node.upper, env) if node.upper else NONE
    st = self.ev(node.step, env) if node.step else NONE
    return VSlice(lo, hi, st)

  def ev_IfExp(self, node, env):
    c = self.truth(self.ev(node.test, env))
    if self.spec_mode:
      c = z3.simplify(c)
      if z3.is_true(c):
        return self.ev(node.body, env)
      if z3.is_false(c):
        return self.ev(node.orelse, env)
      return self.ite(c, self.ev(node.body, env), self.ev(node.orelse, env))
    if self.branch(c):
      return self.ev(node.body, env)
    return self.ev(node.orelse, env)

  def ev_BoolOp(self, node, env):
    is_and = isinstance(node.op, ast.And)
    if self.spec_mode:
      vals = [self.ev(v, env) for v in node.values]
      if all(isinstance(v, (VBool,)) for v in vals):
        ts = [v.t for v in vals]
        return VBool(z3.And(ts) if is_and else z3.Or(ts))
      # value-returning and/or
      res = vals[-1]
      for v in reversed(vals[:-1]):
        t = self.truth(v)
        res = self.ite(t, res, v) if is_and else self.ite(t, v, res)
      return res
    res = None
    for i, vn in enumerate(node.values):
      res = self.ev(vn, env)
      if i == len(node.values) - 1:
        return res
      t = self.branch(self.truth(res))
      if is_and and not t:
        return res
      if not is_and and t:
        return res
    return res

  def ev_UnaryOp(self, node, env):
    v = self.ev(node.operand, env)
    if isinstance(node.op, ast.Not):
      return VBool(z3.Not(self.truth(v)))
    if isinstance(node.op, ast.USub):
      v = self.unopt(v)
      if isinstance(v, VReal):
        return VReal(-v.t, v.nan)
      return VInt(-self.to_int(v))
    if isinstance(node.op, ast.UAdd):
      return v
    if isinstance(node.op, ast.Invert):
      if isinstance(v, VBool):      # numpy ~ on boolean (pointwise)
        return VBool(z3.Not(v.t))
      return VInt(-self.to_int(v) - 1)
    raise Unsupported('unary op')

  # ---- arithmetic -------------------------------------------------------------------
  def ev_BinOp(self, node, env):
    a = self.ev(node.left, env)
    b = self.ev(node.right, env)
    return self.binop(node.op, a, b)

  def binop(self, op, a, b):
    a, b = self.unopt(a), self.unopt(b)
    if isinstance(a, VVec) or isinstance(b, VVec):          # numpy elementwise / broadcasting
      xs = a.items if isinstance(a, (VVec, VList, VTuple)) else [a] * len(b.items)
      ys = b.items if isinstance(b, (VVec, VList, VTuple)) else [b] * len(xs)
      if len(xs) != len(ys):
        self.raise_('ValueError', VStr('operands could not be broadcast together'))
      return VVec([self.binop(op, x, y) for x, y in zip(xs, ys)])
    # sequences
    if isinstance(op, ast.Add):
      if isinstance(a, VTuple) and isinstance(b, VTuple):
        return VTuple(a.items + b.items)
      if isinstance(a, VList) and isinstance(b, VList):
        return VList(a.items + b.items)
      if isinstance(a, VStr) and isinstance(b, VStr):
        return VStr(None if a.s is None or b.s is None else a.s + b.s)
      if isinstance(a, VMList) and isinstance(b, VMList) and not a.is_deque and not b.is_deque and a.seq.kind == b.seq.kind:
        # list + list of symbolic lengths: a NEW list holding the items of both, in order
        sa, sb = a.seq, b.seq
        j = z3.Int(self.path.fresh_name('j'))
        arr = z3.Lambda([j], z3.If(j < sa.n, z3.Select(sa.arr, j), z3.Select(sb.arr, j - sa.n)))
        return VMList(VSeq(arr, sa.n + sb.n, sa.kind))
    if isinstance(op, ast.Mult):
      if isinstance(a, VList) and isinstance(b, VInt) and z3.is_int_value(b.t):
        return VList(a.items * b.t.as_long())
    if isinstance(op, (ast.BitAnd, ast.BitOr)) and isinstance(a, VBool) and isinstance(b, VBool):
      return VBool(z3.And(a.t, b.t) if isinstance(op, ast.BitAnd) else z3.Or(a.t, b.t))
    if isinstance(op, ast.Mod) and isinstance(a, VStr):
      return VStr(None)
    if isinstance(a, VReal) or isinstance(b, VReal) or isinstance(op, ast.Div):
      return self.real_binop(op, self.to_real(a), self.to_real(b))
    x, y = self.to_int(a), self.to_int(b)
    if isinstance(op, ast.Add):
      return VInt(x + y)
    if isinstance(op, ast.Sub):
      return VInt(x - y)
    if isinstance(op, ast.Mult):
      return VInt(x * y)
    if isinstance(op, (ast.FloorDiv, ast.Mod)):
      q, r = self.divmod_(x, y)
      return VInt(q if isinstance(op, ast.FloorDiv) else r)
    if isinstance(op, ast.Pow):
      if z3.is_int_value(y) and 0 <= y.as_long() <= 4:
        r = z3.IntVal(1)
        for _ in range(y.as_long()):
          r = r * x
        return VInt(r)
    raise Unsupported(f'int binop {type(op).__name__}')

  def divmod_(self, x, y):
    """Python floor division for ints. Exact for y > 0 (SMT div is then floor);
    for y < 0 uses -((-x) div (-y)) adjusted; y == 0 raises."""
    if not self.spec_mode:
      if self.branch(y == 0):
        self.raise_('ZeroDivisionError', VStr('integer division or modulo by zero'))
    # For positive divisors SMT-LIB div/mod are floor div/mod.
    q_pos, r_pos = x / y, x % y
    # For negative divisors: python q = floor(x / y); r = x - q*y, r in (y, 0].
    ny = -y
    q_neg = (-x) / ny        # floor((-x)/(-y)) == floor(x/y), SMT div is floor for ny > 0
    r_neg = x - q_neg * y
    q = z3.If(y > 0, q_pos, q_neg)
    r = z3.If(y > 0, r_pos, r_neg)
    return q, r

  def real_binop(self, op, a, b):
    nan = z3.Or(a.nan, b.nan)
    if isinstance(op, ast.Add):
      return VReal(a.t + b.t, nan)
    if isinstance(op, ast.Sub):
      return VReal(a.t - b.t, nan)
    if isinstance(op, ast.Mult):
      return VReal(a.t * b.t, nan)
    if isinstance(op, ast.Div):
      # numpy semantics: x/0 is non-finite; folded into the NaN flag (A1).
      return VReal(z3.If(b.t == 0, z3.RealVal(0), a.t / b.t), z3.Or(nan, b.t == 0))
    if isinstance(op, ast.Pow):
      bt = z3.simplify(b.t)
      if z3.is_rational_value(bt) or z3.is_int_value(bt):
        b = VReal(bt, b.nan)
        if b.t.as_fraction() == 2:
          return VReal(a.t * a.t, nan)
        if b.t.as_fraction() == 1:
          return VReal(a.t, nan)
    raise Unsupported(f'real binop {type(op).__name__}')

  def ev_Compare(self, node, env):
    left = self.ev(node.left, env)
    conds = []
    for op, rn in zip(node.ops, node.comparators):
      right = self.ev(rn, env)
      c = self.compare(op, left, right)
      if len(node.ops) > 1 and not self.spec_mode:
        # chained comparisons short-circuit
        if not self.branch(c):
          return VBool(False)
      else:
        conds.append(c)
      left = right
    if not conds:
      return VBool(True)
    return VBool(z3.And(conds) if len(conds) > 1 else conds[0])

  def compare(self, op, a, b):
    if isinstance(op, ast.Is):
      return self.ident(a, b)
    if isinstance(op, ast.IsNot):
      return z3.Not(self.ident(a, b))
    if isinstance(op, ast.Eq):
      return self.eq_dispatch(a, b)
    if isinstance(op, ast.NotEq):
      return z3.Not(self.eq_dispatch(a, b))
    if isinstance(op, (ast.In, ast.NotIn)):
      c = self.contains(b, a)
      return c if isinstance(op, ast.In) else z3.Not(c)
    a, b = self.unopt(a), self.unopt(b)
    if isinstance(a, VReal) or isinstance(b, VReal):
      ra, rb = self.to_real(a), self.to_real(b)
      x, y = ra.t, rb.t
      ok = z3.And(z3.Not(ra.nan), z3.Not(rb.nan))   # comparisons with NaN are False
    else:
      x, y = self.to_int(a), self.to_int(b)
      ok = z3.BoolVal(True)
    if isinstance(op, ast.Lt):
      c = x < y
    elif isinstance(op, ast.LtE):
      c = x <= y
    elif isinstance(op, ast.Gt):
      c = x > y
    elif isinstance(op, ast.GtE):
      c = x >= y
    else:
      raise Unsupported('compare op')
    return z3.And(ok, c) if not z3.is_true(ok) else c

  def eq_dispatch(self, a, b):
    if isinstance(a, VObj) and not a.frozen:
      mod, cls, m = self.world.method(a.cls, '__eq__')
      if m is not None:
        return self.truth(self.call_repo(mod, cls, m, [a, b], {}))
    return self.eq(a, b)

  def contains(self, container, x):
    container = self.unopt(container)
    if isinstance(container, (VTuple, VList)):
      return z3.Or([self.eq(x, y) for y in container.items] or [z3.BoolVal(False)])
    if isinstance(container, VDict):
      try:
        return z3.BoolVal(self.hashable(x) in container.d)
      except Unsupported:
        return z3.Or([self.eq(x, VStr(k) if isinstance(k, str) else VInt(k)) for k in container.d] or [z3.BoolVal(False)])
    if isinstance(container, VMap):
      self.check_guard(container, 'contains')
      return z3.Select(container.has, self.unwrap_key(container, x))
    if isinstance(container, VObj):
      mod, cls, m = self.world.method(container.cls, '__contains__')
      if m is not None:
        return self.truth(self.call_repo(mod, cls, m, [container, x], {}))
    if isinstance(container, (VSeq, VMList)):
      s = container.seq if isinstance(container, VMList) else container
      i = z3.Int(self.path.fresh_name('k'))
      return z3.Exists([i], z3.And(0 <= i, i < s.n, s.arr[i] == self.unwrap(s.kind, x)))
    raise Unsupported(f'in {type(container).__name__}')

  def unwrap_key(self, m, k):
    if m.ksort == z3.IntSort():
      return self.to_int(k)
    return self.to_obj(k)

  # ---- subscripts -----------------------------------------------------------------------
  def ev_Subscript(self, node, env):
    base = self.ev(node.value, env)
    idx = self.ev(node.slice, env)
    return self.getitem(base, idx)

  def norm_index(self, i, n):
    return z3.If(i < 0, i + n, i)

  def slice_bounds(self, sl, n):
    """Python slice normalisation (step None) -> (lo, hi) with 0<=lo<=hi'<=n."""
    def norm(v, default):
      if isinstance(v, VNoneT):
        return default
      if isinstance(v, VOpt):
        x = self.to_int(v.val)
        x = z3.If(x < 0, z3.If(x + n < 0, 0, x + n), z3.If(x > n, n, x))
        return z3.If(v.isnone, default, x)
      x = self.to_int(v)
      return z3.If(x < 0, z3.If(x + n < 0, 0, x + n), z3.If(x > n, n, x))
    lo = norm(sl.lo, z3.IntVal(0))
    hi = norm(sl.hi, n)
    return lo, hi

  def getitem(self, base, idx):
    base = self.unopt(base)
    if isinstance(base, VVec):
      base = VTuple(base.items)
    if isinstance(idx, VSlice) and isinstance(base, VCounterView):
      # a prefix of the (sorted) entries: at most `hi` of them
      if not isinstance(idx.lo, VNoneT) or not isinstance(idx.step, VNoneT) or isinstance(idx.hi, VNoneT):
        raise Unsupported('slice of counter entries other than [:k]')
      hi = self.to_int(idx.hi)
      if base.limit is not None:
        hi = z3.If(base.limit < hi, base.limit, hi)
      return VCounterView(base.m, hi)
    if isinstance(idx, VSlice):
      return self.getslice(base, idx)
    if isinstance(base, (VTuple, VList)):
      i = self.to_int(idx)
      i = z3.simplify(i)
      n = len(base.items)
      if z3.is_int_value(i):
        k = i.as_long()
        if -n <= k < n:
          return base.items[k]
        if self.spec_mode:
          raise Unsupported('spec index out of range')
        self.raise_('IndexError', VStr('index out of range'))
      if n == 0:
        if self.spec_mode:       # (guarded) element of an empty list inside a specification: an undefined value
          return VOpaque(z3.Const(self.path.fresh_name('undef'), Obj))
        self.raise_('IndexError', VStr('index out of range'))
      ni = self.norm_index(i, n)
      if not self.spec_mode and self.branch(z3.Or(ni < 0, ni >= n)):
        self.raise_('IndexError', VStr('index out of range'))
      res = base.items[n - 1]
      for k in range(n - 2, -1, -1):
        res = self.ite(ni == k, base.items[k], res)
      return res
    if isinstance(base, (VSeq, VMList)):
      s = base.seq if isinstance(base, VMList) else base
      i = self.to_int(idx)
      ni = z3.simplify(self.norm_index(i, s.n))
      if not self.spec_mode and self.branch(z3.Or(ni < 0, ni >= s.n)):
        self.raise_('IndexError', VStr('index out of range'))
      return self.wrap(s.kind, z3.Select(s.arr, ni))
    if isinstance(base, VDict):
      k = self.hashable(idx)
      if k in base.d:
        return base.d[k]
      self.raise_('KeyError', idx)
    if isinstance(base, VMap):
      self.check_guard(base, 'read')
      k = self.unwrap_key(base, idx)
      if not self.spec_mode and self.branch(z3.Not(z3.Select(base.has, k))):
        self.raise_('KeyError', idx)
      return self.map_value(base, k)
    if isinstance(base, VObj):
      mod, cls, m = self.world.method(base.cls, '__getitem__')
      if m is not None:
        return self.call_method(base, mod, cls, m, [idx], {})
    if isinstance(base, VOpaque):
      i = self.to_int(idx)
      ni = self.norm_index(i, len_of(base.t))
      if not self.spec_mode:
        if self.branch(z3.Or(ni < 0, ni >= len_of(base.t))):
          self.raise_('IndexError', VStr('index out of range'))
        ferr = self.opaque_item_fails(base, ni)
        if ferr is not None and self.branch(ferr):
          self.raise_(self.reg.opaque_item_error, VStr('read failed'))
      return VOpaque(item_of(base.t, ni))
    raise Unsupported(f'getitem on {type(base).__name__}')

  def opaque_item_fails(self, base, i):
    """Fault map for random-access reads of user data (A6): None = never fails."""
    f = self.ghost.get('__read_fails__')
    if f is None:
      return None
    return f(base.t, i)

  def map_value(self, m, k):
    v = self.wrap(m.vkind, z3.Select(m.val, k))
    if m.none is not None:
      return VOpt(z3.Select(m.none, k), v)
    return v

  def getslice(self, base, sl):
    if not isinstance(sl.step, VNoneT):
      raise Unsupported('slice step')
    if isinstance(base, (VTuple, VList)):
      n = len(base.items)
      def conc(v, d):
        if isinstance(v, VNoneT):
          return d
        t = z3.simplify(self.to_int(v))
        if not z3.is_int_value(t):
          raise Unsupported('symbolic slice of concrete sequence')
        return t.as_long()
      lo, hi = conc(sl.lo, None), conc(sl.hi, None)
      return type(base)(base.items[lo:hi])
    if isinstance(base, (VSeq, VMList)):
      s = base.seq if isinstance(base, VMList) else base
      lo, hi = self.slice_bounds(sl, s.n)
      n2 = z3.If(hi > lo, hi - lo, 0)
      j = z3.Int(self.path.fresh_name('j'))
      arr = z3.Lambda([j], z3.Select(s.arr, j + lo))
      return VSeq(arr, z3.simplify(n2), s.kind)
    if isinstance(base, VObj):
      mod, cls, m = self.world.method(base.cls, '__getitem__')
      if m is not None:
        return self.call_method(base, mod, cls, m, [sl], {})
    if isinstance(base, VOpaque):
      # slice of user data: a fresh sized opaque whose items are the shifted items
      lo, hi = self.slice_bounds(sl, len_of(base.t))
      if not self.spec_mode:
        f = self.ghost.get('__slice_fails__')
        if f is not None and self.branch(f(base.t, lo, hi)):
          self.raise_(self.reg.opaque_item_error, VStr('read failed'))
      r = z3.Const(self.path.fresh_name('slice'), Obj)
      self.assume(len_of(r) == z3.If(hi > lo, hi - lo, 0))
      j = z3.Int(self.path.fresh_name('j'))
      self.assume(z3.ForAll([j], z3.Implies(z3.And(0 <= j, j < len_of(r)), item_of(r, j) == item_of(base.t, j + lo))))
      return VOpaque(r)
    raise Unsupported(f'slice of {type(base).__name__}')

  # ---- comprehensions over concrete iterables ---------------------------------------------
  def iter_concrete(self, v):
    v = self.unopt(v)
    if isinstance(v, VLazy):
      return list(v.force())
    if isinstance(v, (VTuple, VList, VVec)):
      return list(v.items)
    if isinstance(v, VDict):
      return [VStr(k) if isinstance(k, str) else VInt(k) for k in v.d]
    if isinstance(v, VRange):
      lo, hi = z3.simplify(v.lo), z3.simplify(v.hi)
      if z3.is_int_value(lo) and z3.is_int_value(hi):
        return [VInt(k) for k in range(lo.as_long(), hi.as_long())]
    raise Unsupported(f'iteration over non-concrete {type(v).__name__}')

  def ev_ListComp(self, node, env):
    return VList(self._comp(node, env))

  def ev_DictComp(self, node, env):
    if len(node.generators) != 1 or node.generators[0].ifs:
      raise Unsupported('dict comprehension with conditions / several generators')
    g = node.generators[0]
    d = {}
    for x in self.iter_concrete(self.ev(g.iter, env)):
      e2 = {'__parent__': env}
      self.assign_target(g.target, x, e2)
      d[self.hashable(self.ev(node.key, e2))] = self.ev(node.value, e2)
    return VDict(d)

  def ev_GeneratorExp(self, node, env):
    if len(node.generators) == 1 and len(node.generators[0].ifs) == 1 and not self.spec_mode:
      src = self.unopt(self.ev(node.generators[0].iter, env))
      if isinstance(src, VIter):
        return self.filtered_gen(src, node.generators[0], node.elt, env)
      return VList(self._comp(node, env, src))
    if len(node.generators) == 1 and not node.generators[0].ifs and not self.spec_mode:
      src = self.ev(node.generators[0].iter, env)
      src = self.unopt(src)
      if isinstance(src, VIter):
        return VGen(src, node.generators[0].target, node.elt, env)
      # over a concrete collection: the iterable is evaluated now, the elements (and their effects) on consumption
      return VLazy(lambda _n=node, _e=env, _s=src: self._comp(_n, _e, _s))
    if self.spec_mode:
      return VList(self._comp(node, env))
    return VLazy(lambda _n=node, _e=env: self._comp(_n, _e))

  def filtered_gen(self, src, gen, elt, env):
    """(elt for target in it if cond) over a fault-free ghost iterator, summarised (A2: comprehension semantics): the
    result delivers elt(x) for exactly the elements x with a true cond, in order; the ghost counting function
    kept_upto(j) = number of kept elements before position j relates the positions."""
    if src.wrap_fn is not None:
      raise Unsupported('filtered generator expression over a wrapped iterator')
    j = z3.Int(self.path.fresh_name('j'))
    e2 = {'__parent__': env}
    self.assign_target(gen.target, self.wrap(src.src.kind, z3.Select(src.src.arr, j)), e2)
    self.spec_mode += 1
    try:
      keep = self.truth(self.ev(gen.ifs[0], e2))
      val = self.unwrap('obj', self.ev(elt, e2))
    finally:
      self.spec_mode -= 1
    cnt = z3.Function(self.path.fresh_name('kept_upto'), z3.IntSort(), z3.IntSort())
    p0, n = src.pos, src.src.n
    if src.fails is not None:        # the source may fail: everything up to the first failing position is filtered,
      f = self.fresh_int('first_failure')      # then the generator dies with that error
      self.assume(z3.And(p0 <= f, f <= n))
      self.assume(z3.ForAll([j], z3.Implies(z3.And(p0 <= j, j < f), z3.Not(z3.Select(src.fails, j)))))
      self.assume(z3.Implies(f < n, z3.Select(src.fails, f)))
    else:
      f = n
    self.assume(cnt(p0) == 0)
    self.assume(z3.ForAll([j], z3.Implies(z3.And(p0 <= j, j < f), cnt(j + 1) == cnt(j) + z3.If(keep, 1, 0))))
    self.assume(z3.ForAll([j], z3.Implies(z3.And(p0 <= j, j <= f), z3.And(0 <= cnt(j), cnt(j) <= j - p0))))
    out = z3.Array(self.path.fresh_name('filtered.arr'), z3.IntSort(), Obj)
    self.assume(z3.ForAll([j], z3.Implies(z3.And(p0 <= j, j < f, keep), z3.Select(out, cnt(j)) == val)))
    fails = None
    total = cnt(f)
    if src.fails is not None:
      i = z3.Int(self.path.fresh_name('i'))
      fails = z3.Lambda([i], z3.And(f < n, i == cnt(f)))
      total = cnt(f) + z3.If(f < n, 1, 0)
    r = VIter(VSeq(out, total, 'obj'), z3.IntVal(0), fails, False, None, tag='filtered')
    r.err = src.err
    r.kept = (cnt, keep, j, p0, f)
    src.pos = z3.If(f < n, f + 1, n) if src.fails is not None else n
    return r

  def _comp(self, node, env, src=None):
    if len(node.generators) != 1:
      raise Unsupported('nested comprehension')
    g = node.generators[0]
    out = []
    for x in self.iter_concrete(self.ev(g.iter, env) if src is None else src):
      e2 = {'__parent__': env}
      self.assign_target(g.target, x, e2)
      ok = True
      for c in g.ifs:
        t = self.truth(self.ev(c, e2))
        if self.spec_mode:
          raise Unsupported('filtered comprehension in spec')
        if not self.branch(t):
          ok = False
          break
      if ok:
        out.append(self.ev(node.elt, e2))
    return out

  def ev_Attribute(self, node, env):
    base = self.ev(node.value, env)
    return self.getattr_(base, node.attr)

  def ev_Call(self, node, env):
    return self.call_node(node, env)

  def ev_Starred(self, node, env):
    raise Unsupported('starred outside call')

  def ev_Yield(self, node, env):
    v = self.ev(node.value, env) if node.value else NONE
    self.do_yield(v)
    return NONE

  def ev_YieldFrom(self, node, env):
    src = self.ev(node.value, env)
    r = self.do_yield_from(src)
    return r if r is not None else NONE
