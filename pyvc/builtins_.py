"""Builtins and standard-library models (trusted library contracts: A2)."""
import ast
import z3

from .values import *   # pylint: disable=wildcard-import
from .path import Unsupported, PathEnd
from .interp import PyRaise, ReturnSig, exc_isinstance, EXC_PARENT, sort_of, none_obj
from .calls import VFirstKeyIter, is_stop_fn

EXC_NAMES = [n for n in EXC_PARENT if '.' not in n]


class BuiltinMixin:

  def builtin(self, name):
    if name in EXC_NAMES:
      return VClass(name)
    if name in ('int', 'bool', 'float', 'str', 'slice', 'tuple', 'list', 'dict', 'object', 'set', 'type'):
      return VFn(name, impl=getattr(self, 'bi_' + name, None) or self._bi_unsupported(name))
    m = getattr(self, 'bi_' + name, None)
    if m is not None:
      return VFn(name, impl=m)
    if name in ('True', 'False'):
      return VBool(name == 'True')
    return None

  def _bi_unsupported(self, name):
    def f(it, a, k):
      raise Unsupported(f'builtin {name}()')
    return f

  def bi_len(self, it, a, k):
    v = self.unopt(a[0])
    if isinstance(v, (VTuple, VList)):
      return VInt(len(v.items))
    if isinstance(v, VDict):
      return VInt(len(v.d))
    if isinstance(v, VSeq):
      return VInt(v.n)
    if isinstance(v, VMList):
      return VInt(v.seq.n)
    if isinstance(v, VMap):
      return VInt(v.size)
    if isinstance(v, VOpaque):
      return VInt(len_of(v.t))
    if isinstance(v, VObj):
      mod, cls, m = self.world.method(v.cls, '__len__')
      if m is not None:
        return self.call_method(v, mod, cls, m, [], {})
    if isinstance(v, VStr) and v.s is not None:
      return VInt(len(v.s))
    raise Unsupported(f'len({type(v).__name__})')

  def bi_range(self, it, a, k):
    if len(a) == 1:
      return VRange(z3.IntVal(0), self.to_int(a[0]))
    if len(a) == 2:
      return VRange(self.to_int(a[0]), self.to_int(a[1]))
    raise Unsupported('range with step')

  def _minmax(self, a, k, is_min):
    items = a
    if len(a) == 1:
      items = self.iter_concrete(a[0])
    if not items:
      self.raise_('ValueError', VStr('empty sequence'))
    res = self.unopt(items[0])
    for x in items[1:]:
      x = self.unopt(x)
      if isinstance(res, VReal) or isinstance(x, VReal):
        rr, rx = self.to_real(res), self.to_real(x)
        c = (rx.t < rr.t) if is_min else (rx.t > rr.t)
        res = VReal(z3.If(c, rx.t, rr.t), z3.Or(rr.nan, rx.nan))
      else:
        ti, tx = self.to_int(res), self.to_int(x)
        c = (tx < ti) if is_min else (tx > ti)
        res = VInt(z3.If(c, tx, ti))
    return res

  def bi_min(self, it, a, k):
    return self._minmax(a, k, True)

  def bi_max(self, it, a, k):
    return self._minmax(a, k, False)

  def bi_abs(self, it, a, k):
    v = self.unopt(a[0])
    if isinstance(v, VReal):
      return VReal(z3.If(v.t < 0, -v.t, v.t), v.nan)
    t = self.to_int(v)
    return VInt(z3.If(t < 0, -t, t))

  def bi_int(self, it, a, k):
    v = self.unopt(a[0])
    if isinstance(v, (VInt, VBool)):
      return VInt(self.to_int(v))
    raise Unsupported('int() of non-int')

  def bi_bool(self, it, a, k):
    return VBool(self.truth(a[0]))

  def bi_float(self, it, a, k):
    v = a[0]
    if isinstance(v, VStr) and v.s in ('inf', 'nan'):
      if v.s == 'nan':
        return VReal(0, True)
      raise Unsupported('inf')
    return self.to_real(v)

  def bi_divmod(self, it, a, k):
    q, r = self.divmod_(self.to_int(a[0]), self.to_int(a[1]))
    return VTuple([VInt(q), VInt(r)])

  def bi_isinstance(self, it, a, k):
    return VBool(self.isinstance_(a[0], a[1]))

  def bi_iter(self, it, a, k):
    return self.iter_(a[0])

  def bi_next(self, it, a, k):
    x = a[0]
    if isinstance(x, VFirstKeyIter):
      return self.map_first_key(x.m)
    return self.next_(x, a[1] if len(a) > 1 else None)

  def bi_list(self, it, a, k):
    if not a:
      return VList([])
    v = self.unopt(a[0])
    if isinstance(v, VLazy):
      return VList(v.force())
    if isinstance(v, (VTuple, VList)):
      return VList(v.items)
    if isinstance(v, VSeq):
      return VMList(v)
    if isinstance(v, VMList):
      return VMList(v.seq)
    raise Unsupported(f'list({type(v).__name__})')

  def bi_tuple(self, it, a, k):
    if not a:
      return VTuple([])
    v = self.unopt(a[0])
    if isinstance(v, VLazy):
      return VTuple(v.force())
    if isinstance(v, (VTuple, VList)):
      return VTuple(v.items)
    if isinstance(v, (VSeq, VMList)):
      return v.seq if isinstance(v, VMList) else v
    raise Unsupported(f'tuple({type(v).__name__})')

  def bi_callable(self, it, a, k):
    v = self.unopt(a[0])
    if isinstance(v, (VFn, VClass, VPartial)):
      return VBool(True)
    if isinstance(v, VOpaque):
      return VBool(callable_fn(v.t))
    if isinstance(v, VObj):
      return VBool(self.world.method(v.cls, '__call__')[2] is not None)
    return VBool(False)

  def bi_dict(self, it, a, k):
    if a and isinstance(a[0], VCounterView):
      return a[0]
    if not a:
      return VDict(dict(k))
    if len(a) == 1 and isinstance(a[0], VDict):
      return VDict(dict(a[0].d, **k))
    if len(a) == 1 and isinstance(a[0], VMap) and not k:      # shallow copy: a new map holding the SAME value objects
      m = a[0]
      return VMap(m.has, m.val, m.ksort, m.vkind, m.none, m.stamp, m.clock, m.size)
    raise Unsupported(f'dict({type(a[0]).__name__})')

  def bi_slice(self, it, a, k):
    a = list(a) + [NONE] * (3 - len(a))
    if len([x for x in a if x is not NONE]) == 1 and a[1] is NONE:
      return VSlice(NONE, a[0], NONE)
    return VSlice(a[0], a[1], a[2])

  def bi_getattr(self, it, a, k):
    name = a[1].s
    try:
      return self.getattr_(a[0], name)
    except Unsupported:
      if len(a) > 2:
        return a[2]
      raise

  def bi_hasattr(self, it, a, k):
    raise Unsupported('hasattr via value call')

  def bi_all(self, it, a, k):
    return VBool(z3.And([self.truth(x) for x in self.iter_concrete(a[0])] or [z3.BoolVal(True)]))

  def bi_any(self, it, a, k):
    return VBool(z3.Or([self.truth(x) for x in self.iter_concrete(a[0])] or [z3.BoolVal(False)]))

  def bi_sum(self, it, a, k):
    items = self.iter_concrete(a[0])
    res = VInt(0)
    for x in items:
      res = self.binop(ast.Add(), res, x)
    return res

  def bi_enumerate(self, it, a, k):
    return VList([VTuple([VInt(i), x]) for i, x in enumerate(self.iter_concrete(a[0]))])

  def bi_map(self, it, a, k):
    """map over a concrete-length collection is evaluated eagerly (the mapped callables are pure here); map over a
    ghost iterator is lazy: element j is f(src[j]) for the uninterpreted (deterministic, possibly failing) f, an
    element fails when the source fails there or f raises on it; a map object can be resumed after a failure (A6)."""
    if len(a) != 2:
      raise Unsupported('map with several iterables')
    if isinstance(a[1], VIter):
      f, src = a
      if src.wrap_fn is not None or src.src.kind not in ('obj',):
        raise Unsupported('lazy map over a non-opaque iterator')
      ft = self.fn_symbol(f)
      ap = opaque_fn(1)
      j = z3.Int(self.path.fresh_name('j'))
      elem = z3.Select(src.src.arr, j)
      bad = fn_raises(ft, elem)
      if src.fails is not None:
        bad = z3.Or(z3.Select(src.fails, j), bad)
      m = VIter(VSeq(z3.Lambda([j], ap(ft, elem)), src.src.n, 'obj'), src.pos, z3.Lambda([j], bad), True, src.ret, tag='map')
      m.dead = src.dead
      m.err = 'ValueError'
      return m
    return VList([self.call_value(a[0], [x], {}) for x in self.iter_concrete(a[1])])

  def fn_symbol(self, f):
    """The Obj term that names a callable in uninterpreted applications."""
    if isinstance(f, VOpaque):
      return f.t
    if isinstance(f, VFn) and f.node is not None and f.bound is not None:
      # a bound method, abstracted to a deterministic function of (receiver, argument) that may fail
      base = z3.Function('method_of', Obj, Obj, Obj)
      return base(self.str_obj('method:' + f.name), self.to_obj(f.bound))
    if isinstance(f, VFn) and f.node is not None:
      return self.str_obj('function:' + f.name)
    raise Unsupported(f'{type(f).__name__} as a mapped function')

  def bi_zip(self, it, a, k):
    if a and all(isinstance(x, (VIter, VSeq, VMList)) for x in a):
      strict = 'strict' in k and z3.is_true(z3.simplify(self.truth(k['strict'])))
      return VZip([self.iter_(x) for x in a], strict)
    cols = [self.iter_concrete(x) for x in a]
    if 'strict' in k and len(set(map(len, cols))) > 1:
      self.raise_('ValueError', VStr('zip() arguments have different lengths'))
    return VList([VTuple(list(r)) for r in zip(*cols)])

  def bi_id(self, it, a, k):
    raise Unsupported('id()')

  def bi_print(self, it, a, k):
    return NONE

  def bi_sorted(self, it, a, k):
    if a and isinstance(a[0], VCounterView):
      return a[0]            # the same entries; their order is not modelled
    raise Unsupported('sorted')

  def counter_from_view(self, view):
    """collections.Counter(dict(view)): a NEW counter holding `limit` of the entries of view.m with their counts."""
    m = view.m
    c = self.fresh_map('obj', 'int', 'counter')
    c.is_counter = True
    kk = z3.Const(self.path.fresh_name('k'), m.ksort)
    sub = z3.ForAll([kk], z3.Implies(z3.Select(c.has, kk), z3.And(z3.Select(m.has, kk), z3.Select(c.val, kk) == z3.Select(m.val, kk))))
    same = z3.ForAll([kk], z3.Select(c.has, kk) == z3.Select(m.has, kk))
    self.assume(sub)
    if view.limit is None:
      self.assume(z3.And(same, c.size == m.size))
    else:
      lim = z3.If(view.limit < 0, z3.IntVal(0), view.limit)
      self.assume(z3.Implies(m.size <= lim, z3.And(same, c.size == m.size)))
      self.assume(z3.Implies(m.size > lim, c.size == lim))
    return c

  def lib_collections_Counter(self, it, a, k):
    if not a:
      c = self.fresh_map('obj', 'int', 'counter')
      c.is_counter = True
      c.has = z3.K(Obj, z3.BoolVal(False))
      self.assume(c.size == 0)
      return c
    v = self.unopt(a[0])
    if isinstance(v, VCounterView):
      return self.counter_from_view(v)
    if isinstance(v, VMap) and v.is_counter:
      return self.counter_from_view(VCounterView(v))
    raise Unsupported(f'Counter({type(v).__name__})')

  def bi_setattr(self, it, a, k):
    self.setattr_(a[0], a[1].s, a[2])
    return NONE

  # ---- modules -----------------------------------------------------------------------------------
  def module_attr(self, m, name):
    dotted = m.name
    repo = self.world.module_by_dotted(dotted)
    if repo is not None:
      r = self.module_global(repo, name)
      if r is None:
        raise Unsupported(f'{dotted}.{name}')
      return r
    base = dotted.split('.')[-1]
    full = f'{base}.{name}'
    if full in EXC_PARENT:
      return VClass(full)
    if f'futures.{name}' in EXC_PARENT and base in ('futures', 'concurrent'):
      return VClass(f'futures.{name}')
    h = getattr(self, f'lib_{base}_{name}', None)
    if h is not None:
      return VFn(full, impl=h)
    if base == 'itertools' and name == 'chain':
      return VFn('itertools.chain', impl=self.lib_itertools_chain)
    if dotted == 'itertools.chain' and name == 'from_iterable':
      return VFn('itertools.chain.from_iterable', impl=self.lib_itertools_chain_from_iterable)
    if base in ('logging',):
      return VFn(full, impl=lambda it, a, k: NONE)
    if base == 'np' or dotted == 'numpy':
      h = getattr(self, f'np_{name}', None)
      if h is not None:
        return VFn(full, impl=h)
      if name == 'nan':
        return VReal(0, True)
      if name == 'newaxis':
        return NONE
    if base == 'types' or base == 'typing':
      return VClass(name)
    sub = VModule(f'{dotted}.{name}')
    return sub

  def lib_dataclasses_replace(self, it, a, k):
    obj = self.unopt(a[0])
    if not isinstance(obj, VObj):
      raise Unsupported('dc.replace of non-record')
    new = VObj(obj.cls, {}, obj.frozen, obj.types, tag=self.path.fresh_name(obj.tag + "'"))
    sch = self.reg.classes.get(obj.cls)
    ghost = sch.ghost if sch is not None else set()
    names = {n for n in set(obj.f) | set(obj.types) if n not in ghost and not n.startswith('__')}
    for n in names:
      if n not in k and n not in obj.f:
        self.getfield(obj, n)        # lazily typed field: instantiate it so that old and new share it
    for n in names:
      if n in k:
        new.f[n] = k[n]
      elif n in obj.f:
        new.f[n] = obj.f[n]
    for n in k:
      if n not in names:
        self.raise_('TypeError', VStr(f'unexpected field {n}'))
    # dataclasses.replace calls __init__ -> __post_init__
    _, _, post = self.world.method(obj.cls, '__post_init__')
    if post is not None:
      mod, cls = self.world.class_by_name(obj.cls)
      fz, new.frozen = new.frozen, False
      self.call_repo(mod, cls, post, [new], {})
      new.frozen = fz
    if sch is not None and sch.on_new is not None:
      sch.on_new(self, new)
    return new

  lib_dc_replace = lib_dataclasses_replace

  def lib_bisect_bisect_left(self, it, a, k):
    """Trusted contract (A2): for a sorted array returns p with
    all(a[:p] < x) and all(a[p:] >= x)."""
    return self._bisect(a, left=True)

  def lib_bisect_bisect_right(self, it, a, k):
    return self._bisect(a, left=False)

  def _bisect(self, a, left):
    seq = self.unopt(a[0])
    s = seq.seq if isinstance(seq, VMList) else seq
    if not isinstance(s, VSeq):
      raise Unsupported('bisect on non-seq')
    x = self.to_int(a[1])
    p = self.fresh_int('bisect')
    j = z3.Int(self.path.fresh_name('j'))
    self.assume(z3.And(0 <= p, p <= s.n))
    if left:
      self.assume(z3.ForAll([j], z3.Implies(z3.And(0 <= j, j < p), z3.Select(s.arr, j) < x)))
      self.assume(z3.ForAll([j], z3.Implies(z3.And(p <= j, j < s.n), z3.Select(s.arr, j) >= x)))
    else:
      self.assume(z3.ForAll([j], z3.Implies(z3.And(0 <= j, j < p), z3.Select(s.arr, j) <= x)))
      self.assume(z3.ForAll([j], z3.Implies(z3.And(p <= j, j < s.n), z3.Select(s.arr, j) > x)))
    return VInt(p)

  def lib_functools_partial(self, it, a, k):
    return VPartial(a[0], a[1:], dict(k))

  def lib_mit_sliced(self, it, a, k):
    """more_itertools.sliced(seq, n) (trusted, A2): slice t is seq[t*n : (t+1)*n], ceil(len/n) slices."""
    seq = self.unopt(a[0])
    n = self.to_int(k['n'] if 'n' in k else a[1])
    if not isinstance(seq, VOpaque):
      raise Unsupported('mit.sliced of a non-opaque sequence')
    key = ('slice_of',)
    fn = _SLICE_OF
    ln = len_of(seq.t)
    count = z3.If(ln <= 0, z3.IntVal(0), (ln + n - 1) / n)
    t = z3.Int(self.path.fresh_name('t'))
    src = VSeq(z3.Lambda([t], fn(seq.t, t, n)), count, 'obj')
    vit = VIter(src, z3.IntVal(0), None, True, None, tag='sliced')

    def on_elem(i, v, _seq=seq, _n=n):
      # facts about slice i (instantiated when the slice is taken)
      st = fn(_seq.t, i, _n)
      rest = len_of(_seq.t) - i * _n
      self.assume(len_of(st) == z3.If(rest < _n, rest, _n))
      j = z3.Int(self.path.fresh_name('j'))
      self.assume(z3.ForAll([j], z3.Implies(z3.And(0 <= j, j < len_of(st)), item_of(st, j) == item_of(_seq.t, i * _n + j))))
    vit.on_elem = on_elem
    return vit

  lib_more_itertools_sliced = lib_mit_sliced

  def lib_mit_padded(self, it, a, k):
    """more_itertools.padded(iterable, fillvalue, n) (trusted, A2): the elements, then `fillvalue` until at least n items."""
    seq = self.unopt(a[0])
    fill = a[1] if len(a) > 1 else k.get('fillvalue', NONE)
    n = self.to_int(a[2] if len(a) > 2 else k['n'])
    s = seq.seq if isinstance(seq, VMList) else seq
    if not isinstance(s, VSeq):
      raise Unsupported(f'mit.padded of {type(seq).__name__}')
    j = z3.Int(self.path.fresh_name('j'))
    total = z3.If(s.n >= n, s.n, n)
    arr = z3.Lambda([j], z3.If(j < s.n, z3.Select(s.arr, j), self.unwrap(s.kind, fill)))
    return VSeq(arr, z3.simplify(total), s.kind)

  lib_more_itertools_padded = lib_mit_padded

  def np_zeros(self, it, a, k):
    n = z3.simplify(self.to_int(a[0]))
    if not z3.is_int_value(n):
      raise Unsupported('np.zeros of symbolic length')
    return VVec([VInt(0) for _ in range(n.as_long())])

  def lib_math_isclose(self, it, a, k):
    """math.isclose(a, b, rel_tol=1e-09, abs_tol=0.0): |a-b| <= max(rel_tol * max(|a|, |b|), abs_tol); False with a NaN."""
    x, y = self.to_real(a[0]), self.to_real(a[1])
    rel = self.to_real(k['rel_tol']).t if 'rel_tol' in k else z3.RealVal('1/1000000000')
    ab = self.to_real(k['abs_tol']).t if 'abs_tol' in k else z3.RealVal(0)
    absf = lambda t: z3.If(t >= 0, t, -t)
    mx = z3.If(absf(x.t) >= absf(y.t), absf(x.t), absf(y.t))
    tol = z3.If(rel * mx >= ab, rel * mx, ab)
    return VBool(z3.And(z3.Not(x.nan), z3.Not(y.nan), absf(x.t - y.t) <= tol))

  def lib_itertools_starmap(self, it, a, k):
    """itertools.starmap(f, pairs) over a ghost iterator of pairs: element j is f(fst(pair_j), snd(pair_j)) (lazy, A6)."""
    from .interp import pair_fst, pair_snd
    f, src = a
    if not isinstance(src, VIter) or src.wrap_fn is not None:
      raise Unsupported('starmap over a non-ghost iterator')
    ft = self.fn_symbol(f)
    ap = opaque_fn(2)
    j = z3.Int(self.path.fresh_name('j'))
    elem = z3.Select(src.src.arr, j)
    bad = fn_raises(ft, elem)
    if src.fails is not None:
      bad = z3.Or(z3.Select(src.fails, j), bad)
    m = VIter(VSeq(z3.Lambda([j], ap(ft, pair_fst(elem), pair_snd(elem))), src.src.n, 'obj'), src.pos, z3.Lambda([j], bad), True, src.ret, tag='starmap')
    m.dead = src.dead
    m.err = 'ValueError'
    return m

  def lib_itertools_chain(self, it, a, k):
    """itertools.chain(*concrete iterables): their concatenation."""
    out = []
    for x in a:
      out.extend(self.iter_concrete(x))
    return VList(out)

  def lib_more_itertools_partition(self, it, a, k):
    """more_itertools.partition(pred, iterable) over a concrete collection: (items with false pred, items with true pred)."""
    pred, items = a[0], self.iter_concrete(a[1])
    no, yes = [], []
    for x in items:
      (yes if self.branch(self.truth(self.call_value(pred, [x], {}))) else no).append(x)
    return VTuple([VList(no), VList(yes)])

  lib_mit_partition = lib_more_itertools_partition

  def lib_itertools_chain_from_iterable(self, it, a, k):
    """chain.from_iterable(parts): an opaque iterator that delivers its parts one after the other; the ghost
    functions nparts / part_of record them (A2)."""
    parts = a[0]
    if isinstance(parts, VLazy):
      parts = VList(parts.force())
    r = z3.Const(self.path.fresh_name('chain'), Obj)
    if isinstance(parts, (VList, VTuple)):
      self.assume(nparts_fn(r) == len(parts.items))
      for j, x in enumerate(parts.items):
        self.assume(part_fn(r, j) == self.to_obj(x))
    elif isinstance(parts, (VMList, VSeq)):
      sq = parts.seq if isinstance(parts, VMList) else parts
      self.assume(nparts_fn(r) == sq.n)
      j = z3.Int(self.path.fresh_name('j'))
      self.assume(z3.ForAll([j], z3.Implies(z3.And(0 <= j, j < sq.n), part_fn(r, j) == z3.Select(sq.arr, j))))
    else:
      raise Unsupported(f'chain.from_iterable({type(parts).__name__})')
    return VOpaque(r)

  def lib_time_time(self, it, a, k):
    """Wall clock: a non-decreasing ghost (A5)."""
    prev = self.ghost.get('__clock__')
    t = z3.Real(self.path.fresh_name('now'))
    if prev is not None:
      self.assume(t >= prev.t)
    self.ghost['__clock__'] = VReal(t, False)
    return VReal(t, False)

  def lib_time_sleep(self, it, a, k):
    return NONE

  def lib_copy_copy(self, it, a, k):
    v = self.unopt(a[0])
    if isinstance(v, VList):
      return VList(v.items)
    if isinstance(v, VMList):
      return VMList(v.seq, v.is_deque)
    if isinstance(v, VDict):
      return VDict(v.d)
    if isinstance(v, VObj):
      return VObj(v.cls, dict(v.f), v.frozen, v.types, tag=self.path.fresh_name(v.tag + "'"))
    return v

  def lib_copy_deepcopy(self, it, a, k):
    """copy.deepcopy (A2) of maps / lists of opaque mutable objects and of such objects: every object is replaced by a
    NEW object `deep_copy_of(x)` (distinct from x) that carries the same abstract value; containers are new too."""
    v = self.unopt(a[0])
    j = z3.Int(self.path.fresh_name('j'))
    x = z3.Const(self.path.fresh_name('x'), Obj)
    self.assume(z3.ForAll([x], deepcopy_fn(x) != x))
    if isinstance(v, VOpaque):
      return VOpaque(deepcopy_fn(v.t))
    if isinstance(v, (VSeq, VMList)):
      s_ = v.seq if isinstance(v, VMList) else v
      if s_.kind != 'obj':
        return VMList(s_) if isinstance(v, VMList) else s_
      r = VSeq(z3.Lambda([j], deepcopy_fn(z3.Select(s_.arr, j))), s_.n, 'obj')
      return VMList(r) if isinstance(v, VMList) else r
    if isinstance(v, VMap) and v.val.sort().range() == Obj and v.none is None and v.stamp is None:
      kk = z3.Const(self.path.fresh_name('k'), v.ksort)
      return VMap(v.has, z3.Lambda([kk], deepcopy_fn(z3.Select(v.val, kk))), v.ksort, v.vkind, size=v.size)
    if isinstance(v, VNoneT):
      return v
    raise Unsupported(f'deepcopy of {type(v).__name__}')

  def lib_collections_deque(self, it, a, k):
    kind = self.reg.default_elem_kind
    d = VMList(VSeq(z3.K(z3.IntSort(), _default(kind)), z3.IntVal(0), kind), is_deque=True)
    if a:
      raise Unsupported('deque(iterable)')
    # maxlen: -1 stands for None (unbounded); a bounded deque drops its OLDEST element when a full one is appended to
    ml = k.get('maxlen')
    if ml is None or isinstance(self.unopt(ml) if not isinstance(ml, VOpt) else ml, VNoneT):
      d.maxlen = z3.IntVal(-1)
    elif isinstance(ml, VOpt):
      d.maxlen = z3.If(ml.isnone, z3.IntVal(-1), self.to_int(ml.val))
    else:
      d.maxlen = self.to_int(ml)
    return d

  def lib_collections_OrderedDict(self, it, a, k):
    m = self.fresh_map('obj', 'obj', 'odict', ordered=True)
    m.has = z3.K(Obj, z3.BoolVal(False))
    m.size = z3.IntVal(0)
    m.clock = z3.IntVal(0)
    return m

  def builtin_class(self, name, args, kwargs):
    raise Unsupported(f'instantiation of {name}')


_SLICE_OF = z3.Function('slice_of', Obj, z3.IntSort(), z3.IntSort(), Obj)
deepcopy_fn = z3.Function('deep_copy_of', Obj, Obj)        # ghost: the new object copy.deepcopy makes of a mutable object
fn_raises = z3.Function('fn_raises', Obj, Obj, z3.BoolSort())     # ghost: the callable raises on this argument


def opaque_fn(arity):
  from .calls import opaque_call
  fn = opaque_call.get(arity)
  if fn is None:
    fn = z3.Function(f'apply{arity}', *([Obj] * (arity + 2)))
    opaque_call[arity] = fn
  return fn


callable_fn = z3.Function('is_callable', Obj, z3.BoolSort())     # ghost: an opaque object can be called
nparts_fn = z3.Function('nparts', Obj, z3.IntSort())            # ghost: number of iterators chained into an opaque iterator
part_fn = z3.Function('part_of', Obj, z3.IntSort(), Obj)        # ghost: its j-th part


def _default(kind):
  if kind == 'int':
    return z3.IntVal(0)
  if kind == 'bool':
    return z3.BoolVal(False)
  if kind == 'real':
    return z3.RealVal(0)
  return none_obj
