"""Heap of nested containers for the tree-view proofs (assumption A9).

Nodes and leaves are terms of sort Obj.  `tkind` (immutable) says what a node is; the mutable part
of the heap is ONE z3 value of the datatype `Heap` (so that contracts can quantify over heaps):

  h_has[o][kv]   dict node o has a key whose value-class is kv          h_dch[o][kv]  its child
  h_len[o]       length of list/tuple node o                            h_item[o][i]  its i-th child

plus the allocation set `alloc` (Array Obj -> Bool) kept next to it.  Python operations on nodes
(`t[k]`, `t[k] = v`, `t.get`, `t.append`, `len`, `copy.copy`, `list`, `tuple`, literals `[x]`, `{k: x}`,
`isinstance`, `hasattr`) are functional updates / reads of that value, forking on the kind.

Key-path elements are Obj terms with `kkind` (plain / Index / Reserved / Literal), `kval` (the value
class used for == and hashing, so a plain 'SELF' string and Reserved('SELF') are == but of different
kind, as in Python), `kint` (integer value of int-like keys).  A key path is VKeyPath(arr, lo, hi):
the elements arr[lo..hi); taking the tail keeps `arr`, so `rd(H, t, arr, hi, lo+1)` is literally the
one-step unfolding of `rd(H, t, arr, hi, lo)`.
"""
import ast
import z3

from .values import *   # pylint: disable=wildcard-import
from .path import Unsupported
from .interp import PyRaise

I, B = z3.IntSort(), z3.BoolSort()
KVal = z3.DeclareSort('KVal')
kval = z3.Function('kval', Obj, KVal)
kint = z3.Function('kint', Obj, I)
kkind = z3.Function('kkind', Obj, I)
kisint = z3.Function('kisint', Obj, B)
khash = z3.Function('khash', Obj, B)
litval = z3.Function('litval', Obj, Obj)
tkind = z3.Function('tkind', Obj, I)
K_PLAIN, K_INDEX, K_RESERVED, K_LITERAL = 0, 1, 2, 3
T_LEAF, T_DICT, T_LIST, T_TUPLE, T_NULL = 0, 1, 2, 3, 4
KIND_NAMES = {T_LEAF: 'leaf', T_DICT: 'dict', T_LIST: 'list', T_TUPLE: 'tuple', T_NULL: 'NullMap'}

Heap = z3.Datatype('Heap')
Heap.declare('mkheap',
             ('h_has', z3.ArraySort(Obj, z3.ArraySort(KVal, B))),
             ('h_dch', z3.ArraySort(Obj, z3.ArraySort(KVal, Obj))),
             ('h_len', z3.ArraySort(Obj, I)),
             ('h_item', z3.ArraySort(Obj, z3.ArraySort(I, Obj))))
Heap = Heap.create()
h_has, h_dch, h_len, h_item, mkheap = Heap.h_has, Heap.h_dch, Heap.h_len, Heap.h_item, Heap.mkheap
PathArr = z3.ArraySort(I, Obj)

SELF_KEY = z3.Const('key.Reserved.SELF', Obj)
SKIP_KEY = z3.Const('key.Reserved.SKIP', Obj)


def listlike(t):
  return z3.Or(tkind(t) == T_LIST, tkind(t) == T_TUPLE)


def is_self(k):
  return z3.And(kkind(k) == K_RESERVED, kval(k) == kval(SELF_KEY))


def norm(i, n):
  return z3.If(i < 0, i + n, i)


def child_of(H, t, k):
  return z3.If(listlike(t), h_item(H)[t][norm(kint(k), h_len(H)[t])], h_dch(H)[t][kval(k)])


def present(H, t, k):
  n = h_len(H)[t]
  return z3.If(listlike(t), z3.And(kisint(k), -n <= kint(k), kint(k) < n),
               z3.And(tkind(t) == T_DICT, khash(k), h_has(H)[t][kval(k)]))


# rd / rdok: the specification of reading a key path (what TreeMapView.__get computes): stop at SELF,
# a Literal yields its own value, otherwise descend.
rd = z3.RecFunction('rd', Heap, Obj, PathArr, I, I, Obj)
rdok = z3.RecFunction('rdok', Heap, Obj, PathArr, I, I, B)
_H, _t, _p, _n, _i = z3.Const('H_', Heap), z3.Const('t_', Obj), z3.Const('p_', PathArr), z3.Int('n_'), z3.Int('i_')
z3.RecAddDefinition(rd, [_H, _t, _p, _n, _i], z3.If(
    _i >= _n, _t, z3.If(is_self(_p[_i]), _t, z3.If(
        kkind(_p[_i]) == K_LITERAL, litval(_p[_i]), rd(_H, child_of(_H, _t, _p[_i]), _p, _n, _i + 1)))))
z3.RecAddDefinition(rdok, [_H, _t, _p, _n, _i], z3.If(
    _i >= _n, True, z3.If(is_self(_p[_i]), True, z3.If(
        kkind(_p[_i]) == K_LITERAL, True,
        z3.And(present(_H, _t, _p[_i]), rdok(_H, child_of(_H, _t, _p[_i]), _p, _n, _i + 1))))))


def rows_equal(G, H, o):
  return z3.And(h_has(G)[o] == h_has(H)[o], h_dch(G)[o] == h_dch(H)[o],
                h_len(G)[o] == h_len(H)[o], h_item(G)[o] == h_item(H)[o])


def agree(G, H, S, tag='o'):
  o = z3.Const(f'{tag}!ag', Obj)
  return z3.ForAll([o], z3.Implies(S(o), rows_equal(G, H, o)))


def closed(S, H, tag='c'):
  """Children of nodes of S are in S (S is a union of whole subtrees)."""
  o = z3.Const(f'{tag}!o', Obj)
  kv = z3.Const(f'{tag}!kv', KVal)
  i = z3.Int(f'{tag}!i')
  return z3.And(
      z3.ForAll([o, kv], z3.Implies(z3.And(S(o), tkind(o) == T_DICT, h_has(H)[o][kv]), S(h_dch(H)[o][kv]))),
      z3.ForAll([o, i], z3.Implies(z3.And(S(o), listlike(o), 0 <= i, i < h_len(H)[o]), S(h_item(H)[o][i]))),
      z3.ForAll([o], z3.Implies(z3.And(S(o), listlike(o)), h_len(H)[o] >= 0)))


class VTree(VOpaque):
  """A node, leaf or any other object that can sit in a tree (sort Obj, kind = tkind(t))."""
  __slots__ = ()

  def __repr__(self):
    return f'VTree({self.t})'


class VTKey(VOpaque):
  """An element of a key path."""
  __slots__ = ('const_cls',)

  def __init__(self, t, const_cls=None):
    super().__init__(t)
    self.const_cls = const_cls

  def __repr__(self):
    return f'VTKey({self.t})'


class VKeyPath(V):
  """tree.Key: the elements arr[lo..hi)."""
  __slots__ = ('arr', 'lo', 'hi')

  def __init__(self, arr, lo, hi):
    self.arr, self.lo, self.hi = arr, lo, hi

  @property
  def n(self):
    return z3.simplify(self.hi - self.lo)

  def __repr__(self):
    return f'VKeyPath[{self.lo}:{self.hi}]'


class VRegion(V):
  """A ghost set of heap nodes, given by its membership predicate (a Python function Obj term -> z3 Bool)."""
  __slots__ = ('mem',)

  def __init__(self, mem):
    self.mem = mem

  @staticmethod
  def of_array(arr):
    return VRegion(lambda o, _a=arr: _a[o])


class VHeap(V):
  """A heap value named in a lemma."""
  __slots__ = ('t',)

  def __init__(self, t):
    self.t = t


class TreeHeapMixin:
  """Overrides of the interpreter's generic operations for VTree / VTKey / VKeyPath values."""

  # ---- state ---------------------------------------------------------------------------------------
  def tree_init(self):
    if getattr(self, 'th', None) is None:
      self.th = {'H': z3.Const(self.path.fresh_name('heap'), Heap),
                 'alloc': z3.Array(self.path.fresh_name('alloc'), Obj, B)}
      self.th_stack = []
      self.local_fresh = []
      self.assume(kkind(SELF_KEY) == K_RESERVED)
      self.assume(kkind(SKIP_KEY) == K_RESERVED)
      self.assume(kval(SELF_KEY) != kval(SKIP_KEY))
    return self.th

  def cur_heap(self):
    """The heap a specification talks about: the pre-state one inside old(...)."""
    self.tree_init()
    if self.th_stack:
      return self.th_stack[-1]
    return self.th

  def key_facts(self, t):
    self.assume(z3.And(kkind(t) >= 0, kkind(t) <= 3))
    self.assume(z3.Implies(kkind(t) == K_INDEX, z3.And(kisint(t), khash(t))))
    self.assume(z3.Implies(z3.Or(kkind(t) == K_RESERVED, kkind(t) == K_LITERAL), z3.And(z3.Not(kisint(t)), khash(t))))

  def fresh(self, ty, name):
    ty = ty.strip()
    if ty == 'tree':
      self.tree_init()
      t = z3.Const(self.path.fresh_name(name), Obj)
      self.assume(self.th['alloc'][t])
      self.assume(z3.And(tkind(t) >= 0, tkind(t) <= 4))
      return VTree(t)
    if ty == 'tkey':
      self.tree_init()
      t = z3.Const(self.path.fresh_name(name), Obj)
      self.key_facts(t)
      return VTKey(t)
    if ty == 'keypath':
      self.tree_init()
      arr = z3.Array(self.path.fresh_name(name + '.arr'), I, Obj)
      lo, hi = z3.Int(self.path.fresh_name(name + '.lo')), z3.Int(self.path.fresh_name(name + '.hi'))
      self.assume(z3.And(0 <= lo, lo <= hi))
      j = z3.Int(self.path.fresh_name('j'))
      e = arr[j]
      self.assume(z3.ForAll([j], z3.And(
          kkind(e) >= 0, kkind(e) <= 3,
          z3.Implies(kkind(e) == K_INDEX, z3.And(kisint(e), khash(e))),
          z3.Implies(z3.Or(kkind(e) == K_RESERVED, kkind(e) == K_LITERAL), z3.And(z3.Not(kisint(e)), khash(e))))))
      return VKeyPath(arr, lo, hi)
    if ty == 'set[obj]':
      return self.fresh_set(name)
    if ty == 'parr':        # pointwise array of non-negative finite numbers
      t = z3.Real(self.path.fresh_name(name))
      return VPArr(t, False)
    if ty == 'pcols':       # pointwise 2-D array: a generic row, addressed by column
      return VPCols(z3.Function(self.path.fresh_name(name + '.col'), z3.IntSort(), z3.RealSort()))
    if ty == 'heap':
      self.tree_init()
      return VHeap(z3.Const(self.path.fresh_name(name), Heap))
    if ty == 'region':
      self.tree_init()
      return VRegion.of_array(z3.Array(self.path.fresh_name(name), Obj, B))
    return super().fresh(ty, name)

  def wrap(self, kind, t):
    if kind == 'tree':
      return VTree(t)
    if kind == 'tkey':
      return VTKey(t)
    return super().wrap(kind, t)

  # ---- finite sets of objects (A2) ---------------------------------------------------------------------
  def set_facts(self, st):
    """Cardinality facts linking the size of a finite set with its membership predicate (0, 1 and 2-or-more)."""
    x, y = z3.Const(self.path.fresh_name('x'), Obj), z3.Const(self.path.fresh_name('y'), Obj)
    self.assume(st.size >= 0)
    self.assume(z3.ForAll([x], z3.Implies(st.has[x], st.size >= 1)))
    self.assume(z3.Implies(st.size >= 1, z3.Exists([x], st.has[x])))
    self.assume(z3.ForAll([x, y], z3.Implies(z3.And(st.has[x], st.has[y], x != y), st.size >= 2)))
    self.assume(z3.Implies(st.size >= 2, z3.Exists([x, y], z3.And(st.has[x], st.has[y], x != y))))
    return st

  def fresh_set(self, name):
    return self.set_facts(VSet(z3.Array(self.path.fresh_name(name + '.has'), Obj, B), z3.Int(self.path.fresh_name(name + '.size'))))

  def set_of(self, items):
    has, size = z3.K(Obj, z3.BoolVal(False)), z3.IntVal(0)
    for v in items:
      t = self.to_obj(v)
      size = z3.If(has[t], size, size + 1)
      has = z3.Store(has, t, True)
    return self.set_facts(VSet(has, z3.simplify(size)))

  def set_method(self, st, name, a, k):
    other = a[0] if a else None
    if isinstance(other, (VTuple, VList)):
      other = self.set_of(other.items)
    if name in ('intersection', 'union') and isinstance(other, VSet):
      x = z3.Const(self.path.fresh_name('x'), Obj)
      has = z3.Array(self.path.fresh_name(f'{name}.has'), Obj, B)
      size = z3.Int(self.path.fresh_name(f'{name}.size'))
      comb = z3.And if name == 'intersection' else z3.Or
      self.assume(z3.ForAll([x], has[x] == comb(st.has[x], other.has[x])))
      r = self.set_facts(VSet(has, size))
      inter_size = size if name == 'intersection' else z3.Int(self.path.fresh_name('meet.size'))
      if name == 'union':          # |A u B| = |A| + |B| - |A n B|; the meet is empty iff no common member
        self.assume(size == st.size + other.size - inter_size)
        self.assume(inter_size >= 0)
        self.assume((inter_size == 0) == z3.Not(z3.Exists([x], z3.And(st.has[x], other.has[x]))))
      else:
        self.assume(z3.And(size <= st.size, size <= other.size))
      return r
    raise Unsupported(f'set method {name}')

  def new_node(self, kind, name='node'):
    """Allocates a node: a constant outside the allocated set (hence distinct from every known node)."""
    th = self.tree_init()
    t = z3.Const(self.path.fresh_name(name), Obj)
    self.assume(z3.Not(th['alloc'][t]))
    if isinstance(kind, int):
      self.assume(tkind(t) == kind)
    else:
      self.assume(tkind(t) == kind)
    th['alloc'] = z3.Store(th['alloc'], t, True)
    self.local_fresh.append((t, kind))
    return t

  def set_rows(self, t, has=None, dch=None, ln=None, item=None):
    H = self.th['H']
    self.th['H'] = mkheap(
        h_has(H) if has is None else z3.Store(h_has(H), t, has),
        h_dch(H) if dch is None else z3.Store(h_dch(H), t, dch),
        h_len(H) if ln is None else z3.Store(h_len(H), t, ln),
        h_item(H) if item is None else z3.Store(h_item(H), t, item))

  def copy_rows(self, dst, src):
    H = self.th['H']
    self.set_rows(dst, h_has(H)[src], h_dch(H)[src], h_len(H)[src], h_item(H)[src])

  def kind_is(self, t, *kinds):
    """Forks on the kind of node t; returns the first of `kinds` that holds or None."""
    for kd in kinds:
      if self.branch(tkind(t) == kd):
        return kd
    return None

  def as_tree(self, v):
    if isinstance(v, VTree):
      return v.t
    if isinstance(v, (VOpaque, VInt, VBool, VNoneT)):
      return self.to_obj(v)
    raise Unsupported(f'{type(v).__name__} stored in a tree node')

  def key_int(self, k):
    """(is-int, value) of an index expression."""
    if isinstance(k, VTKey):
      return kisint(k.t), kint(k.t)
    if isinstance(k, (VInt, VBool)):
      return z3.BoolVal(True), self.to_int(k)
    raise Unsupported(f'{type(k).__name__} as sequence index')

  def key_val(self, k):
    if isinstance(k, VTKey):
      return kval(k.t), khash(k.t)
    raise Unsupported(f'{type(k).__name__} as mapping key of a tree node')

  # ---- Python operations on nodes ---------------------------------------------------------------------
  def getitem(self, base, idx):
    if isinstance(base, VPCols):
      if isinstance(idx, VTuple) and len(idx.items) == 2 and isinstance(idx.items[0], VSlice):
        return VReal(base.col(self.to_int(idx.items[1])), False)       # a[:, j]: column j of the generic row
      raise Unsupported('subscript of a column-addressed array other than a[:, j]')
    if isinstance(base, VPArr):
      return VReal(base.t, base.nan)        # the generic element of the (sliced / broadcast) array
    if isinstance(base, VKeyPath):
      if isinstance(idx, VSlice):
        raise Unsupported('slice of a key path')
      i = self.to_int(idx)
      n = base.hi - base.lo
      ni = z3.simplify(norm(i, n))
      if not self.spec_mode and self.branch(z3.Or(ni < 0, ni >= n)):
        self.raise_('IndexError', VStr('tuple index out of range'))
      return VTKey(base.arr[z3.simplify(base.lo + ni)])
    if isinstance(base, VTree):
      return self.tree_get(base.t, idx)
    return super().getitem(base, idx)

  def tree_get(self, t, idx):
    H = self.th['H']
    if self.spec_mode:
      raise Unsupported('node subscript in a specification: use t_child/t_item')
    kd = self.kind_is(t, T_DICT, T_LIST, T_TUPLE, T_NULL)
    if kd == T_DICT:
      kv, hashable = self.key_val(idx)
      if self.branch(z3.Not(hashable)):
        self.raise_('TypeError', VStr('unhashable key'))
      if self.branch(z3.Not(h_has(H)[t][kv])):
        self.raise_('KeyError', idx)
      return VTree(h_dch(H)[t][kv])
    if kd in (T_LIST, T_TUPLE):
      isint, i = self.key_int(idx)
      if self.branch(z3.Not(isint)):
        self.raise_('TypeError', VStr('sequence indices must be integers'))
      n = h_len(H)[t]
      if self.branch(z3.Or(i < -n, i >= n)):
        self.raise_('IndexError', VStr('index out of range'))
      return VTree(h_item(H)[t][norm(i, n)])
    if kd == T_NULL:
      return NONE            # NullMap.__getitem__ returns None
    self.raise_('TypeError', VStr('leaf is not subscriptable'))

  def setitem(self, base, idx, v):
    if isinstance(base, VTree):
      return self.tree_set(base.t, idx, v)
    return super().setitem(base, idx, v)

  def tree_set(self, t, idx, v):
    H = self.th['H']
    kd = self.kind_is(t, T_DICT, T_LIST)
    val = self.as_tree(v)
    if kd == T_DICT:
      kv, hashable = self.key_val(idx)
      if self.branch(z3.Not(hashable)):
        self.raise_('TypeError', VStr('unhashable key'))
      self.set_rows(t, has=z3.Store(h_has(H)[t], kv, True), dch=z3.Store(h_dch(H)[t], kv, val))
      return
    if kd == T_LIST:
      isint, i = self.key_int(idx)
      if self.branch(z3.Not(isint)):
        self.raise_('TypeError', VStr('list indices must be integers'))
      n = h_len(H)[t]
      if self.branch(z3.Or(i < -n, i >= n)):
        self.raise_('IndexError', VStr('list assignment index out of range'))
      self.set_rows(t, item=z3.Store(h_item(H)[t], norm(i, n), val))
      return
    self.raise_('TypeError', VStr('object does not support item assignment'))

  def tree_method(self, t, name, a, k):
    H = self.th['H']
    if name == 'append':
      if self.kind_is(t, T_LIST) is None:
        raise Unsupported('append on a non-list node')
      n = h_len(H)[t]
      self.set_rows(t, ln=n + 1, item=z3.Store(h_item(H)[t], n, self.as_tree(a[0])))
      return NONE
    if name == 'get':
      if self.kind_is(t, T_DICT) is None:
        raise Unsupported('get on a non-dict node')
      kv, hashable = self.key_val(a[0])
      if self.branch(z3.Not(hashable)):
        self.raise_('TypeError', VStr('unhashable key'))
      default = a[1] if len(a) > 1 else NONE
      if isinstance(default, VNoneT):
        if self.branch(h_has(H)[t][kv]):
          return VTree(h_dch(H)[t][kv])
        return NONE
      return VTree(z3.If(h_has(H)[t][kv], h_dch(H)[t][kv], self.as_tree(default)))
    raise Unsupported(f'method {name} of a tree node')

  def getattr_(self, v, name):
    if isinstance(v, VFn) and v.name == 'itertools.chain' and name == 'from_iterable':
      return VFn('itertools.chain.from_iterable', impl=self.lib_itertools_chain_from_iterable)
    if isinstance(v, VSet):
      return VFn(f'set.{name}', impl=lambda it, a, k, _v=v, _n=name: it.set_method(_v, _n, a, k))
    if isinstance(v, VTree):
      if name in ('append', 'get'):
        t = v.t
        return VFn(f'node.{name}', impl=lambda it, a, k, _t=t, _n=name: it.tree_method(_t, _n, a, k))
      raise Unsupported(f'attribute {name} of a tree node')
    if isinstance(v, VClass) and v.name == 'Key' and name in ('SELF', 'SKIP'):
      self.tree_init()
      return VTKey(SELF_KEY if name == 'SELF' else SKIP_KEY, 'Reserved')
    if isinstance(v, VTKey) and name == 'value':
      if self.spec_mode or not self.branch(kkind(v.t) != K_LITERAL):
        return VTree(litval(v.t))
      raise Unsupported('.value of a key that is not a Literal')
    return super().getattr_(v, name)

  def bi_set(self, it, a, k):
    if not a:
      return self.set_of([])
    v = self.unopt(a[0])
    if isinstance(v, VSet):
      return v
    return self.set_of(self.iter_concrete(v))

  def contains(self, container, x):
    if isinstance(container, VSet):
      return container.has[self.to_obj(x)]
    return super().contains(container, x)

  def bi_len(self, it, a, k):
    v = a[0]
    if isinstance(v, VSet):
      return VInt(v.size)
    if isinstance(v, VKeyPath):
      return VInt(v.n)
    if isinstance(v, VTree):
      H = self.th['H']
      if self.kind_is(v.t, T_LIST, T_TUPLE) is not None:
        return VInt(h_len(H)[v.t])
      raise Unsupported('len() of a dict / leaf node')
    return super().bi_len(it, a, k)

  def lib_copy_copy(self, it, a, k):
    v = a[0]
    if isinstance(v, VTree):
      kd = self.kind_is(v.t, T_DICT, T_LIST)
      if kd is None:
        return v             # immutable objects are returned as they are
      n = self.new_node(kd, 'copy')
      self.copy_rows(n, v.t)
      return VTree(n)
    return super().lib_copy_copy(it, a, k)

  def bi_list(self, it, a, k):
    if a and isinstance(a[0], VLazy):
      return super().bi_list(it, a, k)
    if a and isinstance(a[0], VTree):
      if self.kind_is(a[0].t, T_LIST, T_TUPLE) is None:
        raise Unsupported('list() of a dict / leaf node')
      n = self.new_node(T_LIST, 'list')
      self.copy_rows(n, a[0].t)
      return VTree(n)
    return super().bi_list(it, a, k)

  def bi_tuple(self, it, a, k):
    if a and isinstance(a[0], VTree):
      kd = self.kind_is(a[0].t, T_TUPLE, T_LIST)
      if kd is None:
        raise Unsupported('tuple() of a dict / leaf node')
      if kd == T_TUPLE:
        return a[0]
      n = self.new_node(T_TUPLE, 'tuple')
      self.copy_rows(n, a[0].t)
      return VTree(n)
    if a and isinstance(a[0], VKeyPath):
      return a[0]
    return super().bi_tuple(it, a, k)

  def bi_type(self, it, a, k):
    v = a[0]
    if isinstance(v, VTuple):
      return self.builtin('tuple')
    if isinstance(v, VTree):
      return VClass('<type of a tree value>')      # a leaf / node is not a plain tuple of outputs (A9)
    if isinstance(v, VTKey) and v.const_cls:
      mod, cls = self.world.class_by_name(v.const_cls)
      return VClass(v.const_cls, node=cls, module=mod)
    if isinstance(v, VObj):
      mod, cls = self.world.class_by_name(v.cls)
      return VClass(v.cls, node=cls, module=mod)
    if isinstance(v, VOpaque):
      return VClass('<type of an opaque value>')
    raise Unsupported(f'type({type(v).__name__})')

  def ev_List(self, node, env):
    vals = self._elts(node.elts, env)
    if vals and all(isinstance(x, VTree) for x in vals):
      n = self.new_node(T_LIST, 'listlit')
      item = h_item(self.th['H'])[n]
      for j, x in enumerate(vals):
        item = z3.Store(item, j, x.t)
      self.set_rows(n, ln=z3.IntVal(len(vals)), item=item)
      return VTree(n)
    return VList(vals)

  def ev_Dict(self, node, env):
    if node.keys and all(k is not None for k in node.keys):
      keys = [self.ev(k, env) for k in node.keys]
      if all(isinstance(k, VTKey) for k in keys):
        vals = [self.ev(v, env) for v in node.values]
        n = self.new_node(T_DICT, 'dictlit')
        has, dch = z3.K(KVal, z3.BoolVal(False)), h_dch(self.th['H'])[n]
        for kk, x in zip(keys, vals):
          kv, hashable = self.key_val(kk)
          if self.branch(z3.Not(hashable)):
            self.raise_('TypeError', VStr('unhashable key'))
          has, dch = z3.Store(has, kv, True), z3.Store(dch, kv, self.as_tree(x))
        self.set_rows(n, has=has, dch=dch)
        return VTree(n)
    return super().ev_Dict(node, env)

  # ---- classes, isinstance, hasattr, equality -------------------------------------------------------------
  def instantiate(self, c, args, kwargs):
    if c.name == 'NullMap':
      return VTree(self.new_node(T_NULL, 'nullmap'))
    if c.name == 'Key':
      self.tree_init()
      if not args:
        return VKeyPath(z3.K(I, SELF_KEY), z3.IntVal(0), z3.IntVal(0))
      if isinstance(args[0], VKeyPath):
        return args[0]
      raise Unsupported(f'Key({type(args[0]).__name__})')
    if c.name == 'Reserved' and args and isinstance(args[0], VStr) and args[0].s in ('SELF', 'SKIP'):
      self.tree_init()
      return VTKey(SELF_KEY if args[0].s == 'SELF' else SKIP_KEY, 'Reserved')
    return super().instantiate(c, args, kwargs)

  def isinstance1(self, v, c):
    cname = c.name if isinstance(c, (VClass, VFn)) else (c.name.split('.')[-1] if isinstance(c, VModule) else None)
    if isinstance(v, VTree):
      t = v.t
      table = {'NullMap': tkind(t) == T_NULL, 'tuple': tkind(t) == T_TUPLE, 'list': tkind(t) == T_LIST,
               'dict': tkind(t) == T_DICT, 'Mapping': tkind(t) == T_DICT, 'MutableMapping': tkind(t) == T_DICT,
               'Key': z3.BoolVal(False), 'TreeMapView': z3.BoolVal(False)}
      if cname in table:
        return table[cname]
      raise Unsupported(f'isinstance(node, {cname})')
    if isinstance(v, VTKey):
      t = v.t
      table = {'Reserved': kkind(t) == K_RESERVED, 'Index': kkind(t) == K_INDEX, 'Literal': kkind(t) == K_LITERAL,
               'int': kisint(t), 'Hashable': khash(t), 'Key': z3.BoolVal(False), 'tuple': z3.BoolVal(False)}
      if cname in table:
        return table[cname]
      raise Unsupported(f'isinstance(key, {cname})')
    if isinstance(v, VKeyPath):
      return z3.BoolVal(cname in ('Key', 'tuple', 'Sequence', 'Hashable'))
    return super().isinstance1(v, c)

  def sf_hasattr(self, node, env):
    v = self.ev(node.args[0], env)
    if isinstance(v, VTree):
      name = self.ev(node.args[1], env).s
      if name == '__setitem__':
        return VBool(z3.Or(tkind(v.t) == T_DICT, tkind(v.t) == T_LIST))
      if name in ('__array__', 'shape'):
        return VBool(False)          # A9: no ndarray nodes in the modelled heap
      raise Unsupported(f'hasattr(node, {name})')
    return super().sf_hasattr(node, env)

  def eq(self, a, b):
    if isinstance(a, VTKey) or isinstance(b, VTKey):
      if isinstance(a, VTKey) and isinstance(b, VTKey):
        return kval(a.t) == kval(b.t)
      k, o = (a, b) if isinstance(a, VTKey) else (b, a)
      if isinstance(o, (VInt, VBool)):
        return z3.And(kisint(k.t), kint(k.t) == self.to_int(o))
      raise Unsupported(f'key == {type(o).__name__}')
    if isinstance(a, VKeyPath) or isinstance(b, VKeyPath):
      if isinstance(a, VKeyPath) and isinstance(b, VKeyPath):
        for x, y in ((a, b), (b, a)):
          if z3.is_int_value(x.n) and x.n.as_long() == 0:
            return y.hi - y.lo == 0
        raise Unsupported('equality of two symbolic key paths')
      return z3.BoolVal(False)
    if isinstance(a, VTree) and isinstance(b, VTree):
      raise Unsupported('== of tree nodes (structural): use `is` in specifications')
    return super().eq(a, b)

  def ident(self, a, b):
    if isinstance(a, VRegion) or isinstance(b, VRegion):
      raise Unsupported('identity of regions')
    if isinstance(a, VFn) and isinstance(b, VFn) and a.node is None and b.node is None and a.name == b.name \
        and a.name in ('tuple', 'list', 'dict', 'int', 'str'):
      return z3.BoolVal(True)
    if (isinstance(a, VFn) and isinstance(b, VClass)) or (isinstance(a, VClass) and isinstance(b, VFn)):
      return z3.BoolVal(False)
    return super().ident(a, b)

  def ite(self, c, a, b):
    if isinstance(a, VTree) and isinstance(b, VTree) and not isinstance(c, bool):
      return VTree(z3.If(c, a.t, b.t))
    return super().ite(c, a, b)

  def truth(self, v):
    if isinstance(v, VSet):
      return v.size > 0
    if isinstance(v, VKeyPath):
      return v.hi - v.lo > 0
    if isinstance(v, VTKey):
      raise Unsupported('truthiness of a key')
    if isinstance(v, VTree):
      raise Unsupported('truthiness of a tree node')
    return super().truth(v)

  # ---- pre-state, frames, call sites ------------------------------------------------------------------
  def snapshot(self, env):
    s = super().snapshot(env)
    if getattr(self, 'th', None) is not None:
      s['__theap__'] = dict(self.th)
    return s

  def sf_old(self, node, env):
    saved = self.old_env
    if saved is not None and '__theap__' in saved:
      self.th_stack.append(saved['__theap__'])
      try:
        return super().sf_old(node, env)
      finally:
        self.th_stack.pop()
    return super().sf_old(node, env)

  def havoc_path(self, env, path):
    if path == 'theap':
      th = self.tree_init()
      old_alloc = th['alloc']
      th['H'] = z3.Const(self.path.fresh_name('heap'), Heap)
      th['alloc'] = z3.Array(self.path.fresh_name('alloc'), Obj, B)
      return
    return super().havoc_path(env, path)

  def pre_heap(self):
    """The pre-state heap of the clause being evaluated (the current one when there is no pre-state)."""
    self.tree_init()
    oe = self.old_env
    if oe is not None and '__theap__' in oe:
      return oe['__theap__']
    return self.th

  def pre_alloc(self):
    return self.pre_heap()['alloc']

  def binop(self, op, a, b):
    if isinstance(a, VSet) and isinstance(b, VSet) and isinstance(op, (ast.BitOr, ast.BitAnd)):
      return self.set_method(a, 'union' if isinstance(op, ast.BitOr) else 'intersection', [b], {})
    if isinstance(op, ast.BitOr) and all(isinstance(x, (VClass, VModule, VTuple)) for x in (a, b)):
      items = []
      for x in (a, b):
        items.extend(x.items if isinstance(x, VTuple) else [x])
      return VTuple(items)        # a union type, as accepted by isinstance
    return super().binop(op, a, b)

  def default_region(self):
    """The ghost region handed to a callee: the caller's own region (its ghost S0, or everything allocated at
    its entry) grown by what was allocated since, except the containers this activation itself created
    and may still write to.  The callee's `requires` check the choice at every call site."""
    th = self.tree_init()
    g = self.ghost.get('S0')
    ea = self.entry_alloc()
    base = g.mem if isinstance(g, VRegion) else (lambda o, _a=ea: _a[o])
    now = th['alloc']
    mine = [t for t, kind in self.local_fresh if kind != T_NULL]
    return VRegion(lambda o, _b=base, _m=mine, _n=now, _e=ea: z3.Or(
        _b(o), z3.And([_n[o], z3.Not(_e[o])] + [o != t for t in _m])))

  def entry_alloc(self):
    eo = getattr(self, 'entry_old', None)
    if eo and '__theap__' in eo:
      return eo['__theap__']['alloc']
    return self.th['alloc']

  def st_For(self, node, env):
    itv = self.ev(node.iter, env) if not isinstance(node.iter, ast.Name) else self.lookup(node.iter.id, env)
    if isinstance(itv, VKeyPath):
      ls = self.loop_spec(node)
      spec, ordinal = ls if ls else (None, -1)
      if spec is None:
        raise Unsupported(f'for loop over a key path without invariant in {self.cur_name} (line {node.lineno})')
      return self.for_range(node, env, VRange(itv.lo, itv.hi), spec, ordinal, seq=VSeq(itv.arr, itv.hi, 'tkey'))
    return super().st_For(node, env)

  def fresh_like(self, v, name):
    if isinstance(v, VTree):
      t = z3.Const(self.path.fresh_name(name), Obj)
      return VTree(t)
    if isinstance(v, (VTKey, VKeyPath, VRegion)):
      return v
    return super().fresh_like(v, name)

  # ---- match statement: sequence and class patterns over key paths ----------------------------------------
  def match_pattern(self, pat, subj, env):
    if isinstance(pat, ast.MatchSequence):
      if isinstance(subj, VKeyPath):
        return self.match_keypath(pat, subj, env)
      if isinstance(subj, VTuple):
        return self.match_tuple(pat, subj, env)
      if isinstance(subj, (VTree, VTKey, VNoneT, VInt, VBool, VStr)):
        if isinstance(subj, VTree):
          raise Unsupported('sequence pattern over a tree node')
        return False
    if isinstance(pat, ast.MatchClass):
      cls = self.ev(pat.cls, env)
      if not self.branch(self.isinstance_(subj, cls)):
        return False
      if pat.kwd_patterns:
        raise Unsupported('keyword class pattern')
      if len(pat.patterns) > 1:
        raise Unsupported('class pattern with several positional sub-patterns')
      if pat.patterns:
        # int / str subclasses (Index, Reserved) match their single positional sub-pattern against the subject
        if not (isinstance(subj, VTKey) and cls.name in ('Index', 'Reserved')):
          raise Unsupported('positional class pattern')
        return self.match_pattern(pat.patterns[0], subj, env)
      return True
    return super().match_pattern(pat, subj, env)

  def match_tuple(self, pat, tup, env):
    pats = pat.patterns
    star = [j for j, p in enumerate(pats) if isinstance(p, ast.MatchStar)]
    n, fixed = len(tup.items), len(pats) - len(star)
    if (n < fixed) if star else (n != fixed):
      return False
    s = star[0] if star else len(pats)
    for j, p in enumerate(pats):
      if isinstance(p, ast.MatchStar):
        if p.name:
          env[p.name] = VList(tup.items[j:n - (len(pats) - 1 - j)])
        continue
      x = tup.items[j] if j < s else tup.items[n - (len(pats) - j)]
      if not self.match_pattern(p, x, env):
        return False
    return True

  def match_keypath(self, pat, kp, env):
    pats = pat.patterns
    star = [j for j, p in enumerate(pats) if isinstance(p, ast.MatchStar)]
    n = kp.hi - kp.lo
    fixed = len(pats) - len(star)
    if not self.branch((n >= fixed) if star else (n == fixed)):
      return False
    s = star[0] if star else len(pats)
    for j, p in enumerate(pats):
      if isinstance(p, ast.MatchStar):
        after = len(pats) - 1 - j
        if p.name:
          env[p.name] = VKeyPath(kp.arr, z3.simplify(kp.lo + j), z3.simplify(kp.hi - after))
        continue
      idx = kp.lo + j if j < s else kp.hi - (len(pats) - j)
      if not self.match_pattern(p, VTKey(kp.arr[z3.simplify(idx)]), env):
        return False
    return True
