"""Index of the repository source: parses the *current* working tree of /repo on
every run (nothing is imported, nothing is cached between runs)."""
import ast
import hashlib
import os

REPO = os.environ.get('PYVC_REPO', '/repo')


class ModuleInfo:

  def __init__(self, relpath, src):
    self.relpath = relpath
    self.src = src
    self.tree = ast.parse(src)
    self.funcs, self.classes, self.imports, self.assigns = {}, {}, {}, {}
    for node in self.tree.body:
      if isinstance(node, (ast.FunctionDef, ast.AsyncFunctionDef)):
        self.funcs[node.name] = node
      elif isinstance(node, ast.ClassDef):
        self.classes[node.name] = node
      elif isinstance(node, ast.Import):
        for a in node.names:
          self.imports[a.asname or a.name.split('.')[0]] = a.name
      elif isinstance(node, ast.ImportFrom):
        for a in node.names:
          self.imports[a.asname or a.name] = f'{node.module}.{a.name}'
      elif isinstance(node, ast.Assign):
        for t in node.targets:
          if isinstance(t, ast.Name):
            self.assigns[t.id] = node.value
      elif isinstance(node, ast.AnnAssign) and node.value is not None:
        if isinstance(node.target, ast.Name):
          self.assigns[node.target.id] = node.value


class World:

  def __init__(self, repo=None):
    self.repo = repo or REPO
    self.mods = {}

  def module(self, relpath):
    if relpath not in self.mods:
      with open(os.path.join(self.repo, relpath)) as f:
        self.mods[relpath] = ModuleInfo(relpath, f.read())
    return self.mods[relpath]

  def module_by_dotted(self, dotted):
    """ml_metrics._src.utils.iter_utils -> ModuleInfo or None."""
    rel = dotted.replace('.', '/') + '.py'
    if os.path.exists(os.path.join(self.repo, rel)):
      return self.module(rel)
    return None

  def find(self, target):
    """'path.py::Class.method' | 'path.py::func' | 'path.py::func.inner'."""
    relpath, qual = target.split('::')
    mod = self.module(relpath)
    parts = qual.split('.')
    cls = None
    if parts[0] in mod.classes:
      cls = mod.classes[parts[0]]
      node = self._member(cls, parts[1])
      rest = parts[2:]
    else:
      node = mod.funcs.get(parts[0])
      rest = parts[1:]
    if node is None:
      raise KeyError(f'target not found: {target}')
    for name in rest:          # nested function
      node = self._nested(node, name)
    return mod, cls, node

  @staticmethod
  def _member(cls, name):
    found = None
    for n in cls.body:
      if isinstance(n, (ast.FunctionDef, ast.AsyncFunctionDef)) and n.name == name:
        if any(d.endswith('overload') for d in decorators(n)):
          continue          # typing stubs: the implementation follows
        # For property setters keep the getter (first definition).
        if found is None:
          found = n
    return found

  @staticmethod
  def _nested(fn, name):
    for n in ast.walk(fn):
      if isinstance(n, (ast.FunctionDef, ast.AsyncFunctionDef)) and n.name == name and n is not fn:
        return n
    raise KeyError(name)

  def class_by_name(self, name):
    for mod in list(self.mods.values()):
      if name in mod.classes:
        return mod, mod.classes[name]
    return None, None

  def method(self, clsname, name, _seen=None):
    """Resolve a method through (repo-defined) base classes by name."""
    mod, cls = self.class_by_name(clsname)
    if cls is None:
      return None, None, None
    m = self._member(cls, name)
    if m is not None:
      return mod, cls, m
    for b in cls.bases:
      bname = b.id if isinstance(b, ast.Name) else (
          b.attr if isinstance(b, ast.Attribute) else (
              b.value.attr if isinstance(b, ast.Subscript) and isinstance(b.value, ast.Attribute)
              else (b.value.id if isinstance(b, ast.Subscript) and isinstance(b.value, ast.Name) else None)))
      if bname and bname != clsname:
        # make sure the module defining the base is loaded
        if isinstance(b, ast.Attribute) and isinstance(b.value, ast.Name):
          dotted = mod.imports.get(b.value.id)
          if dotted:
            self.module_by_dotted(dotted)
        r = self.method(bname, name)
        if r[2] is not None:
          return r
    return None, None, None


def fn_hash(node):
  return hashlib.sha256(ast.unparse(node).encode()).hexdigest()[:16]


def alpha_form(node):
  """(hash, names): the function with every local variable replaced by its rank of first binding, and those variables in
  that order. Two functions with the same hash differ only in the names of locals (and comments / docstring): then the
  sidecar contract, whose loop invariants name locals, is read through the renaming. Parameters are not renamed."""
  import copy
  fn = copy.deepcopy(node)
  if (fn.body and isinstance(fn.body[0], ast.Expr) and isinstance(fn.body[0].value, ast.Constant)
      and isinstance(fn.body[0].value.value, str)):
    fn.body = fn.body[1:] or [ast.Pass()]
  params = {a.arg for a in fn.args.posonlyargs + fn.args.args + fn.args.kwonlyargs}
  for a in (fn.args.vararg, fn.args.kwarg):
    if a is not None:
      params.add(a.arg)
  order, fixed = [], set(params)
  for n in ast.walk(fn):
    if isinstance(n, (ast.Global, ast.Nonlocal)):
      fixed |= set(n.names)
  class Collect(ast.NodeVisitor):
    def visit_FunctionDef(self, n):       # nested functions / lambdas keep their own names (closures read ours by name)
      if n is fn:
        self.generic_visit(n)
      else:
        bind(n.name)
    def visit_Name(self, n):
      if isinstance(n.ctx, (ast.Store, ast.Del)):
        bind(n.id)
    def visit_ExceptHandler(self, n):
      if n.name:
        bind(n.name)
      self.generic_visit(n)
  def bind(name):
    if name not in fixed and name not in order:
      order.append(name)
  nested = [n for n in ast.walk(fn) if n is not fn and isinstance(n, (ast.FunctionDef, ast.AsyncFunctionDef, ast.Lambda, ast.ClassDef))]
  Collect().visit(fn)
  if nested:
    # closures: renaming across scopes needs scope analysis; keep it simple and sound - no renaming tolerance
    return hashlib.sha256(ast.dump(fn).encode()).hexdigest()[:16], []
  rank = {nme: f'_L{i}' for i, nme in enumerate(order)}
  for n in ast.walk(fn):
    if isinstance(n, ast.Name) and n.id in rank:
      n.id = rank[n.id]
    elif isinstance(n, ast.ExceptHandler) and n.name in rank:
      n.name = rank[n.name]
  return hashlib.sha256(ast.dump(fn).encode()).hexdigest()[:16], order


def decorators(node):
  out = []
  for d in node.decorator_list:
    if isinstance(d, ast.Call):
      d = d.func
    out.append(ast.unparse(d))
  return out


def is_cached_property(node):
  return any(d in ('functools.cached_property', 'cached_property') for d in decorators(node))


def _self_attrs(fn, ctx):
  out = set()
  for n in ast.walk(fn):
    if isinstance(n, ast.Attribute) and isinstance(n.value, ast.Name) and n.value.id == 'self' and isinstance(n.ctx, ctx):
      out.add(n.attr)
  return out


def memo_is_stable(cls, getter):
  """Is memoising this getter unobservable?  Yes when nothing it reads (directly, or through other getters of the class) is
  stored to by a method of the class other than __init__/__post_init__ (self.x = / self.x op= / object.__setattr__(self,'x',..)).
  A frozen dataclass passes trivially unless it uses object.__setattr__ outside __post_init__."""
  fns = {n.name: n for n in cls.body if isinstance(n, ast.FunctionDef)}
  reads, todo = set(), [getter]
  seen = set()
  while todo:
    f = todo.pop()
    if f.name in seen:
      continue
    seen.add(f.name)
    for a in _self_attrs(f, ast.Load):
      reads.add(a)
      if a in fns and a not in seen:
        todo.append(fns[a])
  writes = set()
  for name, f in fns.items():
    if name in ('__init__', '__post_init__'):
      continue
    writes |= _self_attrs(f, ast.Store)
    for n in ast.walk(f):
      if isinstance(n, ast.AugAssign) and isinstance(n.target, ast.Attribute) and isinstance(n.target.value, ast.Name) and n.target.value.id == 'self':
        writes.add(n.target.attr)
      if (isinstance(n, ast.Call) and ast.unparse(n.func) == 'object.__setattr__' and len(n.args) >= 2
          and isinstance(n.args[0], ast.Name) and n.args[0].id == 'self' and isinstance(n.args[1], ast.Constant)):
        writes.add(n.args[1].value)
  return not (reads & writes)


def is_property(node):
  return any(d in ('property', 'functools.cached_property', 'cached_property')
             for d in decorators(node))
