"""Path exploration by re-execution, obligations and their discharge."""
import time
import z3


class Unsupported(Exception):
  """The interpreted code left the supported subset."""


class PathEnd(Exception):
  """The current path ends here (cut at a loop invariant, or infeasible)."""


class Obligation:
  __slots__ = ('name', 'pc', 'goal', 'kind', 'info', 'result', 'secs',
               'model', 'backend', 'loopfree', 'abstracted')

  def __init__(self, name, pc, goal, kind, info=None):
    self.name, self.pc, self.goal, self.kind = name, list(pc), goal, kind
    self.info = info or {}
    self.result = None      # 'unsat' (discharged) | 'sat' | 'unknown'
    self.secs = 0.0
    self.model = None
    self.backend = None
    self.loopfree = True
    self.abstracted = False


class Path:

  def __init__(self, decisions=()):
    self.pc = []
    self.dec = list(decisions)
    self.pos = 0
    self.obls = []
    self.counter = 0
    self.cut_loops = 0       # number of loop cuts on this path (0 = loop free)
    self.abstracted = 0      # number of havocs from un-contracted/opaque calls
    self.notes = []
    self.witness_terms = {}
    self.assumed = []        # facts assumed (requires, callee ensures, type facts), not branch decisions

  def fresh_name(self, base):
    self.counter += 1
    return f'{base}!{self.counter}'

  def assume(self, b):
    if isinstance(b, bool):
      if not b:
        self.notes.append('DEAD')      # an assumption that is literally false: contradictory contract/hook
        self.notes.append('dead-after: literally false assumption; ' + str(getattr(self, 'ctx', '?')))
        raise PathEnd()
      return
    if z3.is_true(b):
      return
    if z3.is_false(b):
      self.notes.append('DEAD')
      self.notes.append('dead-after: literally false assumption; ' + str(getattr(self, 'ctx', '?')))
      raise PathEnd()
    self.pc.append(b)
    self.assumed.append(b)


# ---- hard watchdog around in-process solver calls ---------------------------------------------------------
# z3's `timeout` is cooperative; a call that overruns its budget by GRACE seconds (seen once: smt::theory_lra stuck in
# lar_solver::explain_fixed_in_row for over an hour, under CPU load) cannot be interrupted from Python. The job then
# records which call it was and exits; the scheduler (jobs.py) re-runs the job with that call answered `unknown`
# (discharge: next solver stage / cvc5; feasibility: "feasible"; both sound for proving).
import os as _os
_TEST_HANG = _os.environ.get('PYVC_TEST_HANG')
WATCHDOG = dict(cur=None, skip=set(), file=None, started=False, grace=15.0)


def _solver_key(kind, solver):
  try:
    h = hash(tuple(a.hash() for a in solver.assertions()))
  except Exception:   # pylint: disable=broad-exception-caught
    h = 0
  return f'{kind}:{h & 0xffffffffffff:x}'


def _watchdog_loop():
  import os, json
  while True:
    time.sleep(0.5)
    cur = WATCHDOG['cur']
    if cur is not None and time.time() > cur[1]:
      try:
        if WATCHDOG['file']:
          with open(WATCHDOG['file'], 'w') as f:
            json.dump(dict(key=cur[0], overrun_s=round(time.time() - cur[2], 1)), f)
      finally:
        os._exit(77)


def start_watchdog(skip, file):
  import threading
  WATCHDOG['skip'], WATCHDOG['file'] = set(skip), file
  if not WATCHDOG['started']:
    WATCHDOG['started'] = True
    threading.Thread(target=_watchdog_loop, daemon=True).start()


def guarded_check(kind, solver, ms):
  """solver.check() with budget ms; z3.unknown when this call was marked as one that hangs."""
  key = _solver_key(kind, solver)
  if key in WATCHDOG['skip']:
    return z3.unknown
  now = time.time()
  WATCHDOG['cur'] = (key, now + ms / 1000.0 + WATCHDOG['grace'], now)
  try:
    if _TEST_HANG and key.startswith(_TEST_HANG) and key.endswith('7'):      # self-test of the watchdog: an uninterruptible call
      time.sleep(10 ** 6)
    return solver.check()
  finally:
    WATCHDOG['cur'] = None


def guarded_call(kind, ident, ms, fn, default):
  key = f'{kind}:{ident}'
  if key in WATCHDOG['skip']:
    return default
  now = time.time()
  WATCHDOG['cur'] = (key, now + ms / 1000.0 + WATCHDOG['grace'], now)
  try:
    return fn()
  finally:
    WATCHDOG['cur'] = None


class Explorer:
  """Depth-first exploration of the decision tree by re-execution."""

  def __init__(self, branch_timeout_ms=4000, max_paths=4000):
    self.branch_timeout_ms = branch_timeout_ms
    self.max_paths = max_paths
    self.paths = 0
    self.solver_calls = 0
    self.work = []
    self.cur = None

  def feasible(self, pc, extra):
    """Over-approximate feasibility (unknown counts as feasible: sound for proving).
    Stage 1 ignores quantified hypotheses (fast, still sound); stage 2 adds them
    under a short timeout to prune more."""
    qf = [c for c in pc if not _has_quantifier(c)]
    s = z3.Solver()
    s.set('timeout', self.branch_timeout_ms)
    for c in qf:
      s.add(c)
    s.add(extra)
    self.solver_calls += 1
    r = guarded_check('feasible', s, self.branch_timeout_ms)
    if r == z3.unsat:
      return False
    if len(qf) == len(pc):
      return True
    s2 = z3.Solver()
    s2.set('timeout', 400)
    for c in pc:
      s2.add(c)
    s2.add(extra)
    self.solver_calls += 1
    return guarded_check('feasible-q', s2, 400) != z3.unsat

  def branch(self, cond):
    """Decide a symbolic condition on the current path; returns a Python bool."""
    p = self.cur
    if isinstance(cond, bool):
      return cond
    cond = z3.simplify(cond)
    if z3.is_true(cond):
      return True
    if z3.is_false(cond):
      return False
    if p.pos < len(p.dec):
      d = p.dec[p.pos]
      p.pos += 1
      p.pc.append(cond if d else z3.Not(cond))
      return d
    t_ok = self.feasible(p.pc, cond)
    f_ok = self.feasible(p.pc, z3.Not(cond))
    if t_ok and f_ok:
      self.work.append(p.dec + [False])
      d = True
    elif t_ok:
      d = True
    elif f_ok:
      d = False
    else:
      p.notes.append('DEAD')   # path condition itself infeasible: contradictory assumptions
      p.notes.append('dead-after: ' + str(getattr(p, 'ctx', '?')))
      raise PathEnd()
    p.dec.append(d)
    p.pos += 1
    p.pc.append(cond if d else z3.Not(cond))
    return d

  def explore(self, run):
    """run(path) executes one path to completion. Returns all obligations."""
    self.work = [[]]
    all_obls = []
    infos = []
    while self.work:
      if self.paths >= self.max_paths:
        raise Unsupported(f'more than {self.max_paths} paths')
      dec = self.work.pop()
      p = Path(dec)
      self.cur = p
      self.paths += 1
      try:
        run(p)
      except PathEnd:
        pass
      for o in p.obls:
        o.loopfree = o.loopfree and True
      all_obls.extend(p.obls)
      infos.append(p)
    return all_obls, infos


_SK = [0]


def _skolemize(goal):
  """forall x. G  ->  (G[c], [c]) for a fresh constant c; also under an implication
  and for each conjunct. Sound for proving: G[c] for arbitrary c is the same claim."""
  consts = []

  def sk(g):
    if z3.is_quantifier(g) and g.is_forall():
      cs = []
      for i in range(g.num_vars()):
        _SK[0] += 1
        cs.append(z3.Const(f'sk!{g.var_name(i)}!{_SK[0]}', g.var_sort(i)))
      consts.extend(cs)
      return sk(z3.substitute_vars(g.body(), *reversed(cs)))
    if z3.is_implies(g):
      return z3.Implies(g.arg(0), sk(g.arg(1)))
    if z3.is_and(g):
      return z3.And([sk(x) for x in g.children()])
    return g
  return sk(goal), consts


def _instances(pc, consts, extra_terms=()):
  """Instantiates universally quantified hypotheses at the goal's skolem constants
  (a deterministic substitute for E-matching; the quantified facts are kept too)."""
  out = []
  terms = list(consts) + list(extra_terms)
  if not terms:
    return out
  for h in pc:
    hs = h.children() if z3.is_and(h) else [h]
    for q in hs:
      guard = None
      if z3.is_implies(q) and z3.is_quantifier(q.arg(1)):      # A => forall x. B  is  forall x. (A => B)
        guard, q = q.arg(0), q.arg(1)
      if z3.is_quantifier(q) and q.is_forall() and q.num_vars() == 1:
        for c in terms:
          if c.sort() == q.var_sort(0):
            inst = z3.substitute_vars(q.body(), c)
            out.append(inst if guard is None else z3.Implies(guard, inst))
  return out


_QCACHE = {}


def _has_quantifier(e):
  k = e.get_id()
  if k in _QCACHE:
    return _QCACHE[k]
  seen, todo, res = set(), [e], False
  while todo:
    x = todo.pop()
    if x.get_id() in seen:
      continue
    seen.add(x.get_id())
    if z3.is_quantifier(x):
      res = True
      break
    todo.extend(x.children())
  _QCACHE[k] = res
  return res


def discharge(obl, timeout_ms=20000, want_model=True):
  """Proves pc => goal by refuting pc /\\ not goal."""
  t0 = time.time()
  goal, consts = _skolemize(obl.goal)
  hyps = list(obl.pc) + _instances(obl.pc, consts)

  def z3_default(ms):
    s = z3.Solver()
    s.set('timeout', ms)
    for c in hyps:
      s.add(c)
    s.add(z3.Not(goal))
    return s, guarded_check(f'discharge-{ms}', s, ms)

  # stage 1: default solver, short budget (linear / easy goals finish in milliseconds)
  s, r = z3_default(min(3000, timeout_ms))
  obl.backend = 'z3'
  if r == z3.unknown:
    # stage 2: non-linear real arithmetic (nlsat) on the quantifier-free problem
    try:
      g = z3.Goal()
      for c in hyps:
        if not _has_quantifier(c):
          g.add(c)
      g.add(z3.Not(goal))
      t = z3.TryFor(z3.Then('simplify', 'propagate-values', 'purify-arith', 'qfnra-nlsat'), timeout_ms)
      res = guarded_call('nlsat', f'{hash(tuple(x.hash() for x in g)) & 0xffffffffffff:x}', timeout_ms, lambda: t(g), [])
      if len(res) == 1 and res[0].inconsistent():
        r = z3.unsat
        obl.backend = 'z3-nlsat'
    except z3.Z3Exception:
      pass
  if r == z3.unknown and timeout_ms > 3000:
    # stage 3: default solver with the full budget
    s, r = z3_default(timeout_ms)
    obl.backend = 'z3'
  if r == z3.unknown:
    r2 = _cvc5(s, timeout_ms)
    if r2 is not None:
      obl.backend = 'cvc5'
      obl.result = r2
      obl.secs = time.time() - t0
      return obl
  obl.result = 'unsat' if r == z3.unsat else ('sat' if r == z3.sat else 'unknown')
  if r == z3.sat and want_model:
    obl.model = s.model()
  obl.secs = time.time() - t0
  return obl


def _cvc5(solver, timeout_ms):
  """Cross-check with the cvc5 binary on the SMT-LIB dump. Returns
  'unsat'/'sat'/None."""
  import subprocess, tempfile, os
  try:
    smt = solver.to_smt2()
    with tempfile.NamedTemporaryFile('w', suffix='.smt2', delete=False) as f:
      f.write('(set-logic ALL)\n' + smt)
      name = f.name
    try:
      out = subprocess.run(
          ['/usr/bin/cvc5', f'--tlimit={timeout_ms}', name],
          capture_output=True, text=True, timeout=timeout_ms / 1000 + 5)
      first = out.stdout.strip().split('\n')[0] if out.stdout.strip() else ''
      if first in ('unsat', 'sat'):
        return first
    finally:
      os.unlink(name)
  except Exception:   # pylint: disable=broad-exception-caught
    return None
  return None


def recheck_cvc5(obl, timeout_ms=20000):
  """Independent re-proof of a discharged obligation by cvc5 (thorough tier)."""
  s = z3.Solver()
  for c in obl.pc:
    s.add(c)
  s.add(z3.Not(obl.goal))
  return _cvc5(s, timeout_ms)
